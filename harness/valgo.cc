// C18 harness: drive celeritas' device-portable algorithms, integer helpers, range
// utilities, indexers and grid lookups; log one ndjson record per case with arguments
// and results.  The reference semantics live in spec/Algorithms.tla; this program
// computes no expected values (except std::sort to build *sorted inputs* for searches).
#include <numeric>
#include <sstream>

#include "corecel/cont/Array.hh"
#include "corecel/cont/Range.hh"
#include "corecel/data/Collection.hh"
#include "corecel/data/CollectionBuilder.hh"
#include "corecel/data/HyperslabIndexer.hh"
#include "corecel/grid/FindInterp.hh"
#include "corecel/grid/Interpolator.hh"
#include "corecel/grid/NonuniformGrid.hh"
#include "corecel/grid/TwodGridCalculator.hh"
#include "corecel/grid/TwodGridData.hh"
#include "corecel/grid/TwodSubgridCalculator.hh"
#include "corecel/grid/UniformGrid.hh"
#include "corecel/grid/UniformGridData.hh"
#include "corecel/math/Algorithms.hh"
#include "corecel/cont/Span.hh"
#include "orange/OrangeData.hh"
#include "orange/univ/detail/RaggedRightIndexer.hh"

#include "vjson.hh"

using namespace celeritas;
using verif::json;

namespace
{
using VecInt = std::vector<int>;

json seq_record(VecInt const& s, int alphabet)
{
    json rec;
    rec["e"] = "Seq";
    rec["s"] = s;
    rec["a"] = alphabet;
    {
        VecInt v = s;
        celeritas::sort(v.begin(), v.end());
        rec["sort_lt"] = v;
    }
    {
        VecInt v = s;
        celeritas::sort(v.begin(), v.end(), [](int a, int b) { return a > b; });
        rec["sort_gt"] = v;
    }
    {
        // Indirect comparator (as SimpleUnitTracker sorts indices by distance)
        VecInt idx(s.size());
        std::iota(idx.begin(), idx.end(), 0);
        celeritas::sort(idx.begin(), idx.end(), [&s](int a, int b) {
            return s[a] < s[b];
        });
        rec["sort_idx"] = idx;
    }
    json parts = json::array();
    json allof = json::array(), anyof = json::array();
    for (int k = 0; k <= alphabet; ++k)
    {
        VecInt v = s;
        auto pred = [k](int x) { return x < k; };
        auto mid = celeritas::partition(v.begin(), v.end(), pred);
        parts.push_back({{"k", k}, {"r", v}, {"m", int(mid - v.begin())}});
        allof.push_back(celeritas::all_of(s.begin(), s.end(), pred));
        anyof.push_back(celeritas::any_of(s.begin(), s.end(), pred));
    }
    {
        // parity predicate (non-monotone)
        VecInt v = s;
        auto pred = [](int x) { return x % 2 == 0; };
        auto mid = celeritas::partition(v.begin(), v.end(), pred);
        rec["part_even"] = {{"r", v}, {"m", int(mid - v.begin())}};
    }
    rec["part"] = parts;
    rec["allof"] = allof;
    rec["anyof"] = anyof;
    rec["minel"] = int(celeritas::min_element(s.begin(), s.end()) - s.begin());
    rec["maxel"] = int(celeritas::min_element(s.begin(), s.end(),
                                              [](int a, int b) { return a > b; })
                       - s.begin());
    rec["adj_le"] = celeritas::all_adjacent(
        s.begin(), s.end(), [](int a, int b) { return a <= b; });
    rec["adj_lt"] = celeritas::all_adjacent(
        s.begin(), s.end(), [](int a, int b) { return a < b; });
    // searches on the sorted sequence (sorted by the standard library: input only)
    VecInt t = s;
    std::sort(t.begin(), t.end());
    rec["t"] = t;
    json srch = json::array();
    for (int key = -1; key <= alphabet; ++key)
    {
        int lb = int(celeritas::lower_bound(t.begin(), t.end(), key) - t.begin());
        int lbl
            = int(celeritas::lower_bound_linear(t.begin(), t.end(), key) - t.begin());
        int ub = int(celeritas::upper_bound(t.begin(), t.end(), key) - t.begin());
        int fs = int(celeritas::find_sorted(t.begin(), t.end(), key) - t.begin());
        srch.push_back({{"k", key}, {"lb", lb}, {"lbl", lbl}, {"ub", ub}, {"fs", fs}});
    }
    rec["srch"] = srch;
    // descending searches with comparator >
    VecInt d(t.rbegin(), t.rend());
    json srchd = json::array();
    auto gt = [](int a, int b) { return a > b; };
    for (int key = -1; key <= alphabet; ++key)
    {
        int lb = int(celeritas::lower_bound(d.begin(), d.end(), key, gt) - d.begin());
        int ub = int(celeritas::upper_bound(d.begin(), d.end(), key, gt) - d.begin());
        int fs = int(celeritas::find_sorted(d.begin(), d.end(), key, gt) - d.begin());
        srchd.push_back({{"k", key}, {"lb", lb}, {"ub", ub}, {"fs", fs}});
    }
    rec["srchd"] = srchd;
    return rec;
}

void mode_seq(int maxlen, int alphabet, std::string const& out)
{
    verif::NdjsonWriter w(out);
    for (int len = 0; len <= maxlen; ++len)
    {
        VecInt s(len, 0);
        while (true)
        {
            w(seq_record(s, alphabet));
            int i = len - 1;
            while (i >= 0 && s[i] == alphabet - 1)
            {
                s[i] = 0;
                --i;
            }
            if (i < 0)
                break;
            ++s[i];
        }
    }
}

void mode_rand(unsigned seed, int count, int maxlen, int alphabet, std::string const& out)
{
    verif::NdjsonWriter w(out);
    std::mt19937 rng(seed);
    for (int c = 0; c < count; ++c)
    {
        int len = std::uniform_int_distribution<int>(0, maxlen)(rng);
        // mix of distributions: uniform, few distinct, nearly sorted, reversed
        int kind = c % 4;
        VecInt s(len);
        for (int i = 0; i < len; ++i)
        {
            switch (kind)
            {
                case 0:
                    s[i] = std::uniform_int_distribution<int>(0, alphabet - 1)(rng);
                    break;
                case 1:
                    s[i] = std::uniform_int_distribution<int>(0, 1)(rng) * (alphabet - 1);
                    break;
                case 2:
                    s[i] = std::min(alphabet - 1, i * alphabet / std::max(1, len));
                    break;
                default:
                    s[i] = std::max(0, alphabet - 1 - i * alphabet / std::max(1, len));
                    break;
            }
        }
        if (kind >= 2 && len > 1)
        {
            // perturb
            int a = std::uniform_int_distribution<int>(0, len - 1)(rng);
            int b = std::uniform_int_distribution<int>(0, len - 1)(rng);
            std::swap(s[a], s[b]);
        }
        w(seq_record(s, alphabet));
    }
}

template<unsigned N>
json ipow_rec(int v)
{
    return {{"e", "Ipow"}, {"n", N}, {"v", v}, {"r", celeritas::ipow<N>(v)}};
}

template<size_type N>
void hyperslab(verif::NdjsonWriter& w, Array<size_type, N> const& dims)
{
    HyperslabIndexer<N> to_index(dims);
    HyperslabInverseIndexer<N> to_coords(dims);
    size_type total = 1;
    for (auto d : dims)
        total *= d;
    json rec;
    rec["e"] = "Hyperslab";
    rec["dims"] = std::vector<int>(dims.begin(), dims.end());
    json fwd = json::array();
    for (size_type i = 0; i < total; ++i)
    {
        auto c = to_coords(i);
        fwd.push_back({{"i", int(i)},
                       {"c", std::vector<int>(c.begin(), c.end())},
                       {"back", int(to_index(c))}});
    }
    rec["map"] = fwd;
    w(rec);
}

void mode_misc(std::string const& out)
{
    verif::NdjsonWriter w(out);
    // integer helpers
    for (int a = 0; a <= 24; ++a)
        for (int b = 1; b <= 7; ++b)
            w({{"e", "CeilDiv"}, {"a", a}, {"b", b}, {"r", int(celeritas::ceil_div<unsigned>(a, b))}});
    for (int v = -4; v <= 4; ++v)
    {
        w(ipow_rec<0>(v));
        w(ipow_rec<1>(v));
        w(ipow_rec<2>(v));
        w(ipow_rec<3>(v));
        w(ipow_rec<4>(v));
        w(ipow_rec<5>(v));
        w(ipow_rec<7>(v));
        w({{"e", "Signum"}, {"v", v}, {"r", celeritas::signum(v)}});
        w({{"e", "Signum"}, {"v", v}, {"r", celeritas::signum(double(v) * 0.5)}});
        w({{"e", "Negate"}, {"v", v}, {"r", int(celeritas::negate(double(v)))},
           {"signbit", std::signbit(celeritas::negate(double(v)))}});
    }
    // eumod on quarter-integers: log numerators (x4) so that everything is exact
    for (int n = -18; n <= 18; ++n)
        for (int d : {-8, -5, -4, -1, 1, 3, 4, 8})
        {
            double r = celeritas::eumod(n * 0.25, d * 0.25);
            double r4 = r * 4;
            w({{"e", "Eumod"}, {"n", n}, {"d", d}, {"r", int(std::lround(r4))},
               {"exact", r4 == std::round(r4)}});
        }
    // clamp / min / max / clamp_to_nonneg on small ints
    for (int v = -3; v <= 5; ++v)
        for (int lo = -1; lo <= 3; ++lo)
            for (int hi = lo; hi <= 4; ++hi)
                w({{"e", "Clamp"}, {"v", v}, {"lo", lo}, {"hi", hi},
                   {"r", celeritas::clamp(v, lo, hi)},
                   {"rd", int(celeritas::clamp(double(v), double(lo), double(hi)))}});
    for (int a = -3; a <= 3; ++a)
    {
        w({{"e", "Nonneg"}, {"v", a}, {"r", int(celeritas::clamp_to_nonneg(double(a)))}});
        for (int b = -3; b <= 3; ++b)
            w({{"e", "MinMax"}, {"a", a}, {"b", b}, {"mn", celeritas::min(a, b)},
               {"mx", celeritas::max(a, b)},
               {"mnd", int(celeritas::min(double(a), double(b)))},
               {"mxd", int(celeritas::max(double(a), double(b)))}});
    }
    // LocalWorkCalculator
    for (unsigned total = 0; total <= 12; ++total)
        for (unsigned nw = 1; nw <= 5; ++nw)
        {
            LocalWorkCalculator<unsigned> calc{total, nw};
            std::vector<int> r;
            for (unsigned i = 0; i < nw; ++i)
                r.push_back(int(calc(i)));
            w({{"e", "LocalWork"}, {"total", int(total)}, {"nw", int(nw)}, {"r", r}});
        }
    // ranges
    for (int a = -2; a <= 4; ++a)
        for (int b = a; b <= 7; ++b)
        {
            std::vector<int> r;
            for (auto i : celeritas::range(a, b))
                r.push_back(i);
            auto rg = celeritas::range(a, b);
            w({{"e", "Range"}, {"a", a}, {"b", b}, {"r", r}, {"size", int(rg.size())},
               {"empty", rg.empty()}});
            for (int st : {1, 2, 3, 5, -1, -2, -3})
            {
                std::vector<int> q;
                for (auto i : celeritas::range(a, b).step(st))
                    q.push_back(i);
                w({{"e", "StepRange"}, {"a", a}, {"b", b}, {"st", st}, {"r", q}});
            }
        }
    for (unsigned n = 0; n <= 6; ++n)
    {
        std::vector<int> r;
        for (auto i : celeritas::range(n))
            r.push_back(int(i));
        w({{"e", "Range"}, {"a", 0}, {"b", int(n)}, {"r", r},
           {"size", int(celeritas::range(n).size())}, {"empty", celeritas::range(n).empty()}});
    }
    for (int start : {0, 3, 100})
        for (int st : {1, 2, -3})
        {
            std::vector<int> r;
            for (auto i : celeritas::count(start).step(st))
            {
                if (r.size() >= 5)
                    break;
                r.push_back(i);
            }
            w({{"e", "CountStep"}, {"a", start}, {"st", st}, {"r", r}});
        }
    // hyperslab indexers
    for (size_type a = 1; a <= 3; ++a)
        for (size_type b = 1; b <= 4; ++b)
        {
            hyperslab<2>(w, Array<size_type, 2>{a, b});
            for (size_type c = 1; c <= 3; ++c)
                hyperslab<3>(w, Array<size_type, 3>{a, b, c});
        }
    hyperslab<4>(w, Array<size_type, 4>{2, 3, 1, 2});
    // exact linear interpolation on dyadic data
    for (int x0 = -2; x0 <= 2; ++x0)
        for (int w2 : {1, 2, 4, 8})
            for (int y0 : {-16, 0, 8})
                for (int y1 : {-8, 0, 24})
                    for (int x = x0; x <= x0 + w2; ++x)
                    {
                        LinearInterpolator<double> interp({double(x0), double(y0)},
                                                          {double(x0 + w2), double(y1)});
                        double r = interp(double(x));
                        double r8 = r * 8;
                        w({{"e", "LinInterp"}, {"x0", x0}, {"x1", x0 + w2}, {"y0", y0},
                           {"y1", y1}, {"x", x}, {"r8", int(std::lround(r8))},
                           {"exact", r8 == std::round(r8)}});
                    }
}

//! Uniform and non-uniform grids with rank-abstracted doubles
void mode_grid(unsigned seed, int count, std::string const& out)
{
    verif::NdjsonWriter w(out);
    std::mt19937_64 rng(seed);
    std::uniform_real_distribution<double> u01(0, 1);
    for (int g = 0; g < count; ++g)
    {
        bool uniform = (g % 2 == 0);
        int n = 2 + int(rng() % 9);
        std::vector<double> knots(n);
        UniformGridData ud;
        if (uniform)
        {
            int kind = (g / 2) % 3;
            double front, delta;
            if (kind == 0)
            {
                // dyadic: exact arithmetic everywhere
                front = double(int(rng() % 33) - 16) * 0.25;
                delta = std::ldexp(1.0, int(rng() % 7) - 3);
            }
            else if (kind == 1)
            {
                front = (u01(rng) - 0.5) * 20;
                delta = 0.01 + u01(rng) * 3;
            }
            else
            {
                // log-energy-like grid
                front = std::log(1e-4 * (1 + u01(rng)));
                delta = std::log(1e8) / (n - 1) * (0.5 + u01(rng));
            }
            // as the library builds them: delta derived from the bounds
            ud = UniformGridData::from_bounds(front, front + delta * (n - 1), n);
            for (int i = 0; i < n; ++i)
                knots[i] = ud.front + ud.delta * i;  // definition of grid point i
        }
        else
        {
            double x = (u01(rng) - 0.5) * 10;
            for (int i = 0; i < n; ++i)
            {
                knots[i] = x;
                // occasionally tiny gaps (1 ulp) to test adjacency
                if (rng() % 5 == 0)
                    x = std::nextafter(x, 1e300);
                else
                    x += 0.001 + u01(rng) * 2;
            }
        }
        // queries
        std::vector<std::pair<std::string, double>> qs;
        for (int i = 0; i < n; ++i)
        {
            qs.push_back({"at", knots[i]});
            qs.push_back({"up", std::nextafter(knots[i], 1e300)});
            qs.push_back({"dn", std::nextafter(knots[i], -1e300)});
            if (i + 1 < n)
            {
                qs.push_back({"mid", 0.5 * (knots[i] + knots[i + 1])});
                qs.push_back({"in", knots[i] + u01(rng) * (knots[i + 1] - knots[i])});
            }
        }
        verif::Ranker rank;
        for (double k : knots)
            rank.add(k);
        for (auto const& q : qs)
        {
            rank.add(q.second);
            rank.add(std::nextafter(q.second, 1e300));
            rank.add(std::nextafter(q.second, -1e300));
        }
        rank.finalize();
        json rec;
        rec["e"] = "Grid";
        rec["uniform"] = uniform;
        json kr = json::array();
        for (double k : knots)
            kr.push_back(rank(k));
        rec["knots"] = kr;
        json qr = json::array();

        Collection<double, Ownership::value, MemSpace::host> storage;
        ItemRange<double> span;
        if (!uniform)
        {
            auto build = make_builder(&storage);
            span = build.insert_back(knots.begin(), knots.end());
        }
        Collection<double, Ownership::const_reference, MemSpace::host> ref;
        if (!uniform)
            ref = storage;

        for (auto const& q : qs)
        {
            double v = q.second;
            if (!(v >= knots.front() && v < knots.back()))
                continue;  // precondition of find
            if (uniform && !(v >= ud.front && v < ud.back))
                continue;
            int bin;
            double frac;
            if (uniform)
            {
                UniformGrid grid(ud);
                bin = int(grid.find(v));
                auto fi = find_interp(grid, v);
                frac = fi.fraction;
                if (int(fi.index) != bin)
                    bin = -100;  // find_interp must agree with find
            }
            else
            {
                NonuniformGrid<double> grid(span, ref);
                bin = int(grid.find(v));
                auto fi = find_interp(grid, v);
                frac = fi.fraction;
                if (int(fi.index) != bin)
                    bin = -100;
            }
            qr.push_back({{"c", q.first},
                          {"v", rank(v)},
                          {"vu", rank(std::nextafter(v, 1e300))},
                          {"vd", rank(std::nextafter(v, -1e300))},
                          {"bin", bin},
                          {"f0", frac >= 0},
                          {"f1", frac <= 1},  // correctly rounded value of a ratio < 1 may be 1.0
                          {"fz", frac == 0}});
        }
        rec["qs"] = qr;
        w(rec);
    }
}

//! Ragged-right indexers: every flat index of every offsets array
template<size_type N>
void ragged(verif::NdjsonWriter& w, std::vector<int> const& sizes)
{
    Array<size_type, N> sz;
    for (size_type i = 0; i < N; ++i)
        sz[i] = size_type(sizes[i]);
    auto rrd = RaggedRightIndexerData<N>::from_sizes(sz);
    celeritas::detail::RaggedRightIndexer<N> to_flat(rrd);
    celeritas::detail::RaggedRightInverseIndexer<N> to_coords(rrd);
    json rec;
    rec["e"] = "Ragged";
    json off = json::array();
    for (size_type i = 0; i <= N; ++i)
        off.push_back(int(rrd.offsets[i]));
    rec["offsets"] = off;
    rec["sizes"] = sizes;
    json map = json::array();
    for (size_type k = 0; k < rrd.offsets[N]; ++k)
    {
        auto c = to_coords(k);
        map.push_back({{"i", int(k)}, {"c", {int(c[0]), int(c[1])}}, {"back", int(to_flat(c))}});
    }
    rec["map"] = map;
    w(rec);
}

template<class S>
json span_items(S const& s)
{
    json r = json::array();
    for (auto v : s)
        r.push_back(v);
    return r;
}

//! Anchored utilities not reached by mode_misc: ragged indexers, spans, 2-D grids, float helpers
void mode_misc2(unsigned seed, std::string const& out)
{
    verif::NdjsonWriter w(out);
    std::mt19937_64 rng(seed);
    // ragged-right indexers (row sizes >= 1: precondition of from_sizes)
    for (int a = 1; a <= 4; ++a)
    {
        ragged<1>(w, {a});
        for (int b = 1; b <= 4; ++b)
        {
            ragged<2>(w, {a, b});
            for (int c = 1; c <= 3; ++c)
            {
                ragged<3>(w, {a, b, c});
                ragged<5>(w, {c, 2, a, b, 1});
            }
        }
    }
    // spans (dynamic extent): every (offset, count) of every length
    for (int n = 0; n <= 6; ++n)
    {
        std::vector<int> data(n);
        std::iota(data.begin(), data.end(), 10);
        Span<int> s = make_span(data);
        for (int o = 0; o <= n; ++o)
        {
            json rec{{"e", "Span"}, {"n", n}, {"off", o}, {"size", int(s.size())}, {"empty", s.empty()}};
            rec["rest"] = span_items(s.subspan(o));
            rec["first"] = span_items(s.first(o));
            rec["last"] = span_items(s.last(o));
            json subs = json::array();
            for (int c = 0; o + c <= n; ++c)
                subs.push_back(span_items(s.subspan(o, c)));
            rec["subs"] = subs;
            if (n > 0)
            {
                rec["front"] = s.front();
                rec["back"] = s.back();
            }
            w(rec);
        }
    }
    {
        // static extents
        Array<int, 5> arr{10, 11, 12, 13, 14};
        auto s = make_span(arr);
        w({{"e", "SpanStatic"}, {"n", 5}, {"first2", span_items(s.first<2>())},
           {"last2", span_items(s.last<2>())}, {"sub13", span_items(s.subspan<1, 3>())},
           {"rest2", span_items(s.subspan<2>())}, {"first0", span_items(s.first<0>())},
           {"last5", span_items(s.last<5>())}, {"arr", span_items(make_array(s))}});
    }
    // bilinear interpolation on 2-D grids: integer knots with power-of-two widths, integer
    // values, queries at every quarter point of every cell => all arithmetic is exact
    for (int g = 0; g < 60; ++g)
    {
        int nx = 2 + int(rng() % 3), ny = 2 + int(rng() % 4);
        std::vector<double> xs(nx), ys(ny);
        std::vector<int> wx(nx - 1), wy(ny - 1);
        xs[0] = double(int(rng() % 9) - 4);
        ys[0] = double(int(rng() % 9) - 4);
        for (int i = 1; i < nx; ++i)
        {
            wx[i - 1] = 1 << (rng() % 3);
            xs[i] = xs[i - 1] + wx[i - 1];
        }
        for (int i = 1; i < ny; ++i)
        {
            wy[i - 1] = 1 << (rng() % 3);
            ys[i] = ys[i - 1] + wy[i - 1];
        }
        std::vector<double> vals(nx * ny);
        json vj = json::array();
        for (int ix = 0; ix < nx; ++ix)
        {
            json row = json::array();
            for (int iy = 0; iy < ny; ++iy)
            {
                int v = (g % 3 == 0) ? (7 * ix * ix + 3 * iy - 2 * ix * iy)
                                     : int(rng() % 41) - 20;
                vals[ix * ny + iy] = v;
                row.push_back(v);
            }
            vj.push_back(row);
        }
        Collection<double, Ownership::value, MemSpace::host> storage;
        TwodGridData gd;
        {
            auto build = make_builder(&storage);
            // filler so that no range starts at offset 0
            std::vector<double> filler(1 + g % 4, 1e6);
            build.insert_back(filler.begin(), filler.end());
            gd.x = build.insert_back(xs.begin(), xs.end());
            build.insert_back(filler.begin(), filler.end());
            gd.y = build.insert_back(ys.begin(), ys.end());
            build.insert_back(filler.begin(), filler.end());
            gd.values = build.insert_back(vals.begin(), vals.end());
            build.insert_back(filler.begin(), filler.end());
        }
        Collection<double, Ownership::const_reference, MemSpace::host> ref;
        ref = storage;
        TwodGridCalculator calc(gd, ref);
        json rec;
        rec["e"] = "Twod";
        json xj = json::array(), yj = json::array();
        for (double x : xs)
            xj.push_back(int(x));
        for (double y : ys)
            yj.push_back(int(y));
        rec["x"] = xj;
        rec["y"] = yj;
        rec["v"] = vj;
        json qs = json::array();
        for (int ix = 0; ix + 1 < nx; ++ix)
            for (int kx = 0; kx < 4; ++kx)
                for (int iy = 0; iy + 1 < ny; ++iy)
                    for (int ky = 0; ky < 4; ++ky)
                    {
                        double x = xs[ix] + wx[ix] * 0.25 * kx;
                        double y = ys[iy] + wy[iy] * 0.25 * ky;
                        double r = calc({x, y});
                        auto sub = calc(x);
                        double r2 = sub(y);
                        double r16 = r * 16;
                        qs.push_back({{"x4", int(std::lround(4 * x))},
                                      {"y4", int(std::lround(4 * y))},
                                      {"r16", int(std::lround(r16))},
                                      {"exact", r16 == std::round(r16)},
                                      {"same", r == r2},
                                      {"xi", int(sub.x_index())},
                                      {"xf4", int(std::lround(4 * sub.x_fraction()))},
                                      {"xfexact", 4 * sub.x_fraction() == std::round(4 * sub.x_fraction())}});
                    }
        rec["qs"] = qs;
        w(rec);
    }
    // floating-point helpers on inputs where the exact result is representable
    for (int a = -6; a <= 6; ++a)
        for (int b = -6; b <= 6; ++b)
        {
            w({{"e", "Diffsq"}, {"a", a}, {"b", b}, {"r", int(celeritas::diffsq(double(a), double(b)))},
               {"ri", celeritas::diffsq(a, b)}});
            for (int c : {-3, 0, 5})
                w({{"e", "Fma"}, {"a", a}, {"b", b}, {"c", c},
                   {"r", int(celeritas::fma(double(a), double(b), double(c)))},
                   {"ri", celeritas::fma(a, b, c)}});
        }
    for (int k = -6; k <= 6; ++k)
    {
        // rsqrt(4^k) * 2^k = 1 exactly
        double r = celeritas::rsqrt(std::ldexp(1.0, 2 * k));
        float rf = celeritas::rsqrt(std::ldexp(1.0f, 2 * k));
        w({{"e", "Rsqrt"}, {"k", k}, {"one", std::ldexp(r, k) == 1.0}, {"onef", std::ldexp(rf, k) == 1.0f}});
    }
    for (int a = 1; a <= 5; ++a)
        for (int n = 0; n <= 6; ++n)
        {
            double r = celeritas::fastpow(double(a), double(n));
            w({{"e", "FastPow"}, {"a", a}, {"n", n}, {"r", int(std::lround(r))},
               {"near", std::fabs(r - std::round(r)) <= 1e-9 * std::fabs(r)}});
        }
}
}  // namespace

int main(int argc, char** argv)
{
    std::string mode = argc > 1 ? argv[1] : "";
    if (mode == "seq" && argc == 5)
        mode_seq(std::atoi(argv[2]), std::atoi(argv[3]), argv[4]);
    else if (mode == "rand" && argc == 7)
        mode_rand(std::strtoul(argv[2], nullptr, 10), std::atoi(argv[3]), std::atoi(argv[4]),
                  std::atoi(argv[5]), argv[6]);
    else if (mode == "misc" && argc == 3)
        mode_misc(argv[2]);
    else if (mode == "misc2" && argc == 4)
        mode_misc2(std::strtoul(argv[2], nullptr, 10), argv[3]);
    else if (mode == "grid" && argc == 5)
        mode_grid(std::strtoul(argv[2], nullptr, 10), std::atoi(argv[3]), argv[4]);
    else
    {
        std::cerr << "usage: valgo seq <maxlen> <alphabet> <out> | rand <seed> <n> <maxlen> "
                     "<alphabet> <out> | misc <out> | misc2 <seed> <out> | grid <seed> <n> <out>\n";
        return 2;
    }
    return 0;
}
