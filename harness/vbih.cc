// X03 harness: drive the REAL bounding-interval-hierarchy builder and traverser
// (orange/detail/BIHBuilder, BIHPartitioner, BIHTraverser) and their use in
// SimpleUnitTracker::initialize; log one ndjson record per step with arguments and results.
// The reference semantics live in spec/Bih.tla; this program computes NO expected values.
//
//   vbih replay <configs.ndjson> <out.ndjson> [batch]
//        configs: first line {"pts":[[x,y,z],...]}, then one {"boxes":[{"lo":[..],"hi":[..]},..]}
//        per line (written by TLC, spec/BihMC.tla, BihMC_gen.cfg).  `batch` configurations share one
//        BIHTreeData storage (as all units of a geometry do) and are all built before the first
//        traversal.  Every point is looked up with EVERY predicate "id in M", M a subset of the ids.
//   vbih rand <seed> <nconf> <maxboxes> <span> <out.ndjson>
//        seeded larger configurations in 3-D (inputs only; no expectations)
//   vbih unit <configs.ndjson> <out.ndjson>
//        each configuration becomes a real ORANGE unit (axis-aligned plane surfaces, one volume per
//        finite box + a background volume) and SimpleUnitTracker::initialize is called at every point
//
// All coordinates are logged in HALF lattice units as integers (x2 is exact for the lattice and
// half-lattice values used); +-infinity is +-1000000.
#include <cmath>
#include <cstdlib>
#include <exception>
#include <fstream>
#include <memory>
#include <random>
#include <string>
#include <vector>

#include "corecel/data/CollectionBuilder.hh"
#include "corecel/data/Ref.hh"
#include "geocel/BoundingBox.hh"
#include "orange/OrangeData.hh"
#include "orange/OrangeInput.hh"
#include "orange/OrangeParams.hh"
#include "orange/OrangeTypes.hh"
#include "orange/detail/BIHBuilder.hh"
#include "orange/detail/BIHData.hh"
#include "orange/detail/BIHTraverser.hh"
#include "orange/surf/PlaneAligned.hh"
#include "orange/univ/SimpleUnitTracker.hh"
#include "orange/univ/detail/Types.hh"

#include "vjson.hh"

using namespace celeritas;
using verif::json;
using celeritas::detail::BIHBuilder;
using celeritas::detail::BIHInnerNode;
using celeritas::detail::BIHLeafNode;
using celeritas::detail::BIHTraverser;
using celeritas::detail::BIHTree;

namespace
{
constexpr int INF = 1000000;
verif::NdjsonWriter* g_writer = nullptr;

[[noreturn]] void on_terminate()
{
    std::string what = "terminate";
    try
    {
        if (auto e = std::current_exception())
            std::rethrow_exception(e);
    }
    catch (std::exception const& e)
    {
        what = e.what();
    }
    catch (...)
    {
    }
    if (g_writer)
    {
        (*g_writer)({{"e", "Abort"}, {"what", what.substr(0, 400)}});
        g_writer->flush();
    }
    std::_Exit(4);
}

// half-unit integer encoding; *exact is cleared when the value is not representable
template<class T>
int enc(T v, bool* exact)
{
    if (std::isnan(v))
    {
        *exact = false;
        return 0;
    }
    if (std::isinf(v))
        return v > 0 ? INF : -INF;
    double d = 2 * static_cast<double>(v);
    if (d != std::nearbyint(d) || std::fabs(d) >= INF)
    {
        *exact = false;
        return 0;
    }
    return static_cast<int>(d);
}

template<class T>
T dec(int h)
{
    if (h >= INF)
        return std::numeric_limits<T>::infinity();
    if (h <= -INF)
        return -std::numeric_limits<T>::infinity();
    return static_cast<T>(h) / 2;
}

struct HBox
{
    int lo[3];
    int hi[3];
};
using Config = std::vector<HBox>;
using HPoint = std::array<int, 3>;

FastBBox to_bbox(HBox const& b)
{
    using R3 = FastBBox::Real3;
    return FastBBox::from_unchecked(
        R3{dec<fast_real_type>(b.lo[0]), dec<fast_real_type>(b.lo[1]), dec<fast_real_type>(b.lo[2])},
        R3{dec<fast_real_type>(b.hi[0]), dec<fast_real_type>(b.hi[1]), dec<fast_real_type>(b.hi[2])});
}

json box_json(FastBBox const& b, bool* exact)
{
    json lo = json::array(), hi = json::array();
    for (int a = 0; a < 3; ++a)
    {
        lo.push_back(enc(b.lower()[a], exact));
        hi.push_back(enc(b.upper()[a], exact));
    }
    return {{"lo", lo}, {"hi", hi}};
}

Config parse_config(json const& j)
{
    Config c;
    for (auto const& b : j.at("boxes"))
    {
        HBox h;
        for (int a = 0; a < 3; ++a)
        {
            h.lo[a] = b.at("lo").at(a).get<int>();
            h.hi[a] = b.at("hi").at(a).get<int>();
        }
        c.push_back(h);
    }
    return c;
}

using HostStorage = BIHTreeData<Ownership::value, MemSpace::host>;
using RefStorage = BIHTreeData<Ownership::const_reference, MemSpace::host>;

// Dump the tree exactly as stored (node ids as the traverser sees them: inner first)
json tree_record(BIHTree const& tree, RefStorage const& st, Config const& input, int k)
{
    bool exact = true;
    std::size_t const nboxes = input.size();
    json rec;
    rec["e"] = "Build";
    rec["k"] = k;
    {
        // the argument of the call (as converted to FastBBox)
        json in = json::array();
        for (auto const& b : input)
            in.push_back(box_json(to_bbox(b), &exact));
        rec["in"] = in;
    }
    json boxes = json::array();
    for (std::size_t v = 0; v < nboxes; ++v)
    {
        // what the tree itself stores for the volume (ItemMap volume -> bbox)
        boxes.push_back(box_json(st.bboxes[tree.bboxes[LocalVolumeId(v)]], &exact));
    }
    rec["boxes"] = boxes;
    rec["nboxes_stored"] = static_cast<int>(tree.bboxes.size());
    rec["ninner"] = static_cast<int>(tree.inner_nodes.size());
    json nodes = json::array();
    auto idx = [](BIHNodeId id) { return id ? static_cast<int>(id.unchecked_get()) : -1; };
    for (auto i : range(tree.inner_nodes.size()))
    {
        BIHInnerNode const& n = st.inner_nodes[tree.inner_nodes[i]];
        using Edge = BIHInnerNode::Edge;
        nodes.push_back({{"k", "i"},
                         {"parent", idx(n.parent)},
                         {"axis", static_cast<int>(to_int(n.axis))},
                         {"lpos", enc(n.bounding_planes[Edge::left].position, &exact)},
                         {"lchild", idx(n.bounding_planes[Edge::left].child)},
                         {"rpos", enc(n.bounding_planes[Edge::right].position, &exact)},
                         {"rchild", idx(n.bounding_planes[Edge::right].child)}});
    }
    for (auto i : range(tree.leaf_nodes.size()))
    {
        BIHLeafNode const& n = st.leaf_nodes[tree.leaf_nodes[i]];
        json vols = json::array();
        for (auto j : range(n.vol_ids.size()))
            vols.push_back(static_cast<int>(st.local_volume_ids[n.vol_ids[j]].unchecked_get()));
        nodes.push_back({{"k", "l"}, {"parent", idx(n.parent)}, {"vols", vols}});
    }
    rec["nodes"] = nodes;
    json inf = json::array();
    for (auto j : range(tree.inf_volids.size()))
        inf.push_back(static_cast<int>(st.local_volume_ids[tree.inf_volids[j]].unchecked_get()));
    rec["inf"] = inf;
    rec["valid"] = static_cast<bool>(tree);
    rec["exact"] = exact;
    return rec;
}

// One lookup with the predicate "id is in the set `mask`"; the calls of the predicate are recorded
json one_query(BIHTraverser const& traverse, Real3 const& pos, std::vector<int> const& accepted)
{
    std::vector<int> calls;
    auto pred = [&](LocalVolumeId id) -> bool {
        int v = id ? static_cast<int>(id.unchecked_get()) : -1;
        calls.push_back(v);
        for (int a : accepted)
            if (a == v)
                return true;
        return false;
    };
    LocalVolumeId r = traverse(pos, pred);
    return {{"m", accepted}, {"r", r ? static_cast<int>(r.unchecked_get()) : -1}, {"calls", calls}};
}

json find_record(BIHTree const& tree,
                 RefStorage const& st,
                 HPoint const& p,
                 std::vector<std::vector<int>> const& masks,
                 int k)
{
    BIHTraverser traverse(tree, st);
    Real3 pos{dec<real_type>(p[0]), dec<real_type>(p[1]), dec<real_type>(p[2])};
    json q = json::array();
    for (auto const& m : masks)
        q.push_back(one_query(traverse, pos, m));
    return {{"e", "Find"}, {"k", k}, {"p", {p[0], p[1], p[2]}}, {"q", q}};
}

std::vector<std::vector<int>> all_masks(int n)
{
    std::vector<std::vector<int>> r;
    for (unsigned m = 0; m < (1u << n); ++m)
    {
        std::vector<int> s;
        for (int v = 0; v < n; ++v)
            if (m & (1u << v))
                s.push_back(v);
        r.push_back(s);
    }
    return r;
}

// Build a batch of configurations into ONE storage, then log trees and lookups
void run_batch(std::vector<Config> const& confs,
               int first_k,
               std::vector<std::vector<HPoint>> const& pts,
               std::vector<std::vector<std::vector<int>>> const& masks,
               verif::NdjsonWriter& w)
{
    HostStorage storage;
    std::vector<BIHTree> trees;
    {
        BIHBuilder build(&storage);
        for (auto const& c : confs)
        {
            std::vector<FastBBox> bb;
            for (auto const& b : c)
                bb.push_back(to_bbox(b));
            trees.push_back(build(std::move(bb)));
        }
    }
    RefStorage ref;
    ref = storage;
    for (std::size_t i = 0; i < confs.size(); ++i)
    {
        int k = first_k + static_cast<int>(i);
        w(tree_record(trees[i], ref, confs[i], k));
        for (auto const& p : pts[i])
            w(find_record(trees[i], ref, p, masks[i], k));
    }
}

int mode_replay(std::string const& in, std::string const& out, int batch)
{
    std::ifstream f(in);
    if (!f)
    {
        std::cerr << "cannot open " << in << std::endl;
        return 3;
    }
    verif::NdjsonWriter w(out);
    g_writer = &w;
    std::string line;
    std::getline(f, line);
    std::vector<HPoint> pts;
    json const header = json::parse(line);
    for (auto const& p : header.at("pts"))
        pts.push_back({p.at(0).get<int>(), p.at(1).get<int>(), p.at(2).get<int>()});
    w({{"e", "Config"}, {"mode", "replay"}, {"npts", static_cast<int>(pts.size())}, {"batch", batch}});
    std::vector<Config> confs;
    int k = 0, first = 0;
    auto flush = [&] {
        if (confs.empty())
            return;
        std::vector<std::vector<HPoint>> pp(confs.size(), pts);
        std::vector<std::vector<std::vector<int>>> mm;
        for (auto const& c : confs)
            mm.push_back(all_masks(static_cast<int>(c.size())));
        run_batch(confs, first, pp, mm, w);
        confs.clear();
    };
    while (std::getline(f, line))
    {
        if (line.empty())
            continue;
        if (confs.empty())
            first = k;
        confs.push_back(parse_config(json::parse(line)));
        ++k;
        if (static_cast<int>(confs.size()) == batch)
            flush();
    }
    flush();
    w({{"e", "Close"}, {"n", k}});
    return 0;
}

int mode_rand(unsigned seed, int nconf, int maxboxes, int span, std::string const& out)
{
    verif::NdjsonWriter w(out);
    g_writer = &w;
    std::mt19937 rng(seed);
    auto ri = [&](int a, int b) { return std::uniform_int_distribution<int>(a, b)(rng); };
    w({{"e", "Config"}, {"mode", "rand"}, {"seed", static_cast<int>(seed)}, {"span", span}, {"batch", 8}});
    int k = 0;
    while (k < nconf)
    {
        std::vector<Config> confs;
        std::vector<std::vector<HPoint>> pts;
        std::vector<std::vector<std::vector<int>>> masks;
        for (int b = 0; b < 8 && k + static_cast<int>(confs.size()) < nconf; ++b)
        {
            int n = ri(1, maxboxes);
            int dims = ri(1, 3);  // axes that vary
            int style = ri(0, 5);
            Config c;
            for (int v = 0; v < n; ++v)
            {
                HBox h;
                int kind = ri(0, 19);
                for (int a = 0; a < 3; ++a)
                {
                    if (a >= dims)
                    {
                        h.lo[a] = 0;
                        h.hi[a] = 2 * span;
                        continue;
                    }
                    int lo = ri(0, span), hi = ri(0, span);
                    if (lo > hi)
                        std::swap(lo, hi);
                    if (style == 0)
                        hi = lo + ri(0, 1);  // thin / unit boxes: many equal centres
                    if (style == 1 && v > 0 && ri(0, 2) == 0)
                    {
                        // same centre as a previous box, different extent
                        HBox const& o = c[ri(0, v - 1)];
                        if (std::abs(o.lo[a]) < INF && std::abs(o.hi[a]) < INF && o.lo[a] <= o.hi[a])
                        {
                            // symmetric growth keeps the centre exactly
                            int hw = ri(0, span);
                            h.lo[a] = o.lo[a] - 2 * hw;
                            h.hi[a] = o.hi[a] + 2 * hw;
                            continue;
                        }
                    }
                    h.lo[a] = 2 * lo;
                    h.hi[a] = 2 * hi;
                }
                if (kind == 0)
                {
                    for (int a = 0; a < 3; ++a)
                    {
                        h.lo[a] = -INF;
                        h.hi[a] = INF;
                    }
                }
                else if (kind == 1 && style == 5)
                {
                    for (int a = 0; a < 3; ++a)
                    {
                        h.lo[a] = INF;
                        h.hi[a] = -INF;
                    }
                }
                else if (kind == 2 && v > 0)
                {
                    h = c[ri(0, v - 1)];  // identical to a previous box
                }
                c.push_back(h);
            }
            // query points: lattice and half-lattice values around the boxes
            std::vector<HPoint> pp;
            for (int i = 0; i < 24; ++i)
            {
                HPoint p;
                for (int a = 0; a < 3; ++a)
                    p[a] = (a < dims) ? ri(-1, 2 * span + 1) : ri(-1, 2 * span + 1);
                if (i % 3 == 0)
                {
                    // a point on faces / inside of one of the boxes
                    HBox const& o = c[ri(0, n - 1)];
                    for (int a = 0; a < 3; ++a)
                        if (std::abs(o.lo[a]) < INF && std::abs(o.hi[a]) < INF && o.lo[a] <= o.hi[a])
                            p[a] = (ri(0, 2) == 0) ? o.lo[a] : (ri(0, 1) ? o.hi[a] : ri(o.lo[a], o.hi[a]));
                }
                pp.push_back(p);
            }
            // predicates: none, all, each single, a few random subsets
            std::vector<std::vector<int>> mm;
            mm.push_back({});
            std::vector<int> all;
            for (int v = 0; v < n; ++v)
                all.push_back(v);
            mm.push_back(all);
            for (int v = 0; v < n; ++v)
                mm.push_back({v});
            for (int i = 0; i < 4; ++i)
            {
                std::vector<int> s;
                for (int v = 0; v < n; ++v)
                    if (ri(0, 2) == 0)
                        s.push_back(v);
                mm.push_back(s);
            }
            confs.push_back(c);
            pts.push_back(pp);
            masks.push_back(mm);
        }
        run_batch(confs, k, pts, masks, w);
        k += static_cast<int>(confs.size());
    }
    w({{"e", "Close"}, {"n", k}});
    return 0;
}

//---------------------------------------------------------------------------//
// SimpleUnitTracker::initialize on a real unit whose volumes are the boxes
//---------------------------------------------------------------------------//
int mode_unit(std::string const& in, std::string const& out)
{
    std::ifstream f(in);
    if (!f)
    {
        std::cerr << "cannot open " << in << std::endl;
        return 3;
    }
    verif::NdjsonWriter w(out);
    g_writer = &w;
    std::string line;
    std::getline(f, line);
    std::vector<HPoint> pts;
    json const header = json::parse(line);
    for (auto const& p : header.at("pts"))
        pts.push_back({p.at(0).get<int>(), p.at(1).get<int>(), p.at(2).get<int>()});
    w({{"e", "Config"}, {"mode", "unit"}, {"npts", static_cast<int>(pts.size())}, {"batch", 1}});
    int k = 0;
    while (std::getline(f, line))
    {
        if (line.empty())
            continue;
        Config c = parse_config(json::parse(line));
        // Surfaces: for every axis the sorted distinct finite coordinates used by the boxes
        UnitInput unit;
        unit.label = "x03";
        std::vector<std::vector<int>> coords(3);
        for (auto const& b : c)
            for (int a = 0; a < 3; ++a)
                for (int h : {b.lo[a], b.hi[a]})
                    if (std::abs(h) < INF)
                        coords[a].push_back(h);
        std::vector<std::map<int, int>> surf_of(3);
        for (int a = 0; a < 3; ++a)
        {
            std::sort(coords[a].begin(), coords[a].end());
            coords[a].erase(std::unique(coords[a].begin(), coords[a].end()), coords[a].end());
            for (int h : coords[a])
            {
                surf_of[a][h] = static_cast<int>(unit.surfaces.size());
                real_type pos = dec<real_type>(h);
                if (a == 0)
                    unit.surfaces.push_back(PlaneX{pos});
                else if (a == 1)
                    unit.surfaces.push_back(PlaneY{pos});
                else
                    unit.surfaces.push_back(PlaneZ{pos});
            }
        }
        // Volume 0: exterior placeholder with infinite bbox (never "inside": logic = false) is
        // NOT used; instead every box v becomes volume v, and a final background volume
        // (null bbox, implicit) catches everything else, as UnitProto builds it.
        json vols = json::array();
        bool usable = true;
        for (auto const& b : c)
        {
            VolumeInput v;
            bool isnull = false;
            for (int a = 0; a < 3; ++a)
                isnull = isnull || b.lo[a] > b.hi[a];
            if (isnull)
            {
                usable = false;
                break;
            }
            std::vector<logic_int> logic;
            std::vector<LocalSurfaceId> faces;
            // faces must be sorted by surface id; build (surface, sense) list
            std::vector<std::pair<int, bool>> fs;  // surface id, inside sense (true = positive side)
            for (int a = 0; a < 3; ++a)
            {
                if (std::abs(b.lo[a]) < INF)
                    fs.push_back({surf_of[a][b.lo[a]], true});
                if (std::abs(b.hi[a]) < INF && !(b.hi[a] == b.lo[a]))
                    fs.push_back({surf_of[a][b.hi[a]], false});
                if (b.hi[a] == b.lo[a])
                    usable = false;  // zero-thickness region: no interior, skip in unit mode
            }
            std::sort(fs.begin(), fs.end());
            if (fs.empty())
            {
                logic = {logic::ltrue};
            }
            for (std::size_t i = 0; i < fs.size(); ++i)
            {
                faces.push_back(LocalSurfaceId(fs[i].first));
                logic.push_back(static_cast<logic_int>(i));
                if (!fs[i].second)
                    logic.push_back(logic::lnot);
                if (i > 0)
                    logic.push_back(logic::land);
            }
            v.faces = faces;
            v.logic = logic;
            BBox::Real3 lo, hi;
            for (int a = 0; a < 3; ++a)
            {
                lo[a] = dec<real_type>(b.lo[a]);
                hi[a] = dec<real_type>(b.hi[a]);
            }
            v.bbox = BBox::from_unchecked(lo, hi);
            v.zorder = ZOrder::media;
            v.label = "v" + std::to_string(unit.volumes.size());
            unit.volumes.push_back(v);
        }
        if (!usable || c.empty())
        {
            // null or zero-thickness boxes have no interior: not a unit
            w({{"e", "Unit"}, {"k", k}, {"skip", true}});
            ++k;
            continue;
        }
        {
            // background volume
            VolumeInput bg;
            bg.logic = {logic::ltrue, logic::lnot};
            bg.bbox = {};  // null
            bg.zorder = ZOrder::background;
            bg.flags = VolumeRecord::implicit_vol;
            bg.label = "bg";
            unit.volumes.push_back(bg);
        }
        unit.bbox = BBox::from_infinite();
        OrangeInput inp;
        inp.universes.push_back(std::move(unit));
        inp.tol = Tolerance<>::from_default();
        json rec;
        rec["e"] = "Unit";
        rec["k"] = k;
        {
            bool exact = true;
            json boxes = json::array();
            for (auto const& b : c)
                boxes.push_back(box_json(to_bbox(b), &exact));
            rec["boxes"] = boxes;
        }
        std::unique_ptr<OrangeParams> params;
        try
        {
            params = std::make_unique<OrangeParams>(std::move(inp));
        }
        catch (std::exception const& e)
        {
            rec["error"] = std::string(e.what()).substr(0, 300);
            w(rec);
            ++k;
            continue;
        }
        auto const& host = params->host_ref();
        int nvol = static_cast<int>(c.size()) + 1;
        rec["bg"] = nvol - 1;
        json inits = json::array();
        std::vector<Sense> senses(host.scalars.max_faces + 1);
        for (auto const& p : pts)
        {
            SimpleUnitTracker tracker(host, SimpleUnitId{0});
            celeritas::detail::LocalState st;
            st.pos = Real3{dec<real_type>(p[0]), dec<real_type>(p[1]), dec<real_type>(p[2])};
            st.dir = Real3{0, 0, 1};
            st.volume = {};
            st.surface = {};
            st.temp_sense = make_span(senses);
            auto init = tracker.initialize(st);
            inits.push_back({{"p", {p[0], p[1], p[2]}},
                             {"vol", init.volume ? static_cast<int>(init.volume.unchecked_get()) : -1},
                             {"surf", static_cast<bool>(init.surface)}});
        }
        rec["init"] = inits;
        w(rec);
        ++k;
    }
    w({{"e", "Close"}, {"n", k}});
    return 0;
}
}  // namespace

int main(int argc, char** argv)
{
    std::set_terminate(on_terminate);
    std::string mode = argc > 1 ? argv[1] : "";
    if (mode == "replay" && argc >= 4)
        return mode_replay(argv[2], argv[3], argc > 4 ? std::atoi(argv[4]) : 16);
    if (mode == "rand" && argc >= 7)
        return mode_rand(std::strtoul(argv[2], nullptr, 10), std::atoi(argv[3]), std::atoi(argv[4]),
                         std::atoi(argv[5]), argv[6]);
    if (mode == "unit" && argc >= 4)
        return mode_unit(argv[2], argv[3]);
    std::cerr << "usage: vbih replay <configs> <out> [batch] | rand <seed> <nconf> <maxboxes> <span> <out>"
                 " | unit <configs> <out>"
              << std::endl;
    return 3;
}
