// X06 harness: drives the REAL bounding-box / bounding-zone code used during ORANGE unit
// construction and logs ndjson: arguments and results only.  It computes NO expected values;
// expectations live in spec/BoundZone.tla / spec/BoundZoneTrace.tla.
//
//   geocel/BoundingBox.hh            BoundingBox (bool, shrink, grow, ==), is_inside
//   orange/BoundingBoxUtils.hh       is_infinite, is_finite, is_degenerate, calc_center,
//                                    calc_half_widths, calc_volume, calc_surface_area, calc_union,
//                                    calc_intersection, encloses, BoundingBoxBumper
//   orange/orangeinp/detail/BoundingZone.hh   BoundingZone::negate / from_infinite,
//                                    calc_intersection, calc_union, get_exterior_bbox
//   orange/surf/SurfaceClipper.hh, orange/orangeinp/detail/NegatedSurfaceClipper.hh
//   orange/orangeinp/{UnitProto, CsgObject, Shape}, InputBuilder, OrangeParams, OrangeTrackView
//                                    (mode unit: the per-volume bbox as built + real point location)
//
//   vboundzone pairs  <in.ndjson> <out.ndjson> <scale_exp> <offset> <first> <count> [rowsonly]
//   vboundzone chains <in.ndjson> <out.ndjson> <scale_exp> <offset>
//   vboundzone clips  <in.ndjson> <out.ndjson> <scale_exp> <offset>
//   vboundzone rand   <seed> <count> <ncoord> <out.ndjson> <scale_exp> <offset>
//   vboundzone unit   <in.ndjson> <out.ndjson> <scale_exp> <offset>
//
// Inputs are written by TLC (spec/BoundZoneMC.tla, GenSpec): the first record carries the lattice
// points ("pts") and the boxes / zones / leaves, the following ones the scenarios.  A lattice
// coordinate k (an integer; +-1000000 stand for +-infinity) becomes the double (k + offset) *
// 2^scale_exp, exactly; results are mapped back the same way and the flag "exact" is cleared
// if a face of a result is not a lattice coordinate (an input-sanity fact, not an expectation).
// Membership of lattice points in result boxes is asked of the REAL is_inside.
//
// Records: Config, Box, BoxRow, Mut, Zone, ZoneRow, Chain, Clip, Pair, Unit, Close; Abort on a crash.
#include <cmath>
#include <cstdint>
#include <cstdlib>
#include <exception>
#include <fstream>
#include <iostream>
#include <memory>
#include <random>
#include <string>
#include <variant>
#include <vector>

#include "corecel/cont/Array.hh"
#include "corecel/io/Label.hh"
#include "corecel/sys/ThreadId.hh"
#include "geocel/BoundingBox.hh"
#include "geocel/Types.hh"
#include "orange/BoundingBoxUtils.hh"
#include "orange/OrangeData.hh"
#include "orange/OrangeInput.hh"
#include "orange/OrangeParams.hh"
#include "orange/OrangeTrackView.hh"
#include "orange/OrangeTypes.hh"
#include "orange/orangeinp/CsgObject.hh"
#include "orange/orangeinp/InputBuilder.hh"
#include "orange/orangeinp/IntersectRegion.hh"
#include "orange/orangeinp/Shape.hh"
#include "orange/orangeinp/Transformed.hh"
#include "orange/orangeinp/UnitProto.hh"
#include "orange/orangeinp/detail/BoundingZone.hh"
#include "orange/orangeinp/detail/CsgUnit.hh"
#include "orange/orangeinp/detail/NegatedSurfaceClipper.hh"
#include "orange/surf/ConeAligned.hh"
#include "orange/surf/CylAligned.hh"
#include "orange/surf/Plane.hh"
#include "orange/surf/PlaneAligned.hh"
#include "orange/surf/Sphere.hh"
#include "orange/surf/SurfaceClipper.hh"
#include "orange/surf/VariantSurface.hh"
#include "orange/transform/Translation.hh"

#include "vjson.hh"

using namespace celeritas;
namespace oi = celeritas::orangeinp;
using oi::detail::BoundingZone;
using verif::json;

namespace
{
verif::NdjsonWriter* g_writer = nullptr;

[[noreturn]] void on_terminate()
{
    std::string what = "terminate";
    try
    {
        if (auto e = std::current_exception())
            std::rethrow_exception(e);
    }
    catch (std::exception const& e)
    {
        what = e.what();
    }
    catch (...)
    {
    }
    for (char& c : what)
        if (c == '"' || c == '\\' || c == '\n' || c == '\r' || c == '\t' || static_cast<unsigned char>(c) > 126)
            c = ' ';
    if (g_writer)
    {
        (*g_writer)({{"e", "Abort"}, {"what", what.substr(0, 400)}});
        g_writer->flush();
    }
    std::_Exit(4);
}

constexpr int INF_K = 1000000;
constexpr int NAN_K = 2000000;
constexpr double inf = std::numeric_limits<double>::infinity();

//! Exact affine map between lattice coordinates and doubles
struct Lattice
{
    double s{0.5};
    int off{0};
    bool exact{true};

    double pos(int k) const
    {
        if (k >= INF_K)
            return inf;
        if (k <= -INF_K)
            return -inf;
        return (static_cast<double>(k) + off) * s;
    }
    double len(int k) const { return static_cast<double>(k) * s; }
    // extended number -> lattice image, v already divided by the unit
    int image(double r)
    {
        if (std::isnan(r))
            return NAN_K;
        if (std::isinf(r))
            return r > 0 ? INF_K : -INF_K;
        double k = std::nearbyint(r);
        if (k != r || std::fabs(k) >= INF_K)
        {
            exact = false;
            return NAN_K + 1;
        }
        return static_cast<int>(k);
    }
    int coord(double v) { return std::isfinite(v) ? image(v / s - off) : image(v); }
    Real3 point(json const& p) const
    {
        return {pos(p.at(0).get<int>()), pos(p.at(1).get<int>()), pos(p.at(2).get<int>())};
    }
};

Lattice g_lat;
std::vector<Real3> g_pts;

BBox to_box(json const& j)
{
    Real3 lo, hi;
    for (int a = 0; a < 3; ++a)
    {
        lo[a] = g_lat.pos(j.at("lo").at(a).get<int>());
        hi[a] = g_lat.pos(j.at("hi").at(a).get<int>());
    }
    return BBox::from_unchecked(lo, hi);
}

template<class T>
json from_box(BoundingBox<T> const& b)
{
    json lo = json::array(), hi = json::array();
    for (int a = 0; a < 3; ++a)
    {
        lo.push_back(g_lat.coord(b.lower()[a]));
        hi.push_back(g_lat.coord(b.upper()[a]));
    }
    return {{"lo", lo}, {"hi", hi}};
}

BoundingZone to_zone(json const& j)
{
    BoundingZone z;
    z.interior = to_box(j.at("int"));
    z.exterior = to_box(j.at("ext"));
    z.negated = j.at("neg").get<bool>();
    return z;
}

json from_zone(BoundingZone const& z)
{
    return {{"int", from_box(z.interior)}, {"ext", from_box(z.exterior)}, {"neg", z.negated}};
}

//! Indices (1-based, as TLC counts) of the lattice points the REAL is_inside accepts
template<class T>
json inside_points(BoundingBox<T> const& b)
{
    json r = json::array();
    for (std::size_t i = 0; i < g_pts.size(); ++i)
    {
        if (is_inside(b, g_pts[i]))
            r.push_back(static_cast<int>(i + 1));
    }
    return r;
}

void read_points(json const& header)
{
    g_pts.clear();
    for (auto const& p : header.at("pts"))
        g_pts.push_back(g_lat.point(p));
}

int cmp(double a, double b)
{
    if (std::isnan(a) || std::isnan(b))
        return 2;
    return a < b ? -1 : (a > b ? 1 : 0);
}

template<class T>
json bump_record(BBox const& b, Tolerance<double> const& tol)
{
    BoundingBoxBumper<T, double> bump{tol};
    BoundingBox<T> r = bump(b);
    json lo = json::array(), hi = json::array();
    for (int a = 0; a < 3; ++a)
    {
        lo.push_back(cmp(static_cast<double>(r.lower()[a]), b.lower()[a]));
        hi.push_back(cmp(static_cast<double>(r.upper()[a]), b.upper()[a]));
    }
    json rec = {{"lo_cmp", lo}, {"hi_cmp", hi}, {"bool", static_cast<bool>(r)}, {"pts", inside_points(r)}};
    if constexpr (std::is_same_v<T, double>)
    {
        if (b)
            rec["enc"] = encloses(r, b);
    }
    return rec;
}

Axis to_axis(int a)
{
    return a == 1 ? Axis::x : a == 2 ? Axis::y : Axis::z;
}

//---------------------------------------------------------------------------//
// pairs: every box, every pair of boxes, every zone, every pair of zones
//---------------------------------------------------------------------------//
void mode_pairs(json const& header, verif::NdjsonWriter& w, std::size_t first, std::size_t count, bool rows_only)
{
    std::vector<BBox> boxes;
    for (auto const& b : header.at("boxes"))
        boxes.push_back(to_box(b));
    std::vector<BoundingZone> zones;
    for (auto const& z : header.at("zones"))
        zones.push_back(to_zone(z));
    std::vector<int> mutpos = header.at("mutpos").get<std::vector<int>>();
    int dims = header.at("dims").get<int>();
    auto tol = Tolerance<double>::from_default();

    if (!rows_only)
    {
        for (std::size_t i = 0; i < boxes.size(); ++i)
        {
            BBox const& b = boxes[i];
            json rec = {{"e", "Box"},
                        {"k", static_cast<int>(i + 1)},
                        {"bool", static_cast<bool>(b)},
                        {"pts", inside_points(b)},
                        {"inf", is_infinite(b)},
                        {"eqnull", b == BBox{}},
                        {"eqinf", b == BBox::from_infinite()}};
            if (b)
            {
                rec["fin"] = is_finite(b);
                rec["deg"] = is_degenerate(b);
                auto c = calc_center(b);
                auto hw = calc_half_widths(b);
                json c2 = json::array(), w2 = json::array();
                for (int a = 0; a < 3; ++a)
                {
                    // twice the centre, relative to the lattice origin, in lattice units
                    c2.push_back(std::isfinite(c[a]) ? g_lat.image(2 * (c[a] / g_lat.s - g_lat.off))
                                                     : g_lat.image(c[a]));
                    w2.push_back(g_lat.image(2 * hw[a] / g_lat.s));
                }
                rec["c2"] = c2;
                rec["w2"] = w2;
                rec["vol"] = g_lat.image(calc_volume(b) / (g_lat.s * g_lat.s * g_lat.s));
                rec["harea"] = g_lat.image(calc_surface_area(b) / (2 * g_lat.s * g_lat.s));
            }
            rec["bumpd"] = bump_record<double>(b, tol);
            rec["bumpf"] = bump_record<float>(b, tol);
            rec["exact"] = g_lat.exact;
            w(rec);

            json un = json::array(), is = json::array(), enc = json::array(), eq = json::array();
            for (std::size_t j = 0; j < boxes.size(); ++j)
            {
                un.push_back(from_box(calc_union(b, boxes[j])));
                is.push_back(from_box(calc_intersection(b, boxes[j])));
                // comparing two null boxes is forbidden: logged as 2 and skipped by the spec
                if (b || boxes[j])
                    enc.push_back(encloses(b, boxes[j]) ? 1 : 0);
                else
                    enc.push_back(2);
                eq.push_back(b == boxes[j]);
            }
            w({{"e", "BoxRow"},
               {"k", static_cast<int>(i + 1)},
               {"un", un},
               {"is", is},
               {"enc", enc},
               {"eq", eq},
               {"exact", g_lat.exact}});

            json ops = json::array();
            for (int ax = 1; ax <= dims; ++ax)
            {
                for (int q : mutpos)
                {
                    for (char const* bnd : {"lo", "hi"})
                    {
                        Bound bd = std::string(bnd) == "lo" ? Bound::lo : Bound::hi;
                        BBox s = b;
                        s.shrink(bd, to_axis(ax), g_lat.pos(q));
                        ops.push_back({{"f", "shrink"}, {"bnd", bnd}, {"ax", ax}, {"pos", q}, {"r", from_box(s)}});
                        BBox g = b;
                        g.grow(bd, to_axis(ax), g_lat.pos(q));
                        ops.push_back({{"f", "grow"}, {"bnd", bnd}, {"ax", ax}, {"pos", q}, {"r", from_box(g)}});
                    }
                    BBox g2 = b;
                    g2.grow(to_axis(ax), g_lat.pos(q));
                    ops.push_back({{"f", "grow2"}, {"bnd", "both"}, {"ax", ax}, {"pos", q}, {"r", from_box(g2)}});
                }
            }
            w({{"e", "Mut"}, {"k", static_cast<int>(i + 1)}, {"ops", ops}, {"exact", g_lat.exact}});
        }
        {
            json rec = {{"e", "Special"},
                        {"from_infinite", from_zone(BoundingZone::from_infinite())},
                        {"default", from_zone(BoundingZone{})},
                        {"nullbox", from_box(BBox{})},
                        {"infbox", from_box(BBox::from_infinite())}};
            w(rec);
        }
        for (std::size_t i = 0; i < zones.size(); ++i)
        {
            BoundingZone n = zones[i];
            n.negate();
            BoundingZone nn = n;
            nn.negate();
            w({{"e", "Zone"},
               {"k", static_cast<int>(i + 1)},
               {"neg", from_zone(n)},
               {"negneg", from_zone(nn)},
               {"bbox", from_box(get_exterior_bbox(zones[i]))},
               {"exact", g_lat.exact}});
        }
    }
    std::size_t last = std::min(zones.size(), first + count);
    for (std::size_t i = first; i < last; ++i)
    {
        json a = json::array(), o = json::array();
        for (std::size_t j = 0; j < zones.size(); ++j)
        {
            a.push_back(from_zone(calc_intersection(zones[i], zones[j])));
            o.push_back(from_zone(calc_union(zones[i], zones[j])));
        }
        w({{"e", "ZoneRow"}, {"k", static_cast<int>(i + 1)}, {"and", a}, {"or", o}, {"exact", g_lat.exact}});
    }
}

//---------------------------------------------------------------------------//
// chains: VolumeBuilder's folds
//---------------------------------------------------------------------------//
void mode_chains(std::ifstream& in, json const& header, verif::NdjsonWriter& w)
{
    std::vector<BoundingZone> leaves;
    for (auto const& l : header.at("leaves"))
        leaves.push_back(to_zone(l.at("z")));
    std::string line;
    int k = 0;
    while (std::getline(in, line))
    {
        if (line.empty())
            continue;
        json c = json::parse(line);
        BoundingZone cur;
        if (c.at("start").get<std::string>() == "inf")
            cur = BoundingZone::from_infinite();
        json zs = json::array({from_zone(cur)});
        for (auto const& m : c.at("moves"))
        {
            std::string op = m.at("op").get<std::string>();
            if (op == "not")
            {
                cur.negate();
            }
            else
            {
                BoundingZone o = leaves.at(m.at("leaf").get<std::size_t>() - 1);
                if (m.at("neg").get<bool>())
                    o.negate();
                cur = (op == "and") ? calc_intersection(cur, o) : calc_union(cur, o);
            }
            zs.push_back(from_zone(cur));
        }
        BBox bb = get_exterior_bbox(cur);
        w({{"e", "Chain"},
           {"k", ++k},
           {"start", c.at("start")},
           {"moves", c.at("moves")},
           {"zs", zs},
           {"bbox", from_box(bb)},
           {"exact", g_lat.exact}});
    }
}

//---------------------------------------------------------------------------//
// clips: SurfaceClipper / NegatedSurfaceClipper from the infinite zone
//---------------------------------------------------------------------------//
VariantSurface make_surface(json const& s)
{
    std::string t = s.at("t").get<std::string>();
    if (t == "p")
    {
        double q = g_lat.pos(s.at("pos").get<int>());
        switch (s.at("ax").get<int>())
        {
            case 1:
                return PlaneAligned<Axis::x>{q};
            case 2:
                return PlaneAligned<Axis::y>{q};
            default:
                return PlaneAligned<Axis::z>{q};
        }
    }
    if (t == "s")
        return Sphere{g_lat.point(s.at("c")), g_lat.len(s.at("r").get<int>())};
    if (t == "c")
    {
        Real3 c = g_lat.point(s.at("c"));
        double r = g_lat.len(s.at("r").get<int>());
        switch (s.at("ax").get<int>())
        {
            case 1:
                return CylAligned<Axis::x>{c, r};
            case 2:
                return CylAligned<Axis::y>{c, r};
            default:
                return CylAligned<Axis::z>{c, r};
        }
    }
    // "other": a plane that is not axis aligned
    return Plane{Real3{0.6, 0.8, 0.0}, g_lat.pos(1)};
}

void mode_clips(std::ifstream& in, verif::NdjsonWriter& w)
{
    std::string line;
    int k = 0;
    while (std::getline(in, line))
    {
        if (line.empty())
            continue;
        json c = json::parse(line);
        BoundingZone z = BoundingZone::from_infinite();
        json steps = json::array();
        for (auto const& m : c.at("clips"))
        {
            VariantSurface surf = make_surface(m.at("s"));
            if (m.at("sense").get<std::string>() == "in")
            {
                SurfaceClipper clip{&z.interior, &z.exterior};
                clip(surf);
            }
            else
            {
                oi::detail::NegatedSurfaceClipper clip{&z};
                std::visit(clip, surf);
            }
            steps.push_back({{"i", inside_points(z.interior)},
                             {"x", inside_points(z.exterior)},
                             {"ibool", static_cast<bool>(z.interior)},
                             {"xbool", static_cast<bool>(z.exterior)},
                             {"neg", z.negated}});
        }
        w({{"e", "Clip"}, {"k", ++k}, {"clips", c.at("clips")}, {"steps", steps}});
    }
}

//---------------------------------------------------------------------------//
// rand: seeded pairs of zones on a 3-D lattice (inputs only; TLC decides)
//---------------------------------------------------------------------------//
void mode_rand(unsigned seed, int count, int ncoord, verif::NdjsonWriter& w)
{
    std::mt19937 rng(seed);
    json pts = json::array();
    for (int x = -1; x <= ncoord; ++x)
        for (int y = -1; y <= ncoord; ++y)
            for (int zz = -1; zz <= ncoord; ++zz)
                pts.push_back({x, y, zz});
    json header = {{"pts", pts}};
    read_points(header);
    w({{"e", "Config"}, {"mode", "rand"}, {"pts", pts}, {"scale", g_lat.s}, {"off", g_lat.off}, {"first", 0},
       {"count", count}});

    auto face = [&](bool lower) {
        int u = std::uniform_int_distribution<int>(0, 9)(rng);
        if (u == 0)
            return lower ? -INF_K : INF_K;
        return std::uniform_int_distribution<int>(0, ncoord - 1)(rng);
    };
    auto box = [&]() -> json {
        int u = std::uniform_int_distribution<int>(0, 11)(rng);
        json lo = json::array(), hi = json::array();
        if (u == 0)
            return {{"lo", {INF_K, INF_K, INF_K}}, {"hi", {-INF_K, -INF_K, -INF_K}}};
        if (u == 1)
            return {{"lo", {-INF_K, -INF_K, -INF_K}}, {"hi", {INF_K, INF_K, INF_K}}};
        for (int a = 0; a < 3; ++a)
        {
            int l = face(true), h = face(false);
            if (l > h && u != 2)  // u == 2: keep a possibly non-canonical null box
                std::swap(l, h);
            lo.push_back(l);
            hi.push_back(h);
        }
        return {{"lo", lo}, {"hi", hi}};
    };
    auto zone = [&]() -> json {
        // interior inside the exterior: intersect a random box with the exterior (real code is
        // not consulted: component-wise clamp of the inputs)
        json x = box();
        json i = box();
        int u = std::uniform_int_distribution<int>(0, 5)(rng);
        if (u == 0)
            i = x;
        else if (u == 1)
            i = {{"lo", {INF_K, INF_K, INF_K}}, {"hi", {-INF_K, -INF_K, -INF_K}}};
        else
            for (int a = 0; a < 3; ++a)
            {
                i["lo"][a] = std::max(i["lo"][a].get<int>(), x["lo"][a].get<int>());
                i["hi"][a] = std::min(i["hi"][a].get<int>(), x["hi"][a].get<int>());
            }
        return {{"int", i}, {"ext", x}, {"neg", std::uniform_int_distribution<int>(0, 1)(rng) == 1}};
    };
    for (int k = 1; k <= count; ++k)
    {
        json a = zone(), b = zone();
        BoundingZone za = to_zone(a), zb = to_zone(b);
        w({{"e", "Pair"},
           {"k", k},
           {"a", a},
           {"b", b},
           {"and", from_zone(calc_intersection(za, zb))},
           {"or", from_zone(calc_union(za, zb))},
           {"exact", g_lat.exact}});
    }
    w({{"e", "Close"}, {"n", count}});
}

//---------------------------------------------------------------------------//
// unit: object trees through the real construction path
//   tree: {"k":"box","lo":[..],"hi":[..]} | {"k":"sph","c":[..],"r":n} | {"k":"and"|"or","c":[trees]}
//         | {"k":"not","c":tree}
//---------------------------------------------------------------------------//
struct ObjBuilder
{
    int counter{0};
    std::string fresh() { return "o" + std::to_string(++counter); }

    std::shared_ptr<oi::ObjectInterface const> operator()(json const& t)
    {
        std::string k = t.at("k").get<std::string>();
        if (k == "box")
        {
            Real3 lo, hi, hw, c;
            for (int a = 0; a < 3; ++a)
            {
                lo[a] = g_lat.pos(t.at("lo").at(a).get<int>());
                hi[a] = g_lat.pos(t.at("hi").at(a).get<int>());
                hw[a] = (hi[a] - lo[a]) / 2;
                c[a] = (hi[a] + lo[a]) / 2;
            }
            auto shape = std::make_shared<oi::BoxShape>(fresh(), oi::Box{hw});
            return std::make_shared<oi::Transformed>(shape, Translation{c});
        }
        if (k == "sph")
        {
            auto shape = std::make_shared<oi::SphereShape>(fresh(), oi::Sphere{g_lat.len(t.at("r").get<int>())});
            return std::make_shared<oi::Transformed>(shape, Translation{g_lat.point(t.at("c"))});
        }
        if (k == "not")
            return std::make_shared<oi::NegatedObject>(fresh(), (*this)(t.at("c").at(0)));
        std::vector<std::shared_ptr<oi::ObjectInterface const>> kids;
        for (auto const& c : t.at("c"))
            kids.push_back((*this)(c));
        if (k == "and")
            return std::make_shared<oi::AllObjects>(fresh(), std::move(kids));
        return std::make_shared<oi::AnyObjects>(fresh(), std::move(kids));
    }
};

void mode_unit(std::ifstream& in, json const& header, verif::NdjsonWriter& w)
{
    std::string line;
    int k = 0;
    json const& bnd = header.at("boundary");
    while (std::getline(in, line))
    {
        if (line.empty())
            continue;
        json c = json::parse(line);
        json rec = {{"e", "Unit"}, {"k", ++k}, {"vols", c.at("vols")}};
        try
        {
            ObjBuilder build;
            oi::UnitProto::Input inp;
            inp.label = "u";
            inp.boundary.interior = build(bnd);
            inp.boundary.zorder = ZOrder::media;
            inp.background.fill = GeoMaterialId{99};
            inp.background.label = Label{"bg"};
            GeoMaterialId::size_type mat = 0;
            for (auto const& v : c.at("vols"))
            {
                oi::UnitProto::MaterialInput mi;
                mi.interior = build(v);
                mi.fill = GeoMaterialId{mat};
                mi.label = Label{"v" + std::to_string(mat)};
                ++mat;
                inp.materials.push_back(std::move(mi));
            }
            auto proto = std::make_shared<oi::UnitProto>(std::move(inp));
            oi::InputBuilder::Options opts;
            opts.tol = Tolerance<>::from_default();
            oi::InputBuilder make_input{std::move(opts)};
            OrangeInput oinp = make_input(*proto);
            if (!oinp.tol)
                oinp.tol = Tolerance<>::from_default();
            auto const& unit = std::get<UnitInput>(oinp.universes.at(0));
            // per volume (by label v<i>): the bbox handed to the BIH and the zone's boxes
            json vols = json::array();
            for (std::size_t m = 0; m < c.at("vols").size(); ++m)
            {
                std::string want = "v" + std::to_string(m);
                json vr = {{"label", want}, {"found", false}};
                for (std::size_t vi = 0; vi < unit.volumes.size(); ++vi)
                {
                    if (unit.volumes[vi].label.name == want)
                    {
                        auto const& vol = unit.volumes[vi];
                        vr["found"] = true;
                        vr["bbox_pts"] = inside_points(vol.bbox);
                        vr["bbox_bool"] = static_cast<bool>(vol.bbox);
                        vr["inner_pts"] = inside_points(vol.obz.inner);
                        vr["outer_pts"] = inside_points(vol.obz.outer);
                    }
                }
                vols.push_back(vr);
            }
            rec["built"] = vols;
            // real point location at every lattice point
            auto params = std::make_shared<OrangeParams>(std::move(oinp));
            auto const& host = params->host_ref();
            HostVal<OrangeStateData> state_val;
            resize(&state_val, host, 1);
            HostRef<OrangeStateData> state_ref;
            state_ref = state_val;
            OrangeTrackView view(host, state_ref, TrackSlotId{0});
            json loc = json::array();
            for (auto const& p : g_pts)
            {
                std::string lab = "!none";
                try
                {
                    view = GeoTrackInitializer{p, Real3{0, 0, 1}};
                    VolumeId v = view.volume_id();
                    if (v && v.get() < params->volumes().size())
                        lab = params->volumes().at(v).name;
                }
                catch (std::exception const&)
                {
                    lab = "!error";
                }
                loc.push_back(lab);
            }
            rec["loc"] = loc;
        }
        catch (std::exception const& e)
        {
            std::string what = e.what();
            for (char& ch : what)
                if (ch == '"' || ch == '\\' || ch == '\n' || ch == '\r' || ch == '\t'
                    || static_cast<unsigned char>(ch) > 126)
                    ch = ' ';
            rec["error"] = what.substr(0, 300);
        }
        w(rec);
    }
}

}  // namespace

int main(int argc, char** argv)
{
    std::set_terminate(on_terminate);
    if (argc < 2)
    {
        std::cerr << "usage: vboundzone pairs|chains|clips|rand|unit ..." << std::endl;
        return 3;
    }
    std::string mode = argv[1];
    if (mode == "rand")
    {
        if (argc < 8)
            return 3;
        g_lat.s = std::ldexp(1.0, std::atoi(argv[6]));
        g_lat.off = std::atoi(argv[7]);
        verif::NdjsonWriter w(argv[5]);
        g_writer = &w;
        mode_rand(static_cast<unsigned>(std::strtoul(argv[2], nullptr, 10)), std::atoi(argv[3]), std::atoi(argv[4]), w);
        w.flush();
        return 0;
    }
    if (argc < 6)
        return 3;
    std::ifstream in(argv[2]);
    if (!in)
    {
        std::cerr << "cannot open " << argv[2] << std::endl;
        return 3;
    }
    g_lat.s = std::ldexp(1.0, std::atoi(argv[4]));
    g_lat.off = std::atoi(argv[5]);
    verif::NdjsonWriter w(argv[3]);
    g_writer = &w;
    std::string line;
    std::getline(in, line);
    json header = json::parse(line);
    read_points(header);
    std::size_t first = argc > 6 ? std::strtoul(argv[6], nullptr, 10) : 0;
    std::size_t count = argc > 7 ? std::strtoul(argv[7], nullptr, 10) : static_cast<std::size_t>(-1) / 2;
    json cfg = header;
    cfg["e"] = "Config";
    cfg["mode"] = mode;
    cfg["scale"] = g_lat.s;
    cfg["off"] = g_lat.off;
    cfg["first"] = static_cast<int>(first);
    w(cfg);
    int n = 0;
    if (mode == "pairs")
    {
        mode_pairs(header, w, first, count, argc > 8 && std::string(argv[8]) == "rowsonly");
    }
    else if (mode == "chains")
    {
        mode_chains(in, header, w);
    }
    else if (mode == "clips")
    {
        mode_clips(in, w);
    }
    else if (mode == "unit")
    {
        mode_unit(in, header, w);
    }
    else
    {
        std::cerr << "unknown mode " << mode << std::endl;
        return 3;
    }
    n = static_cast<int>(w.count()) - 1;
    w({{"e", "Close"}, {"n", n}});
    w.flush();
    return 0;
}
