// C09 / C19 harness.
//
//   vbuild probe <scenes.ndjson> <out.ndjson>
//       Builds every scene (tools/solids.py; meaning: spec/Solids.tla) through the PUBLIC
//       orangeinp construction API (Shape / Solid / PolyCone / PolyPrism / Transformed /
//       AnyObjects / AllObjects / NegatedObject / make_subtraction / make_rdv, UnitProto,
//       InputBuilder) into OrangeInput -> OrangeParams, initialises a host track view at every
//       lattice probe point and logs the reported volume label.  No expected value is computed
//       here: spec/SolidsTrace.tla decides.
//       Exception -- the ORACLE-DECIDED family (scene["oracle"]: regular prisms with any n and
//       orientation, parallelepipeds, general rotations; real-valued, outside what TLC can own):
//       analytic membership functions below, written from the documented definitions and never
//       calling orangeinp, supply the expected label of each probe as a fact (`ora`), plus the
//       label under each named deviation of the parallelepiped (`alt`, `alt2`); TLC compares.
//
//   vbuild roundtrip <scenes.ndjson> <fixtures.txt> <out.ndjson> <nrays> <seed>
//       For every scene's OrangeInput and every listed .org.json: an INDEPENDENT projector walks
//       the OrangeInput structs (never the repository's to_json) and logs the abstract state as
//       <<path, token>> pairs before operator<< and after operator>>; the same seeded rays are
//       traced on the OrangeParams built from both.  spec/RoundTripTrace.tla compares.
//       Input containing an involute surface is NOT read back (finding F-JSON-1: the reader
//       reaches CELER_ASSERT_UNREACHABLE); a `Deviation` record is logged instead.
//
// Records: Scene, Built, Probes | OProbes, EndScene | RT, Nav, Deviation, Error | Abort, Close.

#include <cmath>
#include <csignal>
#include <cstdlib>
#include <exception>
#include <fstream>
#include <iomanip>
#include <map>
#include <memory>
#include <optional>
#include <random>
#include <sstream>
#include <string>
#include <variant>
#include <vector>

#include "corecel/cont/Array.hh"
#include "corecel/io/Label.hh"
#include "corecel/math/Turn.hh"
#include "corecel/sys/ThreadId.hh"
#include "geocel/BoundingBox.hh"
#include "geocel/Types.hh"
#include "orange/OrangeData.hh"
#include "orange/OrangeInput.hh"
#include "orange/OrangeParams.hh"
#include "orange/OrangeTrackView.hh"
#include "orange/OrangeTypes.hh"
#include "orange/orangeinp/CsgObject.hh"
#include "orange/orangeinp/InputBuilder.hh"
#include "orange/orangeinp/IntersectRegion.hh"
#include "orange/orangeinp/PolySolid.hh"
#include "orange/orangeinp/Shape.hh"
#include "orange/orangeinp/Solid.hh"
#include "orange/orangeinp/Transformed.hh"
#include "orange/orangeinp/UnitProto.hh"
#include "orange/surf/VariantSurface.hh"
#include "orange/transform/Transformation.hh"
#include "orange/transform/Translation.hh"
#include "orange/transform/VariantTransform.hh"

#include <sys/wait.h>
#include <unistd.h>

#include "vjson.hh"

using namespace celeritas;
namespace oi = celeritas::orangeinp;
using verif::json;
using SPObj = std::shared_ptr<oi::ObjectInterface const>;

namespace
{
verif::NdjsonWriter* g_out = nullptr;
std::string g_where;

void log_abort(std::string const& why)
{
    if (g_out)
    {
        (*g_out)(json{{"e", "Abort"}, {"why", why}, {"where", g_where}});
        g_out->flush();
    }
}
[[noreturn]] void on_terminate()
{
    log_abort("terminate");
    std::_Exit(4);
}
void on_signal(int sig)
{
    log_abort("signal " + std::to_string(sig));
    std::_Exit(4);
}

//---------------------------------------------------------------------------//
// Scene -> orangeinp objects (public API only)
//---------------------------------------------------------------------------//
struct Builder
{
    double rel{1e-8};  // `eps`/`et` are in units of rel/2 * max(1, |v|)
    std::map<std::string, SPObj> cache;
    int counter{0};
    std::size_t unit{0};          // unit being built (refs and the cache are per unit)
    json const* objs{nullptr};    // its shared placed objects

    std::string fresh() { return "o" + std::to_string(counter++); }

    double bump(double x, int e) const
    {
        return x + e * 0.5 * rel * std::fmax(1.0, std::fabs(x));
    }
    // i-th perturbable parameter of a leaf
    double par(json const& o, double x, std::size_t i) const
    {
        auto it = o.find("eps");
        return it == o.end() ? x : bump(x, it->at(i).get<int>());
    }

    oi::SolidEnclosedAngle ea(json const& a) const
    {
        if (a.empty())
            return {};
        return oi::SolidEnclosedAngle{Turn{a.at(0).get<int>() / 4.0}, Turn{a.at(1).get<int>() / 4.0}};
    }

    oi::Box box(json const& o) const
    {
        auto const& h = o.at("h");
        return oi::Box{Real3{par(o, h[0], 0), par(o, h[1], 1), par(o, h[2], 2)}};
    }
    oi::Sphere sphere(json const& o) const { return oi::Sphere{par(o, o.at("r"), 0)}; }
    oi::Cylinder cyl(json const& o) const
    {
        return oi::Cylinder{par(o, o.at("r"), 0), par(o, o.at("hh"), 1)};
    }
    oi::Cone cone(json const& o) const
    {
        return oi::Cone{Real2{par(o, o.at("rlo"), 0), par(o, o.at("rhi"), 1)}, par(o, o.at("hh"), 2)};
    }
    oi::Ellipsoid ell(json const& o) const
    {
        auto const& r = o.at("r");
        return oi::Ellipsoid{Real3{par(o, r[0], 0), par(o, r[1], 1), par(o, r[2], 2)}};
    }
    oi::Prism prism4(json const& o) const
    {
        return oi::Prism{4, par(o, o.at("a"), 0), par(o, o.at("hh"), 1), 0.0};
    }

    VariantTransform transform(json const& t) const
    {
        Real3 tr;
        for (int i = 0; i < 3; ++i)
        {
            tr[i] = t.at("t").at(i).get<double>();
            if (auto it = t.find("et"); it != t.end())
                tr[i] = bump(tr[i], it->at(i).get<int>());
        }
        double den = t.at("den").get<double>();
        bool ident = den == 1;
        SquareMatrixReal3 rot;
        for (int i = 0; i < 3; ++i)
            for (int j = 0; j < 3; ++j)
            {
                int m = t.at("m").at(i).at(j).get<int>();
                rot[i][j] = m / den;
                ident = ident && m == (i == j ? 1 : 0);
            }
        if (ident)
            return Translation{tr};
        return Transformation{rot, tr};
    }

    template<class T>
    SPObj solid(json const& o, T&& outer, std::optional<T>&& inner)
    {
        return oi::Solid<T>::or_shape(fresh(), std::move(outer), std::move(inner), ea(o.at("ea")));
    }

    oi::PolySegments segments(json const& o) const
    {
        auto z = o.at("z").get<std::vector<double>>();
        auto ro = o.at("ro").get<std::vector<double>>();
        auto ri = o.at("ri").get<std::vector<double>>();
        if (ri.empty())
            return oi::PolySegments{std::move(ro), std::move(z)};
        return oi::PolySegments{std::move(ri), std::move(ro), std::move(z)};
    }

    SPObj operator()(json const& o)
    {
        std::string key = std::to_string(unit) + ":" + o.dump();
        if (auto it = cache.find(key); it != cache.end())
            return it->second;
        SPObj r = this->make(o);
        cache.emplace(std::move(key), r);
        return r;
    }

    SPObj make(json const& o)
    {
        std::string k = o.at("k").get<std::string>();
        if (k == "ref")  // a placed object of this unit, shared between region definitions
            return (*this)(objs->at(o.at("i").get<std::size_t>() - 1));
        if (k == "box")
            return std::make_shared<oi::BoxShape>(fresh(), box(o));
        if (k == "sphere")
            return std::make_shared<oi::SphereShape>(fresh(), sphere(o));
        if (k == "cyl")
            return std::make_shared<oi::CylinderShape>(fresh(), cyl(o));
        if (k == "cone")
            return std::make_shared<oi::ConeShape>(fresh(), cone(o));
        if (k == "ell")
            return std::make_shared<oi::EllipsoidShape>(fresh(), ell(o));
        if (k == "prism4")
            return std::make_shared<oi::PrismShape>(fresh(), prism4(o));
        if (k == "trd")
        {
            return std::make_shared<oi::GenPrismShape>(
                fresh(),
                oi::GenPrism::from_trd(par(o, o.at("hh"), 0),
                                       Real2{par(o, o.at("lo")[0], 1), par(o, o.at("lo")[1], 2)},
                                       Real2{par(o, o.at("hi")[0], 3), par(o, o.at("hi")[1], 4)}));
        }
        if (k == "genprism")
        {
            oi::GenPrism::VecReal2 lo, hi;
            for (auto const& p : o.at("lo"))
                lo.push_back(Real2{p[0].get<double>(), p[1].get<double>()});
            for (auto const& p : o.at("hi"))
                hi.push_back(Real2{p[0].get<double>(), p[1].get<double>()});
            return std::make_shared<oi::GenPrismShape>(fresh(), oi::GenPrism{o.at("hh").get<double>(), lo, hi});
        }
        if (k == "wedge")
        {
            return std::make_shared<oi::Shape<oi::InfWedge>>(
                fresh(), oi::InfWedge{Turn{o.at("s").get<int>() / 4.0}, Turn{o.at("w").get<int>() / 4.0}});
        }
        if (k == "oprism")  // oracle-decided family: regular prism, any n / orientation
        {
            return std::make_shared<oi::PrismShape>(
                fresh(), oi::Prism{o.at("n").get<int>(), o.at("a").get<double>(), o.at("hh").get<double>(), o.at("ori").get<double>()});
        }
        if (k == "ppiped")  // oracle-decided family: parallelepiped
        {
            auto h = o.at("h").get<std::vector<double>>();
            return std::make_shared<oi::ParallelepipedShape>(
                fresh(),
                oi::Parallelepiped{Real3{h[0], h[1], h[2]}, Turn{o.at("alpha").get<double>()}, Turn{o.at("theta").get<double>()},
                                   Turn{o.at("phi").get<double>()}});
        }
        if (k == "otrap")  // oracle-decided family: general trapezoid through the G4Trap-style helper
        {
            auto face = [](json const& f) {
                oi::GenPrism::TrapFace r;
                r.hy = f.at("hy").get<double>();
                r.hx_lo = f.at("hx_lo").get<double>();
                r.hx_hi = f.at("hx_hi").get<double>();
                r.alpha = Turn{f.at("alpha").get<double>()};
                return r;
            };
            return std::make_shared<oi::GenPrismShape>(
                fresh(),
                oi::GenPrism::from_trap(o.at("hz").get<double>(), Turn{o.at("theta").get<double>()},
                                        Turn{o.at("phi").get<double>()}, face(o.at("lo")), face(o.at("hi"))));
        }
        if (k == "otf")  // general rotation (doubles) + translation
        {
            SquareMatrixReal3 rot;
            Real3 tr;
            for (int i = 0; i < 3; ++i)
            {
                tr[i] = o.at("t").at(i).get<double>();
                for (int j = 0; j < 3; ++j)
                    rot[i][j] = o.at("R").at(i).at(j).get<double>();
            }
            return std::make_shared<oi::Transformed>((*this)(o.at("c")), Transformation{rot, tr});
        }
        if (k == "involute")  // C19 only (not in the lattice vocabulary)
        {
            auto r = o.at("r").get<std::vector<double>>();
            auto a = o.at("a").get<std::vector<double>>();
            return std::make_shared<oi::InvoluteShape>(
                fresh(),
                oi::Involute{Real3{r[0], r[1], r[2]},
                             Real2{a[0], a[1]},
                             o.at("left").get<bool>() ? Chirality::left : Chirality::right,
                             o.at("hh").get<double>()});
        }
        if (k == "solid")
        {
            json const& out = o.at("out");
            std::string b = out.at("k").get<std::string>();
            bool has_inn = o.contains("inn");
            if (b == "cyl")
                return solid<oi::Cylinder>(o, cyl(out), has_inn ? std::optional<oi::Cylinder>{cyl(o.at("inn"))} : std::nullopt);
            if (b == "cone")
                return solid<oi::Cone>(o, cone(out), has_inn ? std::optional<oi::Cone>{cone(o.at("inn"))} : std::nullopt);
            if (b == "sphere")
                return solid<oi::Sphere>(o, sphere(out), has_inn ? std::optional<oi::Sphere>{sphere(o.at("inn"))} : std::nullopt);
            if (b == "prism4")
                return solid<oi::Prism>(o, prism4(out), has_inn ? std::optional<oi::Prism>{prism4(o.at("inn"))} : std::nullopt);
            throw std::runtime_error("harness: unknown solid base " + b);
        }
        if (k == "polycone")
            return oi::PolyCone::or_solid(fresh(), segments(o), ea(o.at("ea")));
        if (k == "polyprism4")
            return oi::PolyPrism::or_solid(fresh(), segments(o), ea(o.at("ea")), 4, 0.0);
        if (k == "any" || k == "all")
        {
            std::vector<SPObj> kids;
            for (auto const& c : o.at("c"))
                kids.push_back((*this)(c));
            if (k == "any")
                return std::make_shared<oi::AnyObjects>(fresh(), std::move(kids));
            return std::make_shared<oi::AllObjects>(fresh(), std::move(kids));
        }
        if (k == "not")
            return std::make_shared<oi::NegatedObject>(fresh(), (*this)(o.at("c")));
        if (k == "sub")
            return oi::make_subtraction(fresh(), (*this)(o.at("a")), (*this)(o.at("b")));
        if (k == "rdv")
        {
            oi::VecSenseObj v;
            for (auto const& c : o.at("c"))
                v.push_back({c[0].get<std::string>() == "in" ? Sense::inside : Sense::outside, (*this)(c[1])});
            return oi::make_rdv(fresh(), std::move(v));
        }
        if (k == "tf")
            return std::make_shared<oi::Transformed>((*this)(o.at("c")), transform(o.at("t")));
        throw std::runtime_error("harness: unknown object kind " + k);
    }
};

struct Built
{
    std::vector<std::shared_ptr<oi::UnitProto>> protos;
    OrangeInput input;
};

std::shared_ptr<oi::UnitProto>
make_unit(json const& scene, std::size_t ui, Builder& b, std::vector<std::shared_ptr<oi::UnitProto>>& protos)
{
    if (protos[ui])
        return protos[ui];
    json const& u = scene.at("units").at(ui);
    oi::UnitProto::Input inp;
    inp.label = u.at("name").get<std::string>();
    // daughters first (recursion changes the builder's current unit)
    for (auto const& d : u.at("daughters"))
    {
        oi::UnitProto::DaughterInput di;
        di.fill = make_unit(scene, d.at("unit").get<std::size_t>(), b, protos);
        di.transform = b.transform(d.at("tf"));
        di.zorder = ZOrder::media;
        inp.daughters.push_back(std::move(di));
    }
    b.unit = ui;
    b.objs = &u.at("objs");
    inp.boundary.interior = b(u.at("boundary"));
    inp.boundary.zorder = u.at("bz").get<std::string>() == "media" ? ZOrder::media : ZOrder::exterior;
    if (auto bg = u.at("bg").get<std::string>(); !bg.empty())
    {
        inp.background.fill = GeoMaterialId{99};
        inp.background.label = Label{bg};
    }
    GeoMaterialId::size_type mat = 0;
    for (auto const& m : u.at("materials"))
    {
        oi::UnitProto::MaterialInput mi;
        mi.interior = b(m.at("obj"));
        mi.fill = GeoMaterialId{mat++};
        mi.label = Label{m.at("label").get<std::string>()};
        inp.materials.push_back(std::move(mi));
    }
    protos[ui] = std::make_shared<oi::UnitProto>(std::move(inp));
    return protos[ui];
}

Built build_scene(json const& scene)
{
    Builder b;
    b.rel = std::pow(10.0, -scene.at("tolrel").get<int>());
    Built r;
    r.protos.resize(scene.at("units").size());
    auto global = make_unit(scene, 0, b, r.protos);
    oi::InputBuilder::Options opts;
    opts.tol = Tolerance<>::from_relative(b.rel, scene.at("length").get<double>());
    oi::InputBuilder build{std::move(opts)};
    r.input = build(*global);
    return r;
}

std::string label_str(Label const& l)
{
    return l.ext.empty() ? l.name : l.name + "@" + l.ext;
}

//---------------------------------------------------------------------------//
// Host track view
//---------------------------------------------------------------------------//
class Nav
{
  public:
    explicit Nav(std::shared_ptr<OrangeParams const> p) : params_(std::move(p)), host_(params_->host_ref())
    {
        resize(&state_val_, host_, 1);
        state_ref_ = state_val_;
        view_ = std::make_unique<OrangeTrackView>(host_, state_ref_, TrackSlotId{0});
    }
    OrangeTrackView& view() { return *view_; }
    OrangeParams const& params() const { return *params_; }
    std::string label() const
    {
        VolumeId v = view_->volume_id();
        if (!v || v.get() >= params_->volumes().size())
            return "!null";
        return label_str(params_->volumes().at(v));
    }

  private:
    std::shared_ptr<OrangeParams const> params_;
    HostCRef<OrangeParamsData> const& host_;
    HostVal<OrangeStateData> state_val_;
    HostRef<OrangeStateData> state_ref_;
    std::unique_ptr<OrangeTrackView> view_;
};

struct Names
{
    std::map<std::string, int> idx;
    std::vector<std::string> list;
    int operator()(std::string const& s)
    {
        auto it = idx.find(s);
        if (it != idx.end())
            return it->second;
        int i = static_cast<int>(list.size());
        idx.emplace(s, i);
        list.push_back(s);
        return i;
    }
};

std::string what_of(std::exception const& e)
{
    std::string w = e.what();
    if (w.size() > 400)
        w.resize(400);
    for (char& c : w)  // keep the message printable inside TLC's quoted SUMMARY string
        if (c == '"' || c == '\\' || c == '\n' || c == '\r' || c == '\t' || static_cast<unsigned char>(c) > 126)
            c = c == '"' ? '\'' : ' ';
    return w;
}

//---------------------------------------------------------------------------//
// Oracle-decided family: analytic membership written from the DOCUMENTED definitions (never
// calling orangeinp).  Each function returns +1 inside / -1 outside / 0 within `margin`
// (residual units) of a face.
//---------------------------------------------------------------------------//
constexpr double oracle_margin = 1e-5;

int sign_all(std::vector<double> const& residuals)  // residual < 0 : inner side of that face
{
    bool in = true;
    for (double r : residuals)
    {
        if (std::fabs(r) < oracle_margin)
            return 0;
        in = in && r < 0;
    }
    return in ? 1 : -1;
}

// Regular n-prism (IntersectRegion.hh): apothem a, half-height hh; orientation 0 has a face at
// y = -a; orientation o rotates counterclockwise by o x (1/n turn)
int in_prism(json const& o, Real3 const& p)
{
    int n = o.at("n").get<int>();
    double a = o.at("a").get<double>(), hh = o.at("hh").get<double>(), ori = o.at("ori").get<double>();
    std::vector<double> res{std::fabs(p[2]) - hh};
    for (int k = 0; k < n; ++k)
    {
        double th = -1.5707963267948966 + 6.283185307179586 * (k + ori) / n;
        res.push_back(std::cos(th) * p[0] + std::sin(th) * p[1] - a);
    }
    return sign_all(res);
}

// Parallelepiped (IntersectRegion.hh / G4Para): half-lengths of the edge projections on x, y, z;
// alpha = angle between the y axis and the line joining the centres of the x-parallel edges of a z
// face; theta, phi = polar / azimuthal angle of the line joining the centres of the z faces.
// Named deviations (precise descriptions of what the implementation does instead):
//   mode 1  the y faces lie at +-hy cos(alpha) instead of +-hy                        (F-PARA-1)
//   mode 2  as mode 1, and the shape is clipped by the bounding box +-(a + b + c) built from
//           a = hx x^, b = hy (sin alpha, cos alpha, 0), c = hz (sin theta cos phi, sin theta sin phi,
//           cos theta), which does not contain the shape when alpha or theta is nonzero  (F-PARA-2)
int in_ppiped(json const& o, Real3 const& p, int mode)
{
    bool const as_coded = mode >= 1;
    auto h = o.at("h").get<std::vector<double>>();
    double const twopi = 6.283185307179586;
    double ta = std::tan(twopi * o.at("alpha").get<double>());
    double tt = std::tan(twopi * o.at("theta").get<double>());
    double ph = twopi * o.at("phi").get<double>();
    double yy = p[1] - p[2] * tt * std::sin(ph);
    double xx = p[0] - p[2] * tt * std::cos(ph) - yy * ta;
    double hy = as_coded ? h[1] * std::cos(twopi * o.at("alpha").get<double>()) : h[1];
    std::vector<double> res{std::fabs(p[2]) - h[2], std::fabs(yy) - hy, std::fabs(xx) - h[0]};
    if (mode >= 2)
    {
        double al = twopi * o.at("alpha").get<double>(), th = twopi * o.at("theta").get<double>();
        double hd[3] = {h[0] + h[1] * std::sin(al) + h[2] * std::sin(th) * std::cos(ph),
                        h[1] * std::cos(al) + h[2] * std::sin(th) * std::sin(ph),
                        h[2] * std::cos(th)};
        for (int i = 0; i < 3; ++i)
        {
            res.push_back(p[i] - hd[i]);   // -hd < p < hd (empty if hd < 0)
            res.push_back(-hd[i] - p[i]);
        }
    }
    return sign_all(res);
}

// General trapezoid (GenPrism::from_trap, "see Geant4 G4Trap"): faces at z = -+hz whose centres lie on the line
// through the origin with polar angle theta and azimuth phi; each face is a trapezoid with its parallel edges
// along x at y = centre -+ hy, of half-lengths hx_lo (at -hy) and hx_hi (at +hy), the line joining the edge
// centres making the angle alpha with the y axis.  Corresponding vertices of the two faces are joined by straight
// edges (G4GenericTrap): the section at height z is the quadrilateral of the linearly interpolated vertices.
int in_trap(json const& o, Real3 const& p)
{
    double const twopi = 6.283185307179586;
    double hz = o.at("hz").get<double>();
    double tt = std::tan(twopi * o.at("theta").get<double>());
    double ph = twopi * o.at("phi").get<double>();
    double v[2][4][2];
    for (int f = 0; f < 2; ++f)
    {
        json const& face = o.at(f == 0 ? "lo" : "hi");
        double zc = f == 0 ? -hz : hz;
        double cx = zc * tt * std::cos(ph), cy = zc * tt * std::sin(ph);
        double hy = face.at("hy").get<double>(), x1 = face.at("hx_lo").get<double>(), x2 = face.at("hx_hi").get<double>();
        double sh = hy * std::tan(twopi * face.at("alpha").get<double>());
        // counterclockwise seen from +z
        double q[4][2] = {{cx - sh + x1, cy - hy}, {cx + sh + x2, cy + hy}, {cx + sh - x2, cy + hy}, {cx - sh - x1, cy - hy}};
        for (int i = 0; i < 4; ++i)
            for (int c = 0; c < 2; ++c)
                v[f][i][c] = q[i][c];
    }
    std::vector<double> res{std::fabs(p[2]) - hz};
    double t = (p[2] + hz) / (2 * hz);
    double w[4][2];
    for (int i = 0; i < 4; ++i)
        for (int c = 0; c < 2; ++c)
            w[i][c] = (1 - t) * v[0][i][c] + t * v[1][i][c];
    for (int i = 0; i < 4; ++i)
    {
        int j = (i + 1) % 4;
        double ex = w[j][0] - w[i][0], ey = w[j][1] - w[i][1];
        double len = std::hypot(ex, ey);
        // signed distance to the edge line in the section plane, negative on the inner (left) side
        res.push_back(-(ex * (p[1] - w[i][1]) - ey * (p[0] - w[i][0])) / (len > 0 ? len : 1));
    }
    return sign_all(res);
}

// expected label of a point in an oracle scene; "" = within the margin of some face (excluded)
std::string oracle_label(json const& scene, Real3 const& p, int mode)
{
    json const& u = scene.at("units").at(0);
    auto bh = u.at("boundary").at("h").get<std::vector<double>>();
    int ext = sign_all({std::fabs(p[0]) - bh[0], std::fabs(p[1]) - bh[1], std::fabs(p[2]) - bh[2]});
    std::string found;
    bool near = ext == 0;
    for (auto const& m : u.at("materials"))
    {
        json const& tf = m.at("obj");
        Real3 q{0, 0, 0};
        for (int j = 0; j < 3; ++j)      // q = R^T (p - t)
            for (int i = 0; i < 3; ++i)
                q[j] += tf.at("R").at(i).at(j).get<double>() * (p[i] - tf.at("t").at(i).get<double>());
        json const& o = tf.at("c");
        std::string const kind = o.at("k").get<std::string>();
        int s = kind == "oprism" ? in_prism(o, q) : kind == "otrap" ? in_trap(o, q) : in_ppiped(o, q, mode);
        if (s == 0)
            near = true;
        if (s > 0)
            found = m.at("label").get<std::string>() + "@u0";
    }
    if (near)
        return "";
    if (ext > 0)  // inside the boundary box
        return found.empty() ? u.at("bg").get<std::string>() + "@u0" : found;
    return "[EXTERIOR]@u0";
}

//---------------------------------------------------------------------------//
// C09: probe
//---------------------------------------------------------------------------//
int run_probe(std::string const& scenes_path, std::string const& out_path)
{
    verif::NdjsonWriter out(out_path);
    g_out = &out;
    std::ifstream in(scenes_path);
    if (!in)
    {
        std::cerr << "cannot open " << scenes_path << std::endl;
        return 3;
    }
    std::string line;
    while (std::getline(in, line))
    {
        if (line.empty())
            continue;
        json scene = json::parse(line);
        g_where = "scene " + std::to_string(scene.at("id").get<int>());
        bool const oracle = scene.contains("oracle");
        if (oracle)
        {
            // real-valued parameters stay out of the TLC trace: echo the header only
            json head = scene;
            head.erase("units");
            out(json{{"e", "Scene"}, {"scene", head}});
        }
        else
        {
            out(json{{"e", "Scene"}, {"scene", scene}});
        }
        std::shared_ptr<OrangeParams const> params;
        try
        {
            Built b = build_scene(scene);
            params = std::make_shared<OrangeParams>(std::move(b.input));
        }
        catch (std::exception const& e)
        {
            out(json{{"e", "Built"}, {"ok", false}, {"msg", what_of(e)}, {"names", json::array()}});
            out(json{{"e", "EndScene"}});
            out.flush();
            continue;
        }
        Nav nav(params);
        auto const& g = scene.at("grid");
        int n = g.at("n").get<int>();
        int step[3] = {g.at("step")[0].get<int>(), g.at("step")[1].get<int>(), g.at("step")[2].get<int>()};
        int lo[3] = {g.at("lo")[0].get<int>(), g.at("lo")[1].get<int>(), g.at("lo")[2].get<int>()};
        double off[3] = {0.5 * g.at("off")[0].get<int>(), 0.5 * g.at("off")[1].get<int>(), 0.5 * g.at("off")[2].get<int>()};
        Names names;
        std::vector<json> slabs;
        std::vector<int> zs;
        if (auto it = g.find("zs"); it != g.end())
            zs = it->get<std::vector<int>>();
        else
            for (int iz = 0; iz < n; ++iz)
                zs.push_back(iz);
        for (int iz : zs)
        {
            json lab = json::array();
            json fail = json::array();
            json ora = json::array();   // oracle scenes: expected label (documented definitions), -1 = near a face
            json alt = json::array();   // ... and under the named deviations of the parallelepiped (modes 1, 2)
            json alt2 = json::array();
            for (int iy = 0; iy < n; ++iy)
                for (int ix = 0; ix < n; ++ix)
                {
                    Real3 pos{lo[0] + ix * step[0] + off[0], lo[1] + iy * step[1] + off[1], lo[2] + iz * step[2] + off[2]};
                    nav.view() = GeoTrackInitializer{pos, Real3{0, 0, 1}};
                    lab.push_back(names(nav.label()));
                    if (nav.view().failed())
                        fail.push_back(iy * n + ix);
                    if (oracle)
                    {
                        std::string e0 = oracle_label(scene, pos, 0), e1 = oracle_label(scene, pos, 1),
                                    e2 = oracle_label(scene, pos, 2);
                        ora.push_back(e0.empty() ? -1 : names(e0));
                        alt.push_back(e1.empty() ? -1 : names(e1));
                        alt2.push_back(e2.empty() ? -1 : names(e2));
                    }
                }
            if (oracle)
                slabs.push_back(json{{"e", "OProbes"}, {"iz", iz}, {"lab", std::move(lab)}, {"fail", std::move(fail)},
                                     {"ora", std::move(ora)}, {"alt", std::move(alt)}, {"alt2", std::move(alt2)}});
            else
                slabs.push_back(json{{"e", "Probes"}, {"iz", iz}, {"lab", std::move(lab)}, {"fail", std::move(fail)}});
        }
        out(json{{"e", "Built"}, {"ok", true}, {"msg", ""}, {"names", names.list}});
        for (auto const& s : slabs)
            out(s);
        out(json{{"e", "EndScene"}});
        out.flush();
    }
    out(json{{"e", "Close"}});
    out.flush();
    return 0;
}

//---------------------------------------------------------------------------//
// C19: independent projection of an OrangeInput to <<path, token>> pairs
//---------------------------------------------------------------------------//
std::string hex(double v)
{
    std::ostringstream os;
    os << std::hex << std::setw(16) << std::setfill('0') << verif::bits_of(v);
    return os.str();
}
template<class It>
std::string hexes(It b, It e)
{
    std::string s = "d:";
    for (; b != e; ++b)
    {
        if (s.size() > 2)
            s += ' ';
        s += hex(static_cast<double>(*b));
    }
    return s;
}
struct Proj
{
    json listed = json::array();    // fields the property names
    json unlisted = json::array();  // everything else the struct carries (reported, not required)
    void put(std::string const& path, std::string const& tok) { listed.push_back(json::array({path, tok})); }
    void put_unl(std::string const& path, std::string const& tok) { unlisted.push_back(json::array({path, tok})); }
    static std::string I(long long v) { return "i:" + std::to_string(v); }
    static std::string S(std::string const& s) { return "s:" + s; }
    static std::string L(Label const& l) { return "s:" + l.name + "|" + l.ext; }
    static std::string B(BBox const& b)
    {
        if (!b)
            return "null";
        return hexes(b.lower().begin(), b.lower().end()) + " / " + hexes(b.upper().begin(), b.upper().end());
    }
    static std::string T(VariantTransform const& t)
    {
        return std::visit(
            [](auto const& tr) {
                auto d = tr.data();
                return std::string(to_cstring(std::decay_t<decltype(tr)>::transform_type())) + " "
                       + hexes(d.begin(), d.end());
            },
            t);
    }
};

void project(OrangeInput const& inp, Proj& p)
{
    p.put("tol.rel", hexes(&inp.tol.rel, &inp.tol.rel + 1));
    p.put("tol.abs", hexes(&inp.tol.abs, &inp.tol.abs + 1));
    p.put("universes.n", Proj::I(inp.universes.size()));
    for (std::size_t ui = 0; ui < inp.universes.size(); ++ui)
    {
        std::string u = "u[" + std::to_string(ui) + "]";
        if (auto const* unit = std::get_if<UnitInput>(&inp.universes[ui]))
        {
            p.put(u + ".type", Proj::S("unit"));
            p.put(u + ".label", Proj::L(unit->label));
            p.put(u + ".bbox", Proj::B(unit->bbox));
            p.put(u + ".surfaces.n", Proj::I(unit->surfaces.size()));
            for (std::size_t si = 0; si < unit->surfaces.size(); ++si)
            {
                std::string s = u + ".s[" + std::to_string(si) + "]";
                std::visit(
                    [&](auto const& surf) {
                        p.put(s + ".type", Proj::S(to_cstring(surf.surface_type())));
                        auto d = surf.data();
                        p.put(s + ".data", hexes(d.begin(), d.end()));
                    },
                    unit->surfaces[si]);
            }
            p.put(u + ".surface_labels.n", Proj::I(unit->surface_labels.size()));
            for (std::size_t si = 0; si < unit->surface_labels.size(); ++si)
                p.put(u + ".s[" + std::to_string(si) + "].label", Proj::L(unit->surface_labels[si]));
            p.put(u + ".volumes.n", Proj::I(unit->volumes.size()));
            for (std::size_t vi = 0; vi < unit->volumes.size(); ++vi)
            {
                VolumeInput const& v = unit->volumes[vi];
                std::string s = u + ".v[" + std::to_string(vi) + "]";
                p.put(s + ".label", Proj::L(v.label));
                std::string faces = "f:";
                for (auto f : v.faces)
                    faces += " " + std::to_string(f.unchecked_get());
                p.put(s + ".faces", faces);
                std::string logic = "l:";
                for (auto l : v.logic)
                    logic += " " + std::to_string(l);
                p.put(s + ".logic", logic);
                p.put(s + ".bbox", Proj::B(v.bbox));
                p.put(s + ".flags", Proj::I(v.flags));
                p.put(s + ".zorder", Proj::I(static_cast<long long>(static_cast<size_type>(v.zorder))));
                // oriented bounding zone: carried by the struct, not named by the property
                p.put_unl(s + ".obz.inner", Proj::B(v.obz.inner));
                p.put_unl(s + ".obz.outer", Proj::B(v.obz.outer));
                p.put_unl(s + ".obz.transform_id",
                          Proj::I(v.obz.transform_id ? static_cast<long long>(v.obz.transform_id.unchecked_get()) : -1));
            }
            p.put(u + ".daughters.n", Proj::I(unit->daughter_map.size()));
            for (auto const& kv : unit->daughter_map)
            {
                std::string s = u + ".d[v" + std::to_string(kv.first.unchecked_get()) + "]";
                p.put(s + ".universe", Proj::I(kv.second.universe_id.unchecked_get()));
                p.put(s + ".transform", Proj::T(kv.second.transform));
            }
        }
        else
        {
            auto const& arr = std::get<RectArrayInput>(inp.universes[ui]);
            p.put(u + ".type", Proj::S("rectarray"));
            p.put(u + ".label", Proj::L(arr.label));
            for (int ax = 0; ax < 3; ++ax)
                p.put(u + ".grid[" + std::to_string(ax) + "]", hexes(arr.grid[ax].begin(), arr.grid[ax].end()));
            p.put(u + ".daughters.n", Proj::I(arr.daughters.size()));
            for (std::size_t di = 0; di < arr.daughters.size(); ++di)
            {
                std::string s = u + ".d[" + std::to_string(di) + "]";
                p.put(s + ".universe", Proj::I(arr.daughters[di].universe_id.unchecked_get()));
                p.put(s + ".transform", Proj::T(arr.daughters[di].transform));
            }
        }
    }
}

//---------------------------------------------------------------------------//
// C19: hand-constructed OrangeInput values with rectangular arrays (public structs; orangeinp has
// no array builder).  spec (tools/solids.py array_inputs): world half-widths, placement of the top
// array, and a list of arrays {grid[3], cells [x][y][z] flattened}; a cell holds a corner-anchored
// leaf unit ["C"], a centred leaf unit ["T"] or a nested array ["A", k].  Each array lives in a
// wrapper unit (exterior + one all-space volume of z-order `array`) whose frame is the array's
// frame.  A daughter whose offset is exactly zero gets NoTransformation, every other a Translation.
//---------------------------------------------------------------------------//
struct ArrayInputBuilder
{
    json const& spec;
    OrangeInput inp;
    std::map<std::string, size_type> leaf_ids;
    std::vector<size_type> wrapper_of;  // array index -> universe id of its wrapper

    static VariantTransform tf(Real3 const& t)
    {
        if (t[0] == 0 && t[1] == 0 && t[2] == 0)
            return NoTransformation{};
        return Translation{t};
    }
    static VolumeInput exterior(bool implicit)
    {
        VolumeInput v;
        v.label = Label{"[EXTERIOR]"};
        v.logic = {logic::ltrue, logic::lnot};
        v.bbox = BBox::from_infinite();
        v.flags = implicit ? VolumeRecord::implicit_vol : 0;
        v.zorder = implicit ? ZOrder::implicit_exterior : ZOrder::exterior;
        return v;
    }
    // logic "inside the box whose faces are f..f+5 (mx px my py mz pz) of the volume's face list"
    static void box_logic(std::vector<logic_int>& l, logic_int f)
    {
        for (logic_int a = 0; a < 3; ++a)
        {
            l.push_back(f + 2 * a);
            if (a > 0)
                l.push_back(logic::land);
            l.push_back(f + 2 * a + 1);
            l.push_back(logic::lnot);
            l.push_back(logic::land);
        }
    }
    static void box_surfaces(UnitInput& u, std::string const& name, Real3 const& lo, Real3 const& hi)
    {
        u.surfaces.emplace_back(PlaneX{lo[0]});
        u.surfaces.emplace_back(PlaneX{hi[0]});
        u.surfaces.emplace_back(PlaneY{lo[1]});
        u.surfaces.emplace_back(PlaneY{hi[1]});
        u.surfaces.emplace_back(PlaneZ{lo[2]});
        u.surfaces.emplace_back(PlaneZ{hi[2]});
        for (char const* e : {"mx", "px", "my", "py", "mz", "pz"})
            u.surface_labels.push_back(Label{name, e});
    }
    static Real3 lo_of(json const& a) { return {a.at("grid")[0].front().get<double>(), a.at("grid")[1].front().get<double>(), a.at("grid")[2].front().get<double>()}; }
    static Real3 hi_of(json const& a) { return {a.at("grid")[0].back().get<double>(), a.at("grid")[1].back().get<double>(), a.at("grid")[2].back().get<double>()}; }

    // leaf unit: a box cell split by an x plane into two volumes; corner-anchored or centred frame
    size_type leaf(bool centred, Real3 const& w)
    {
        std::string key = std::string(centred ? "T" : "C") + "_" + std::to_string(w[0]) + "_" + std::to_string(w[1]) + "_" + std::to_string(w[2]);
        if (auto it = leaf_ids.find(key); it != leaf_ids.end())
            return it->second;
        Real3 lo, hi;
        for (int i = 0; i < 3; ++i)
        {
            lo[i] = centred ? -w[i] / 2 : 0;
            hi[i] = centred ? w[i] / 2 : w[i];
        }
        UnitInput u;
        u.label = Label{key};
        u.bbox = BBox{lo, hi};
        double mid = (lo[0] + hi[0]) / 2;
        u.surfaces.emplace_back(PlaneX{mid});
        u.surface_labels.push_back(Label{key, "split"});
        u.volumes.push_back(exterior(true));
        VolumeInput l, r;
        l.label = Label{key + ".L"};
        l.faces = {LocalSurfaceId{0}};
        l.logic = {0, logic::lnot};
        l.bbox = BBox{lo, Real3{mid, hi[1], hi[2]}};
        l.zorder = ZOrder::media;
        r.label = Label{key + ".R"};
        r.faces = {LocalSurfaceId{0}};
        r.logic = {0};
        r.bbox = BBox{Real3{mid, lo[1], lo[2]}, hi};
        r.zorder = ZOrder::media;
        u.volumes.push_back(std::move(l));
        u.volumes.push_back(std::move(r));
        size_type id = static_cast<size_type>(inp.universes.size());
        inp.universes.emplace_back(std::move(u));
        leaf_ids.emplace(key, id);
        return id;
    }

    explicit ArrayInputBuilder(json const& s) : spec(s)
    {
        auto const& arrays = spec.at("arrays");
        std::size_t na = arrays.size();
        inp.tol = Tolerance<>::from_default();
        if (auto it = spec.find("tol"); it != spec.end())
        {
            // [rel, abs]: a non-default tolerance whose two members differ
            inp.tol.rel = it->at(0).get<double>();
            inp.tol.abs = it->at(1).get<double>();
        }
        // universe ids: 0 global, then wrapper k = 1 + 2k, array k = 2 + 2k, then the leaves
        inp.universes.resize(1 + 2 * na);
        wrapper_of.resize(na);
        for (std::size_t k = 0; k < na; ++k)
            wrapper_of[k] = static_cast<size_type>(1 + 2 * k);

        // global unit: world box, the box holding the top array, the rest
        {
            auto wh = spec.at("world").get<std::vector<double>>();
            auto pl = spec.at("place").get<std::vector<double>>();
            Real3 place{pl[0], pl[1], pl[2]};
            Real3 alo = lo_of(arrays[0]), ahi = hi_of(arrays[0]);
            for (int i = 0; i < 3; ++i)
            {
                alo[i] += place[i];
                ahi[i] += place[i];
            }
            UnitInput g;
            g.label = Label{"global"};
            Real3 wlo{-wh[0], -wh[1], -wh[2]}, whi{wh[0], wh[1], wh[2]};
            g.bbox = BBox{wlo, whi};
            box_surfaces(g, "outer", wlo, whi);
            box_surfaces(g, "arrfill", alo, ahi);
            VolumeInput ext = exterior(false);
            for (size_type f = 0; f < 6; ++f)
                ext.faces.push_back(LocalSurfaceId{f});
            ext.logic.clear();
            box_logic(ext.logic, 0);
            ext.logic.push_back(logic::lnot);
            ext.flags = VolumeRecord::internal_surfaces;
            VolumeInput fill;
            fill.label = Label{"arrfill"};
            for (size_type f = 6; f < 12; ++f)
                fill.faces.push_back(LocalSurfaceId{f});
            box_logic(fill.logic, 0);
            fill.bbox = BBox{alo, ahi};
            fill.zorder = ZOrder::media;
            VolumeInput rest;
            rest.label = Label{"interior"};
            for (size_type f = 0; f < 12; ++f)
                rest.faces.push_back(LocalSurfaceId{f});
            box_logic(rest.logic, 0);
            box_logic(rest.logic, 6);
            rest.logic.push_back(logic::lnot);
            rest.logic.push_back(logic::land);
            rest.bbox = BBox{wlo, whi};
            rest.flags = VolumeRecord::internal_surfaces;
            rest.zorder = ZOrder::media;
            g.volumes = {ext, fill, rest};
            g.daughter_map.emplace(LocalVolumeId{1}, DaughterInput{UniverseId{wrapper_of[0]}, tf(place)});
            inp.universes[0] = std::move(g);
        }
        for (std::size_t k = 0; k < na; ++k)
        {
            json const& a = arrays[k];
            Real3 alo = lo_of(a), ahi = hi_of(a);
            std::string name = "arr" + std::to_string(k);
            // wrapper
            UnitInput w;
            w.label = Label{name};
            w.bbox = BBox{alo, ahi};
            w.volumes.push_back(exterior(true));
            VolumeInput all;
            all.label = Label{name + "+"};
            all.logic = {logic::ltrue};
            all.bbox = BBox{alo, ahi};
            all.zorder = ZOrder::array;
            w.volumes.push_back(std::move(all));
            w.daughter_map.emplace(LocalVolumeId{1}, DaughterInput{UniverseId{static_cast<size_type>(2 + 2 * k)}, NoTransformation{}});
            inp.universes[1 + 2 * k] = std::move(w);
            // the array itself
            RectArrayInput r;
            r.label = Label{name + "+"};
            for (int ax = 0; ax < 3; ++ax)
                r.grid[ax] = a.at("grid")[ax].get<std::vector<double>>();
            std::size_t n[3] = {r.grid[0].size() - 1, r.grid[1].size() - 1, r.grid[2].size() - 1};
            auto const& cells = a.at("cells");
            if (cells.size() != n[0] * n[1] * n[2])
                throw std::runtime_error("harness: array spec has the wrong number of cells");
            std::size_t c = 0;
            for (std::size_t i = 0; i < n[0]; ++i)
                for (std::size_t j = 0; j < n[1]; ++j)
                    for (std::size_t kk = 0; kk < n[2]; ++kk, ++c)
                    {
                        Real3 clo{r.grid[0][i], r.grid[1][j], r.grid[2][kk]};
                        Real3 chi{r.grid[0][i + 1], r.grid[1][j + 1], r.grid[2][kk + 1]};
                        Real3 w3{chi[0] - clo[0], chi[1] - clo[1], chi[2] - clo[2]};
                        std::string kind = cells[c][0].get<std::string>();
                        DaughterInput d;
                        if (kind == "C")
                        {
                            d.universe_id = UniverseId{leaf(false, w3)};
                            d.transform = tf(clo);
                        }
                        else if (kind == "T")
                        {
                            d.universe_id = UniverseId{leaf(true, w3)};
                            d.transform = tf(Real3{(clo[0] + chi[0]) / 2, (clo[1] + chi[1]) / 2, (clo[2] + chi[2]) / 2});
                        }
                        else
                        {
                            std::size_t sub = cells[c][1].get<std::size_t>();
                            Real3 slo = lo_of(arrays.at(sub));
                            d.universe_id = UniverseId{wrapper_of.at(sub)};
                            d.transform = tf(Real3{clo[0] - slo[0], clo[1] - slo[1], clo[2] - slo[2]});
                        }
                        r.daughters.push_back(std::move(d));
                    }
            inp.universes[2 + 2 * k] = std::move(r);
        }
    }
};

bool json_has_involute(json const& j)
{
    auto us = j.find("universes");
    if (us == j.end())
        return false;
    for (auto const& u : *us)
    {
        auto s = u.find("surfaces");
        if (s == u.end() || !s->contains("types"))
            continue;
        for (auto const& t : s->at("types"))
            if (t.get<std::string>() == "inv")
                return true;
    }
    return false;
}

// Try the reader in a child process: "ok", "exit N" (exception) or "signal N" (crash)
std::string try_read_in_child(std::string const& text)
{
    if (g_out)
        g_out->flush();
    pid_t pid = fork();
    if (pid < 0)
        return "fork failed";
    if (pid == 0)
    {
        std::signal(SIGSEGV, SIG_DFL);
        std::signal(SIGABRT, SIG_DFL);
        std::signal(SIGFPE, SIG_DFL);
        std::set_terminate([] { std::_Exit(8); });
        alarm(30);
        try
        {
            OrangeInput b;
            std::istringstream is(text);
            is >> b;
            std::_Exit(b ? 0 : 9);
        }
        catch (...)
        {
            std::_Exit(7);
        }
    }
    int st = 0;
    waitpid(pid, &st, 0);
    if (WIFSIGNALED(st))
        return "signal " + std::to_string(WTERMSIG(st));
    return WEXITSTATUS(st) == 0 ? "ok" : "exit " + std::to_string(WEXITSTATUS(st));
}

// Straight rays: per ray a flat list  label, dist-token, label, dist-token, ...
json trace_rays(std::shared_ptr<OrangeParams const> params,
                int nrays,
                unsigned seed,
                Names& names,
                verif::Interner& tok,
                std::size_t* segments)
{
    Nav nav(params);
    BBox bb = params->bbox();
    Real3 lo, hi;
    for (int i = 0; i < 3; ++i)
    {
        lo[i] = std::isfinite(bb.lower()[i]) ? bb.lower()[i] : -100.0;
        hi[i] = std::isfinite(bb.upper()[i]) ? bb.upper()[i] : 100.0;
    }
    std::mt19937_64 rng(seed);
    std::uniform_real_distribution<double> u01(0.0, 1.0);
    json rays = json::array();
    for (int r = 0; r < nrays; ++r)
    {
        Real3 pos, dir;
        for (int i = 0; i < 3; ++i)
            pos[i] = lo[i] + (hi[i] - lo[i]) * u01(rng);
        double mu = 2 * u01(rng) - 1, phi = 6.283185307179586 * u01(rng), st = std::sqrt(1 - mu * mu);
        dir = Real3{st * std::cos(phi), st * std::sin(phi), mu};
        json seq = json::array();
        auto& v = nav.view();
        v = GeoTrackInitializer{pos, dir};
        seq.push_back(names(v.failed() ? "!failed:" + nav.label() : nav.label()));
        for (int k = 0; k < 400 && !v.failed() && !v.is_outside(); ++k)
        {
            Propagation pr = v.find_next_step();
            seq.push_back(tok(pr.distance));
            if (!pr.boundary)
            {
                seq.push_back(names("!noboundary"));
                break;
            }
            v.move_to_boundary();
            v.cross_boundary();
            seq.push_back(names(v.failed() ? "!failed:" + nav.label() : nav.label()));
            ++*segments;
        }
        rays.push_back(std::move(seq));
    }
    return rays;
}

int run_roundtrip(std::string const& scenes_path,
                  std::string const& fixtures_path,
                  std::string const& out_path,
                  int nrays,
                  unsigned seed)
{
    verif::NdjsonWriter out(out_path);
    g_out = &out;
    struct Item
    {
        std::string name, kind;
        json scene;
        std::string file;
    };
    std::vector<Item> items;
    {
        std::ifstream fin(fixtures_path);
        std::string f;
        while (std::getline(fin, f))
            if (!f.empty())
            {
                // name = <test dir>/<file>, e.g. orange/rect-array.org.json
                auto p1 = f.rfind('/');
                auto p2 = f.rfind("/data/");
                auto p3 = p2 == std::string::npos ? std::string::npos : f.rfind('/', p2 - 1);
                std::string dir = (p2 != std::string::npos && p3 != std::string::npos) ? f.substr(p3 + 1, p2 - p3 - 1) + "/" : "";
                items.push_back({dir + f.substr(p1 + 1), "fixture", {}, f});
            }
        std::ifstream sin(scenes_path);
        std::string line;
        while (std::getline(sin, line))
            if (!line.empty())
            {
                json s = json::parse(line);
                if (s.contains("arrays"))
                    items.push_back({s.at("name").get<std::string>(), "array", s, ""});
                else
                    items.push_back({"scene" + std::to_string(s.at("id").get<int>()), "scene", s, ""});
            }
    }
    for (auto const& it : items)
    {
        g_where = it.name;
        try
        {
            OrangeInput a;
            if (it.kind == "fixture")
            {
                std::ifstream f(it.file);
                std::stringstream ss;
                ss << f.rdbuf();
                if (json_has_involute(json::parse(ss.str())))
                {
                    // the READER cannot construct involute surfaces (CELER_ASSERT_UNREACHABLE):
                    // confirm in a child process; if the reader copes, go on with the round trip
                    std::string child = try_read_in_child(ss.str());
                    if (child != "ok")
                    {
                        out(json{{"e", "Deviation"}, {"name", it.name}, {"kind", it.kind}, {"dev", "InvoluteReadUnimplemented"},
                                 {"stage", "load"}, {"child", child}});
                        continue;
                    }
                }
                std::ifstream f2(it.file);
                f2 >> a;
            }
            else
            {
                if (it.scene.contains("arrays"))
                    a = ArrayInputBuilder(it.scene).inp;
                else
                    a = build_scene(it.scene).input;
            }
            Proj pa;
            project(a, pa);
            std::ostringstream os;
            os << a;  // the writer under test
            std::string text = os.str();
            if (json_has_involute(json::parse(text)))
            {
                std::string child = try_read_in_child(text);
                if (child != "ok")
                {
                    out(json{{"e", "Deviation"}, {"name", it.name}, {"kind", it.kind}, {"dev", "InvoluteReadUnimplemented"},
                             {"stage", "reread"}, {"child", child}});
                    continue;
                }
            }
            OrangeInput b;
            std::istringstream is(text);
            is >> b;  // the reader under test
            Proj pb;
            project(b, pb);
            out(json{{"e", "RT"}, {"name", it.name}, {"kind", it.kind}, {"bytes", text.size()},
                     {"before", pa.listed}, {"after", pb.listed},
                     {"unl_before", pa.unlisted}, {"unl_after", pb.unlisted}});
            // navigation on both
            Names names;
            verif::Interner tok;
            std::size_t segs = 0;
            json ra, rb;
            std::string nav_err;
            try
            {
                OrangeInput a2 = a;
                auto pa_params = std::make_shared<OrangeParams>(std::move(a2));
                auto pb_params = std::make_shared<OrangeParams>(std::move(b));
                ra = trace_rays(pa_params, nrays, seed, names, tok, &segs);
                std::size_t segs_b = 0;
                rb = trace_rays(pb_params, nrays, seed, names, tok, &segs_b);
            }
            catch (std::exception const& e)
            {
                nav_err = what_of(e);
                ra = json::array();
                rb = json::array();
            }
            out(json{{"e", "Nav"}, {"name", it.name}, {"a", ra}, {"b", rb}, {"segments", segs}, {"err", nav_err}});
        }
        catch (std::exception const& e)
        {
            out(json{{"e", "Error"}, {"name", it.name}, {"kind", it.kind}, {"msg", what_of(e)}});
        }
        out.flush();
    }
    out(json{{"e", "Close"}});
    out.flush();
    return 0;
}
//---------------------------------------------------------------------------//
// C10 (second sentence, production pipeline): the OrangeInput of every scene -- logic, faces and flags exactly as
// UnitProto::build + InputBuilder leave them -- written as JSON for `vcsg fix` (stored logic vs the postfix
// machine of spec/Csg.tla; a volume not flagged `internal surfaces` must be a conjunction of literals)
//---------------------------------------------------------------------------//
int run_export(std::string const& scenes_path, std::string const& out_dir, std::string const& list_path)
{
    std::ifstream in(scenes_path);
    if (!in)
    {
        std::cerr << "cannot open " << scenes_path << std::endl;
        return 3;
    }
    std::ofstream list(list_path);
    std::string line;
    while (std::getline(in, line))
    {
        if (line.empty())
            continue;
        json scene = json::parse(line);
        std::string name = out_dir + "/scene" + std::to_string(scene.at("id").get<int>()) + ".org.json";
        try
        {
            OrangeInput a = build_scene(scene).input;
            std::ofstream os(name);
            os << a;
            list << name << "\n";
        }
        catch (std::exception const& e)
        {
            list << "!" << name << " " << what_of(e) << "\n";   // construction failures are C09's business
        }
    }
    return 0;
}
}  // namespace

int main(int argc, char** argv)
{
    std::set_terminate(on_terminate);
    std::signal(SIGSEGV, on_signal);
    std::signal(SIGABRT, on_signal);
    std::signal(SIGFPE, on_signal);
    std::string mode = argc > 1 ? argv[1] : "";
    if (mode == "probe" && argc == 4)
        return run_probe(argv[2], argv[3]);
    if (mode == "roundtrip" && argc == 7)
        return run_roundtrip(argv[2], argv[3], argv[4], std::atoi(argv[5]), static_cast<unsigned>(std::atol(argv[6])));
    if (mode == "export" && argc == 5)
        return run_export(argv[2], argv[3], argv[4]);
    std::cerr << "usage: vbuild probe scenes out | vbuild roundtrip scenes fixtures out nrays seed | vbuild export scenes dir list"
              << std::endl;
    return 3;
}
