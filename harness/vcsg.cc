// C10 harness: drive the REAL orangeinp::CsgTree, its rewriting utilities
// (simplify, exchange, replace_and_simplify, transform_negated_joins), the logic
// builders (PostfixLogicBuilder, build_infix_string, InternalSurfaceFlagger) and the
// runtime evaluators (LogicEvaluator, InfixEvaluator); log ndjson records with the
// arguments and the observed results (full node lists, returned ids, logic vectors,
// evaluator outputs on all 2^ns sense assignments).
//
// This program computes NO expected values: the semantics live in spec/Csg.tla and every
// record is validated by TLC with spec/CsgTrace.tla.
//
// Modes
//   exh   <ns> <depth> <split> <nshards> <shard> <out>   exhaustive small scope (DFS over all
//         growing inserts; at every tree: every request of the alphabet + every rewrite)
//   rand  <seed> <nprog> <maxsurf> <maxnodes> <out>      seeded random large programs
//   fix   <seed> <out> <file.org.json>...                stored logic of bundled geometries
#include <algorithm>
#include <exception>
#include <fstream>
#include <set>
#include <sstream>

#include "corecel/Assert.hh"
#include "corecel/cont/Range.hh"
#include "corecel/cont/Span.hh"
#include "orange/OrangeTypes.hh"
#include "orange/detail/OrangeInputIOImpl.json.hh"
#include "orange/orangeinp/CsgTree.hh"
#include "orange/orangeinp/CsgTreeUtils.hh"
#include "orange/orangeinp/CsgTypes.hh"
#include "orange/orangeinp/detail/InternalSurfaceFlagger.hh"
#include "orange/orangeinp/detail/PostfixLogicBuilder.hh"
#include "orange/univ/detail/InfixEvaluator.hh"
#include "orange/univ/detail/LogicEvaluator.hh"

#include "vjson.hh"

using namespace celeritas;
using namespace celeritas::orangeinp;
using verif::json;

namespace
{
//---------------------------------------------------------------------------//
verif::NdjsonWriter* g_out = nullptr;

[[noreturn]] void on_terminate()
{
    if (g_out)
    {
        (*g_out)(json{{"e", "Abort"}, {"what", "terminate"}});
        g_out->flush();
    }
    std::_Exit(4);
}

//---------------------------------------------------------------------------//
// Observation helpers: C++ objects -> JSON (no interpretation)
struct NodeToJson
{
    json operator()(True const&) const { return {{"k", "true"}, {"a", json::array()}}; }
    json operator()(False const&) const { return {{"k", "false"}, {"a", json::array()}}; }
    json operator()(Aliased const& n) const
    {
        return {{"k", "alias"}, {"a", json::array({n.node.unchecked_get()})}};
    }
    json operator()(Negated const& n) const
    {
        return {{"k", "not"}, {"a", json::array({n.node.unchecked_get()})}};
    }
    json operator()(Surface const& s) const
    {
        return {{"k", "surf"}, {"a", json::array({s.id.unchecked_get()})}};
    }
    json operator()(Joined const& j) const
    {
        json a = json::array();
        for (auto n : j.nodes)
            a.push_back(n.unchecked_get());
        return {{"k", j.op == op_and ? "and" : j.op == op_or ? "or" : "badop"}, {"a", a}};
    }
};

json to_json(Node const& n)
{
    return std::visit(NodeToJson{}, n);
}

json to_json(CsgTree const& t)
{
    json a = json::array();
    for (auto n : range(NodeId{t.size()}))
        a.push_back(to_json(t[n]));
    return a;
}

json ids_json(std::vector<NodeId> const& v)
{
    json a = json::array();
    for (auto n : v)
        a.push_back(n.unchecked_get());
    return a;
}

//! logic_int as int32 (operator tokens are the highest uint32 values -> -7..-2)
int tok32(logic_int v)
{
    return static_cast<int>(static_cast<std::int32_t>(v));
}

json logic_json(std::vector<logic_int> const& v)
{
    json a = json::array();
    for (auto t : v)
        a.push_back(tok32(t));
    return a;
}

bool prefix_same(CsgTree const& before, CsgTree const& after)
{
    if (after.size() < before.size())
        return false;
    for (auto n : range(NodeId{before.size()}))
    {
        if (!(before[n] == after[n]))
            return false;
    }
    return true;
}

//---------------------------------------------------------------------------//
// Requests (the user-facing node to insert), kept as plain data
struct Req
{
    std::string k;
    std::vector<unsigned> a;
};

json to_json(Req const& r)
{
    return {{"k", r.k}, {"a", r.a}};
}

Node make_node(Req const& r)
{
    if (r.k == "true")
        return True{};
    if (r.k == "false")
        return False{};
    if (r.k == "surf")
        return Surface{LocalSurfaceId{r.a.at(0)}};
    if (r.k == "not")
        return Negated{NodeId{r.a.at(0)}};
    Joined j;
    j.op = (r.k == "and") ? op_and : op_or;
    for (auto n : r.a)
        j.nodes.push_back(NodeId{n});
    return j;
}

//! The request alphabet for a tree of the given size, in the canonical order of
//! spec/CsgMC.tla AllOps (operand multisets in lexicographic order, passed descending)
std::vector<Req> all_requests(unsigned ns, unsigned size)
{
    std::vector<Req> out;
    out.push_back({"true", {}});
    out.push_back({"false", {}});
    for (unsigned s = 0; s < ns; ++s)
        out.push_back({"surf", {s}});
    for (unsigned n = 0; n < size; ++n)
        out.push_back({"not", {n}});
    for (char const* op : {"and", "or"})
    {
        out.push_back({op, {}});
        for (unsigned a = 0; a < size; ++a)
            out.push_back({op, {a}});
        for (unsigned a = 0; a < size; ++a)
            for (unsigned b = a; b < size; ++b)
                out.push_back({op, {b, a}});
        for (unsigned a = 0; a < size; ++a)
            for (unsigned b = a; b < size; ++b)
                for (unsigned c = b; c < size; ++c)
                    out.push_back({op, {c, b, a}});
    }
    return out;
}

//---------------------------------------------------------------------------//
// Sense assignments: bit s of `a` is the truth value of surface s (true = outside)
inline bool bit(unsigned long a, unsigned s)
{
    return (a >> s) & 1ul;
}

//! Pack a vector of booleans 30 per integer, least significant bit first (the layout of the
//! truth tables of spec/Csg.tla: representation only, no interpretation)
class BitPacker
{
  public:
    void push(bool b)
    {
        if (b)
            cur_ |= (1u << nbits_);
        if (++nbits_ == 30)
            flush();
    }
    json finish()
    {
        if (nbits_ > 0)
            flush();
        return std::move(limbs_);
    }

  private:
    void flush()
    {
        limbs_.push_back(cur_);
        cur_ = 0;
        nbits_ = 0;
    }
    json limbs_ = json::array();
    unsigned cur_{0};
    unsigned nbits_{0};
};

//! Run the real LogicEvaluator on all 2^ns assignments; entry a is its value on assignment a
json eval_postfix_all(std::vector<LocalSurfaceId> const& faces,
                      std::vector<logic_int> const& logic,
                      unsigned ns)
{
    BitPacker ev;
    celeritas::detail::LogicEvaluator eval{make_span(logic)};
    std::vector<Sense> senses(faces.size());
    for (unsigned long a = 0; a < (1ul << ns); ++a)
    {
        for (std::size_t f = 0; f < faces.size(); ++f)
            senses[f] = to_sense(bit(a, faces[f].unchecked_get()));
        ev.push(eval(make_span(senses)));
    }
    return ev.finish();
}

//! Budget for the validation work of one encoding (tokens x assignments): longer logic
//! (exponential DAG expansion of shared sub-expressions) is not logged, only counted
constexpr unsigned long max_encoding_work = 200000;

//! Lex the string of build_infix_string into the integer tokens of spec/Csg.tla
//! (all -1, any -2, ( -3, ) -4, "," -5, ! -6, T -7, F -8, +k -> 2k, -k -> 2k+1)
std::vector<int> lex_infix(std::string const& s)
{
    std::vector<int> out;
    std::size_t i = 0;
    while (i < s.size())
    {
        char c = s[i];
        if (c == ' ')
        {
            ++i;
        }
        else if (s.compare(i, 3, "all") == 0)
        {
            out.push_back(-1);
            i += 3;
        }
        else if (s.compare(i, 3, "any") == 0)
        {
            out.push_back(-2);
            i += 3;
        }
        else if (c == '(' || c == ')' || c == ',' || c == '!' || c == 'T' || c == 'F')
        {
            out.push_back(c == '(' ? -3 : c == ')' ? -4 : c == ',' ? -5 : c == '!' ? -6 : c == 'T' ? -7 : -8);
            ++i;
        }
        else if (c == '+' || c == '-')
        {
            std::size_t j = i + 1;
            int v = 0;
            while (j < s.size() && s[j] >= '0' && s[j] <= '9')
                v = 10 * v + (s[j++] - '0');
            out.push_back(j == i + 1 ? -98 : 2 * v + (c == '-' ? 1 : 0));
            i = j;
        }
        else
        {
            out.push_back(-99);  // unknown character: the spec's machine rejects it
            ++i;
        }
    }
    return out;
}

//! Transliterate a (negation-free except on literals) infix string into the explicit infix
//! logic understood by the runtime InfixEvaluator: all(x, y) -> ( x & y ), any -> ( x | y ),
//! +k -> k, -k -> ~ k, T -> *.  Returns false when not expressible ("!" or "F" present).
bool infix_tokens(std::vector<int> const& lexed, std::vector<logic_int>* out)
{
    std::vector<logic_int> ops;
    for (int t : lexed)
    {
        if (t >= 0)
        {
            if (t % 2)
                out->push_back(logic::lnot);
            out->push_back(static_cast<logic_int>(t / 2));
        }
        else if (t == -1 || t == -2)
        {
            ops.push_back(t == -1 ? logic::land : logic::lor);
            out->push_back(logic::lopen);
        }
        else if (t == -3)
        {
        }
        else if (t == -4)
        {
            if (ops.empty())
                return false;
            ops.pop_back();
            out->push_back(logic::lclose);
        }
        else if (t == -5)
        {
            if (ops.empty())
                return false;
            out->push_back(ops.back());
        }
        else if (t == -7)
        {
            out->push_back(logic::ltrue);
        }
        else
        {
            return false;
        }
    }
    return true;
}

//! Encodings of a set of nodes of a tree: postfix (+ real evaluator), infix string, flag
json rec_encode(CsgTree const& tree, std::vector<NodeId> const& nodes, unsigned ns)
{
    json out = json::array();
    unsigned toolong = 0;
    orangeinp::detail::PostfixLogicBuilder build_logic{tree};
    orangeinp::detail::InternalSurfaceFlagger has_internal{tree};
    for (NodeId n : nodes)
    {
        auto [faces, logic] = build_logic(n);
        if (logic.size() * (1ul << ns) > max_encoding_work)
        {
            ++toolong;
            continue;
        }
        json e;
        e["n"] = n.unchecked_get();
        json jf = json::array();
        for (auto f : faces)
            jf.push_back(f.unchecked_get());
        e["faces"] = jf;
        e["logic"] = logic_json(logic);
        e["ev"] = eval_postfix_all(faces, logic, ns);
        e["infix"] = lex_infix(build_infix_string(tree, n));
        e["internal"] = static_cast<bool>(has_internal(n));
        out.push_back(std::move(e));
    }
    return json{{"e", "Enc"}, {"nodes", out}, {"toolong", toolong}};
}

std::vector<NodeId> all_ids(CsgTree const& t, unsigned from = 0)
{
    std::vector<NodeId> v;
    for (auto n : range(NodeId{from}, NodeId{t.size()}))
        v.push_back(n);
    return v;
}

//---------------------------------------------------------------------------//
// Rewrites, each on a COPY of the tree

json rec_simplify(CsgTree tree, unsigned start)
{
    json r{{"e", "Simplify"}, {"start", start}};
    orangeinp::simplify(&tree, NodeId{start});
    r["after"] = to_json(tree);
    return r;
}

json rec_exchange(CsgTree tree, unsigned n, bool val, unsigned start)
{
    json r{{"e", "Exchange"}, {"n", n}, {"val", val}, {"start", start}};
    tree.exchange(NodeId{n}, val ? Node{True{}} : Node{False{}});
    r["after"] = to_json(tree);
    orangeinp::simplify(&tree, NodeId{start});
    r["simp"] = to_json(tree);
    return r;
}

//! replace_and_simplify; *result receives the rewritten tree when it returned normally
json rec_replace(CsgTree tree, unsigned key, bool val, CsgTree* result, bool* ok)
{
    json r{{"e", "Replace"}, {"key", key}, {"val", val}};
    *ok = false;
    try
    {
        auto unknown
            = replace_and_simplify(&tree, NodeId{key}, val ? Node{True{}} : Node{False{}});
        r["out"] = "ok";
        r["unknown"] = ids_json(unknown);
        r["after"] = to_json(tree);
        *ok = true;
        *result = std::move(tree);
    }
    catch (RuntimeError const& e)
    {
        std::string what = e.what();
        r["out"] = what.find("logical contradiction") != std::string::npos ? "contradiction"
                                                                            : "error";
        r["what"] = what.substr(0, 300);
    }
    catch (std::exception const& e)
    {
        r["out"] = "error";
        r["what"] = std::string(e.what()).substr(0, 300);
    }
    return r;
}

json rec_demorgan(CsgTree tree, std::vector<NodeId> const& vols, unsigned ns)
{
    json r{{"e", "DeMorgan"}, {"vols", ids_json(vols)}};
    for (auto v : vols)
        tree.insert_volume(v);
    CsgTree result = transform_negated_joins(tree);
    r["after"] = to_json(result);
    r["avols"] = ids_json(result.volumes());

    // Runtime InfixEvaluator on every volume of the transformed tree
    json inf = json::array();
    unsigned toolong = 0;
    unsigned vi = 0;
    for (NodeId v : result.volumes())
    {
        unsigned const i = vi++;
        auto lexed = lex_infix(build_infix_string(result, v));
        if (lexed.size() * (1ul << ns) > max_encoding_work)
        {
            ++toolong;
            continue;
        }
        json e;
        e["i"] = i;
        e["n"] = v.unchecked_get();
        e["str"] = lexed;
        std::vector<logic_int> toks;
        if (infix_tokens(lexed, &toks) && !toks.empty())
        {
            e["toks"] = logic_json(toks);
            celeritas::detail::InfixEvaluator eval{make_span(toks)};
            BitPacker ev;
            for (unsigned long a = 0; a < (1ul << ns); ++a)
            {
                ev.push(eval([a](FaceId f) { return bit(a, f.unchecked_get()); }));
            }
            e["ev"] = ev.finish();
            e["skip"] = false;
        }
        else
        {
            e["skip"] = true;  // contains "!" or "F": not expressible for InfixEvaluator
            e["toks"] = json::array();
            e["ev"] = json::array();
        }
        inf.push_back(std::move(e));
    }
    r["inf"] = inf;
    r["toolong"] = toolong;
    return r;
}

//---------------------------------------------------------------------------//
// EXHAUSTIVE MODE
struct Exh
{
    unsigned ns;
    unsigned depth;  // number of growing inserts
    unsigned split;  // blocks at this depth are distributed over the shards
    unsigned nshards;
    unsigned shard;
    verif::NdjsonWriter& out;
    unsigned long split_index{0};
    unsigned long blocks{0};

    void post_ops(CsgTree const& tree)
    {
        unsigned const size = tree.size();
        out(rec_encode(tree, all_ids(tree), ns));
        if (size > 2)
            out(rec_simplify(tree, 2));
        for (unsigned n = 2; n < size; ++n)
            for (bool val : {false, true})
                out(rec_exchange(tree, n, val, n));
        // De Morgan with every node a volume, and with each single node as the only volume
        out(rec_demorgan(tree, all_ids(tree), ns));
        for (unsigned n = 2; n < size; ++n)
            out(rec_demorgan(tree, {NodeId{n}}, ns));
        // Replace each node by each constant; the rewritten tree is encoded again
        for (unsigned key = 0; key < size; ++key)
            for (bool val : {false, true})
            {
                CsgTree t;
                bool ok = false;
                out(rec_replace(tree, key, val, &t, &ok));
                if (ok)
                {
                    out(json{{"e", "Tree"}, {"src", "derived"}, {"ns", ns}, {"tree", to_json(t)},
                             {"why", json{{"key", key}, {"val", val}}}});
                    out(rec_encode(t, all_ids(t), ns));
                }
            }
    }

    void visit(CsgTree const& tree, json const& prog, unsigned d)
    {
        if (d == split && nshards > 1)
        {
            unsigned long idx = split_index++;
            if (idx % nshards != shard)
            {
                out(json{{"e", "Skip"}, {"prog", prog}, {"owner", idx % nshards}});
                return;
            }
        }
        ++blocks;
        out(json{{"e", "Tree"}, {"src", "block"}, {"ns", ns}, {"tree", to_json(tree)},
                 {"prog", prog}, {"depth", d}});
        // every request of the alphabet, each on a copy
        auto reqs = all_requests(ns, tree.size());
        json res = json::array();
        std::vector<std::pair<CsgTree, json>> children;
        std::vector<Node> seen_last;
        for (Req const& rq : reqs)
        {
            CsgTree t = tree;
            auto [id, inserted] = t.insert(make_node(rq));
            json e{{"op", to_json(rq)},
                   {"id", id.unchecked_get()},
                   {"new", inserted},
                   {"size", t.size()},
                   {"same", prefix_same(tree, t)},
                   {"last", to_json(t[NodeId{t.size() - 1}])}};
            res.push_back(std::move(e));
            if (t.size() == tree.size() + 1 && d < depth)
            {
                Node const& last = t[NodeId{t.size() - 1}];
                if (std::find(seen_last.begin(), seen_last.end(), last) == seen_last.end())
                {
                    seen_last.push_back(last);
                    json p = prog;
                    p.push_back(to_json(rq));
                    children.emplace_back(std::move(t), std::move(p));
                }
            }
        }
        out(json{{"e", "Inserts"}, {"r", res}});
        post_ops(tree);
        for (auto& [t, p] : children)
            visit(t, p, d + 1);
    }
};

void mode_exh(unsigned ns, unsigned depth, unsigned split, unsigned nshards, unsigned shard,
              std::string const& path)
{
    verif::NdjsonWriter out(path);
    g_out = &out;
    Exh exh{ns, depth, split, nshards, shard, out};
    out(json{{"e", "Exh"}, {"ns", ns}, {"depth", depth}, {"split", split}, {"nshards", nshards},
             {"shard", shard}});
    exh.visit(CsgTree{}, json::array(), 0);
    out(json{{"e", "ExhEnd"}, {"blocks", exh.blocks}});
    out.flush();
    std::cerr << "exh: blocks " << exh.blocks << " records " << out.count() << std::endl;
}

//---------------------------------------------------------------------------//
// RANDOM MODE
struct Rng
{
    std::mt19937_64 gen;
    unsigned operator()(unsigned n) { return static_cast<unsigned>(gen() % n); }  // 0..n-1
    bool chance(unsigned percent) { return (*this)(100) < percent; }
};

void random_program(Rng& rng, unsigned maxsurf, unsigned maxnodes, verif::NdjsonWriter& out)
{
    // 2..maxsurf surfaces, small counts more likely (validation cost grows with 2^ns)
    unsigned const ns = 2 + std::min(rng(maxsurf - 1), rng(maxsurf - 1));
    unsigned const target = 8 + rng(maxnodes - 7);  // 8..maxnodes
    bool const deep = rng.chance(25);
    CsgTree tree;
    json ops = json::array();

    auto do_insert = [&](Req const& rq) {
        CsgTree before = tree;
        auto [id, inserted] = tree.insert(make_node(rq));
        ops.push_back(json{{"op", to_json(rq)},
                           {"id", id.unchecked_get()},
                           {"new", inserted},
                           {"size", tree.size()},
                           {"same", prefix_same(before, tree)},
                           {"last", to_json(tree[NodeId{tree.size() - 1}])}});
        return id.unchecked_get();
    };
    // pick an existing node: mostly uniform over the non-constant nodes (shared
    // sub-expressions), sometimes one of the most recent (nesting), rarely a constant
    auto pick = [&]() -> unsigned {
        unsigned size = tree.size();
        if (size <= 2 || rng.chance(3))
            return rng(2);
        if (rng.chance(30) && size > 6)
            return size - 1 - rng(4);
        return 2 + rng(size - 2);
    };

    // surfaces in random order (some twice: deduplicated)
    std::vector<unsigned> surfs(ns);
    for (unsigned s = 0; s < ns; ++s)
        surfs[s] = s;
    std::shuffle(surfs.begin(), surfs.end(), rng.gen);
    for (unsigned s : surfs)
        do_insert({"surf", {s}});

    unsigned chain = 0;
    unsigned guard = 0;
    while (tree.size() < target && ++guard < 4 * maxnodes)
    {
        unsigned r = rng(100);
        if (deep && chain != 0 && r < 70)
        {
            // extend a chain: op(leaf, chain) with alternating operators
            unsigned leaf = 2 + rng(std::min<unsigned>(tree.size() - 2, ns + 4));
            chain = do_insert({(guard % 2) ? "and" : "or", {chain, leaf}});
            continue;
        }
        if (r < 5)
        {
            do_insert({"surf", {rng(ns)}});
        }
        else if (r < 28)
        {
            do_insert({"not", {pick()}});
        }
        else
        {
            unsigned nop = 2 + (rng.chance(40) ? rng(4) : 0);
            std::vector<unsigned> operands;
            for (unsigned i = 0; i < nop; ++i)
                operands.push_back(pick());
            if (rng.chance(12))
                operands.push_back(operands[rng(operands.size())]);  // duplicate operand
            if (rng.chance(12))
            {
                // complementary operands: x together with ~x
                unsigned x = operands[rng(operands.size())];
                operands.push_back(do_insert({"not", {x}}));
            }
            if (rng.chance(4))
                operands.push_back(rng(2));  // a constant operand
            std::shuffle(operands.begin(), operands.end(), rng.gen);
            chain = do_insert({rng.chance(50) ? "and" : "or", operands});
        }
    }

    // volumes: a few nodes, mostly near the top
    std::vector<NodeId> vols;
    unsigned nvol = 2 + rng(4);
    for (unsigned i = 0; i < nvol; ++i)
        vols.push_back(NodeId{pick()});
    vols.push_back(NodeId{tree.size() - 1});

    out(json{{"e", "Build"}, {"ns", ns}, {"ops", ops}, {"tree", to_json(tree)},
             {"vols", ids_json(vols)}, {"deep", deep}});
    // encodings of the volumes and a few other nodes
    std::vector<NodeId> nodes = vols;
    for (unsigned i = 0; i < 3; ++i)
        nodes.push_back(NodeId{rng(tree.size())});
    out(rec_encode(tree, nodes, ns));
    out(rec_simplify(tree, 2));
    out(rec_demorgan(tree, vols, ns));
    {
        unsigned n = 2 + rng(tree.size() - 2);
        out(rec_exchange(tree, n, rng.chance(50), n));
    }
    // the production pipeline: replace a volume ("exterior") by a constant, then encode
    for (unsigned rep = 0; rep < 3; ++rep)
    {
        unsigned key = rep == 0   ? vols[rng(vols.size())].unchecked_get()
                       : rep == 1 ? 2 + rng(tree.size() - 2)
                                  : 2 + rng(ns);
        bool val = rng.chance(50);
        CsgTree result;
        bool ok = false;
        out(rec_replace(tree, key, val, &result, &ok));
        if (ok)
        {
            out(json{{"e", "Tree"}, {"src", "derived"}, {"ns", ns}, {"tree", to_json(result)},
                     {"why", json{{"key", key}, {"val", val}}}});
            out(rec_encode(result, nodes, ns));
            // (no transform_negated_joins here: DeMorganSimplifier documents that its input
            // must not contain alias nodes or double negations, and it does crash on some)
        }
    }
}

void mode_rand(unsigned long seed, unsigned nprog, unsigned maxsurf, unsigned maxnodes,
               std::string const& path)
{
    verif::NdjsonWriter out(path);
    g_out = &out;
    Rng rng{std::mt19937_64{seed}};
    for (unsigned i = 0; i < nprog; ++i)
        random_program(rng, maxsurf, maxnodes, out);
    out.flush();
}

//---------------------------------------------------------------------------//
// FIXTURE MODE: stored logic of every volume of bundled .org.json files, evaluated by the
// real LogicEvaluator (the logic string is parsed by celeritas' own string_to_logic)
void mode_fix(unsigned long seed, std::string const& path, std::vector<std::string> const& files)
{
    verif::NdjsonWriter out(path);
    g_out = &out;
    std::mt19937_64 gen{seed};
    unsigned const max_exh_faces = 10;
    unsigned const nsample = 256;
    for (auto const& fn : files)
    {
        std::ifstream in(fn);
        json j = json::parse(in, nullptr, false);
        if (j.is_discarded() || !j.contains("universes"))
            continue;
        std::string base = fn.substr(fn.find_last_of('/') + 1);
        unsigned ui = 0;
        for (auto const& u : j["universes"])
        {
            char const* key = u.contains("volumes") ? "volumes" : u.contains("cells") ? "cells" : nullptr;
            if (key)
            {
                unsigned vi = 0;
                for (auto const& v : u[key])
                {
                    if (!v.contains("logic") || v["logic"].get<std::string>().empty())
                    {
                        // implicit (background) volume without logic: never evaluated
                        ++vi;
                        continue;
                    }
                    std::string ls = v["logic"].get<std::string>();
                    std::vector<logic_int> logic = celeritas::detail::string_to_logic(ls);
                    unsigned nf = v.contains("faces") ? v["faces"].size() : 0;
                    json r{{"e", "Fixture"}, {"file", base}, {"univ", ui}, {"vol", vi}, {"nf", nf},
                           {"text", ls}, {"logic", logic_json(logic)},
                           {"flags", v.value("flags", 0)}};
                    bool exh = nf <= max_exh_faces;
                    r["exh"] = exh;
                    // sampled sense vectors ("worlds"): all of them when few faces, else random
                    unsigned long n = exh ? (1ul << nf) : nsample;
                    std::vector<unsigned long> worlds(n);
                    for (unsigned long i = 0; i < n; ++i)
                        worlds[i] = exh ? i : (gen() & ((1ul << nf) - 1));
                    json cols = json::array();
                    for (unsigned f = 0; f < nf; ++f)
                    {
                        BitPacker col;
                        for (unsigned long a : worlds)
                            col.push(bit(a, f));
                        cols.push_back(col.finish());
                    }
                    BitPacker vals;
                    std::vector<Sense> senses(nf);
                    celeritas::detail::LogicEvaluator eval{make_span(logic)};
                    for (unsigned long a : worlds)
                    {
                        for (unsigned f = 0; f < nf; ++f)
                            senses[f] = to_sense(bit(a, f));
                        vals.push(eval(make_span(senses)));
                    }
                    r["n"] = n;
                    r["cols"] = cols;
                    r["vals"] = vals.finish();
                    out(r);
                    ++vi;
                }
            }
            ++ui;
        }
    }
    out.flush();
}

//---------------------------------------------------------------------------//
}  // namespace

int main(int argc, char** argv)
{
    std::set_terminate(on_terminate);
    std::string mode = argc > 1 ? argv[1] : "";
    try
    {
        if (mode == "exh" && argc == 8)
        {
            mode_exh(std::atoi(argv[2]), std::atoi(argv[3]), std::atoi(argv[4]),
                     std::atoi(argv[5]), std::atoi(argv[6]), argv[7]);
        }
        else if (mode == "rand" && argc == 7)
        {
            mode_rand(std::strtoul(argv[2], nullptr, 10), std::atoi(argv[3]), std::atoi(argv[4]),
                      std::atoi(argv[5]), argv[6]);
        }
        else if (mode == "fix" && argc >= 5)
        {
            std::vector<std::string> files(argv + 4, argv + argc);
            mode_fix(std::strtoul(argv[2], nullptr, 10), argv[3], files);
        }
        else
        {
            std::cerr << "usage: vcsg exh <ns> <depth> <split> <nshards> <shard> <out> | "
                         "rand <seed> <nprog> <maxsurf> <maxnodes> <out> | "
                         "fix <seed> <out> <file.org.json>...\n";
            return 2;
        }
    }
    catch (std::exception const& e)
    {
        // an unexpected exception is itself an observed event (never a truncated trace)
        if (g_out)
        {
            (*g_out)(json{{"e", "Abort"}, {"what", std::string(e.what()).substr(0, 500)}});
            g_out->flush();
        }
        std::cerr << "vcsg: exception: " << e.what() << std::endl;
        return 0;
    }
    return 0;
}
