// C08 harness: the REAL celeritas::FieldPropagator<DriverT, GTV> template
//  (1) `vfield scripted <scripts.ndjson> <out.ndjson>`   (replay of TLC behaviours)
//      instantiated over a SCRIPTED driver and a SCRIPTED 1-D geometry that answer by the
//      labels of spec/FieldPropMC.tla (relative to the arguments they are called with) and
//      record every call; lengths are dyadic (multiples of Q = 2^-20 cm) so that the code's
//      double arithmetic is exact and TLC can compare integers.
//  (2) `vfield real <out.ndjson> key=value...`           (trace validation)
//      instantiated over recording wrappers around the REAL FieldDriver (Dormand-Prince,
//      RK4, exact z-helix) and the REAL OrangeTrackView on bundled fixtures; one record per
//      call with the recorded call sequence, the result, the geometry state before/after
//      and ORACLE-DECIDED facts (labelled below).  All doubles of a record are replaced by
//      their dense ranks within the record (order-preserving), tolerances enter as
//      additional ranked values (brackets).
// The harness computes no expected values: expectations live in spec/FieldProp*.tla.
#include <algorithm>
#include <array>
#include <cmath>
#include <cstdlib>
#include <exception>
#include <fstream>
#include <iostream>
#include <memory>
#include <random>
#include <sstream>
#include <stdexcept>
#include <string>
#include <vector>

#include "corecel/cont/Array.hh"
#include "corecel/data/CollectionStateStore.hh"
#include "corecel/math/ArrayOperators.hh"
#include "corecel/math/ArrayUtils.hh"
#include "corecel/sys/ThreadId.hh"
#include "geocel/Types.hh"
#include "orange/OrangeData.hh"
#include "orange/OrangeParams.hh"
#include "orange/OrangeTrackView.hh"
#include "celeritas/Quantities.hh"
#include "celeritas/Units.hh"
#include "celeritas/field/DormandPrinceStepper.hh"
#include "celeritas/field/FieldDriver.hh"
#include "celeritas/field/FieldDriverOptions.hh"
#include "celeritas/field/FieldPropagator.hh"
#include "celeritas/field/MagFieldEquation.hh"
#include "celeritas/field/MakeMagFieldPropagator.hh"
#include "celeritas/field/RZMapField.hh"
#include "celeritas/field/RZMapFieldInput.hh"
#include "celeritas/field/RZMapFieldParams.hh"
#include "celeritas/field/RungeKuttaStepper.hh"
#include "celeritas/field/Types.hh"
#include "celeritas/field/UniformField.hh"
#include "celeritas/field/UniformZField.hh"
#include "celeritas/field/ZHelixStepper.hh"
#include "celeritas/phys/PDGNumber.hh"
#include "celeritas/phys/ParticleData.hh"
#include "celeritas/phys/ParticleParams.hh"
#include "celeritas/phys/ParticleTrackView.hh"

#include "vjson.hh"

using namespace celeritas;
using verif::json;

namespace
{
//---------------------------------------------------------------------------//
struct HangError : std::runtime_error
{
    using std::runtime_error::runtime_error;
};

verif::NdjsonWriter* g_out = nullptr;
void on_terminate()
{
    // a crash must never leave a truncated-but-acceptable trace: Abort is never enabled
    std::string what = "terminate";
    try
    {
        if (auto e = std::current_exception())
            std::rethrow_exception(e);
    }
    catch (std::exception const& ex)
    {
        what = ex.what();
    }
    catch (...)
    {
    }
    for (auto& c : what)
        if (static_cast<unsigned char>(c) >= 0x80)
            c = '?';
    if (g_out)
    {
        (*g_out)({{"e", "Abort"}, {"what", what.substr(0, 300)}});
        g_out->flush();
    }
    std::_Exit(0);
}

std::string clean(std::string s)
{
    for (auto& c : s)
        if (static_cast<unsigned char>(c) >= 0x80 || c == '"' || c == '\\' || c == '\n')
            c = '?';
    return s.substr(0, 200);
}

constexpr double electron_mass = 0.5109989461;

struct Particles
{
    std::shared_ptr<ParticleParams> params;
    CollectionStateStore<ParticleStateData, MemSpace::host> state;

    Particles()
    {
        using namespace units;
        ParticleParams::Input defs
            = {{"electron", pdg::electron(), MevMass{electron_mass}, ElementaryCharge{-1},
                constants::stable_decay_constant},
               {"positron", pdg::positron(), MevMass{electron_mass}, ElementaryCharge{1},
                constants::stable_decay_constant}};
        params = std::make_shared<ParticleParams>(std::move(defs));
        state = CollectionStateStore<ParticleStateData, MemSpace::host>(params->host_ref(), 1);
    }
    ParticleTrackView view(bool positron, double energy)
    {
        ParticleTrackView v{params->host_ref(), state.ref(), TrackSlotId{0}};
        v = {ParticleId{positron ? 1u : 0u}, units::MevEnergy{energy}};
        return v;
    }
};

double norm3(Real3 const& a)
{
    return std::sqrt(a[0] * a[0] + a[1] * a[1] + a[2] * a[2]);
}
Real3 unit3(Real3 a)
{
    double n = norm3(a);
    for (auto& x : a)
        x /= n;
    return a;
}
double dist3(Real3 const& a, Real3 const& b)
{
    return norm3(Real3{a[0] - b[0], a[1] - b[1], a[2] - b[2]});
}
Real3 cross3(Real3 const& a, Real3 const& b)
{
    return {a[1] * b[2] - a[2] * b[1], a[2] * b[0] - a[0] * b[2], a[0] * b[1] - a[1] * b[0]};
}
double dot3(Real3 const& a, Real3 const& b)
{
    return a[0] * b[0] + a[1] * b[1] + a[2] * b[2];
}
// angle between two (unit) vectors, accurate also for tiny angles
double angle3(Real3 const& a, Real3 const& b)
{
    return std::atan2(norm3(cross3(a, b)), dot3(a, b));
}
bool same_dir(Real3 const& a, Real3 const& b)
{
    return std::isfinite(a[0]) && std::isfinite(b[0]) && dist3(a, b) <= 1e-11;
}

//===========================================================================//
// SCRIPTED MODE
//===========================================================================//
constexpr double Q = 1.0 / 1048576.0;  // fine unit of the model, in cm (2^-20)

struct ScriptedWorld
{
    // parameters (model units)
    long step{}, minsub{}, delta{}, unit{}, x0{};
    int maxsub{};
    bool onb0{};
    std::vector<std::string> script;

    // environment state
    std::size_t n_adv{0}, n_find{0};
    double last_c{0};
    Real3 pos{0, 0, 0};
    Real3 dir{1, 0, 0};
    bool onb{false};
    bool has_next{false}, next_b{false};
    double next_d{0};
    double pmag{1};
    std::vector<Real3> momdir;  // token -> unit direction
    long ncalls{0};
    bool exact{true};
    json calls = json::array();

    std::string const& entry(std::size_t k) const
    {
        static std::string const dflt = "FSN";
        if (script.empty())
            return dflt;
        return script[std::min(k, script.size() - 1)];  // exhausted: repeat the last response
    }
    void tick()
    {
        if (++ncalls > 4000)
            throw HangError("call budget exceeded");
    }
    long q(double v)
    {
        double r = std::nearbyint(v / Q);
        if (!(r * Q == v) || std::fabs(r) > 1e9)
        {
            exact = false;
            if (!std::isfinite(r) || std::fabs(r) > 1e9)
                r = -999999;
        }
        return static_cast<long>(r);
    }
    static Real3 token_dir(std::size_t k)
    {
        double th = 0.3 + 0.17 * static_cast<double>(k);
        return {std::cos(th), std::sin(th), 0};
    }
    json classify(Real3 const& d) const
    {
        int ch = same_dir(d, Real3{1, 0, 0}) ? 1 : 0;
        json toks = json::array();
        for (std::size_t k = 0; k < momdir.size(); ++k)
            if (same_dir(d, momdir[k]))
                toks.push_back(static_cast<int>(k));
        return json::array({"SetDir", ch, toks});
    }
};

struct ScriptedDriver
{
    ScriptedWorld* w;

    DriverResult advance(real_type step, OdeState const& state)
    {
        w->tick();
        std::string const& e = w->entry(w->n_adv++);
        double const U = w->unit * Q;
        double s = step;
        switch (e[0])
        {
            case 'H': s = step / 2; break;
            case 'M': s = step > U ? step - U : step; break;
            case 'T': s = U / 2 < step ? U / 2 : step; break;
            default: break;
        }
        double c = (e.size() > 1 && e[1] == 'B') ? s / 2 : s;
        w->last_c = c;
        DriverResult r;
        r.step = s;
        r.state.pos = state.pos;
        r.state.pos[0] += c;
        std::size_t tok = w->momdir.size();
        w->momdir.push_back(ScriptedWorld::token_dir(tok));
        for (int i = 0; i < 3; ++i)
            r.state.mom[i] = w->pmag * w->momdir.back()[i];
        bool onaxis = state.pos[1] == 0 && state.pos[2] == 0;
        if (!onaxis)
            w->exact = false;
        w->calls.push_back(json::array({"Advance", w->q(step), w->q(state.pos[0]), w->q(s), w->q(c)}));
        return r;
    }
    short int max_substeps() const { return static_cast<short int>(w->maxsub); }
    real_type minimum_step() const { return w->minsub * Q; }
    real_type delta_intersection() const { return w->delta * Q; }
};

struct ScriptedGeo
{
    ScriptedWorld* w;

    Real3 const& pos() const { return w->pos; }
    Real3 const& dir() const { return w->dir; }
    bool is_on_boundary() const { return w->onb; }
    bool is_outside() const { return false; }
    void set_dir(Real3 const& d)
    {
        w->tick();
        w->calls.push_back(w->classify(d));
        w->dir = d;
        w->has_next = w->next_b = false;
    }
    Propagation find_next_step(real_type maxd)
    {
        w->tick();
        std::string const& e = w->entry(w->n_find++);
        double const U = w->unit * Q, D = w->delta * Q;
        double const c = w->last_c;
        char g = e.size() > 2 ? e[2] : 'N';
        Propagation p;
        p.boundary = g != 'N';
        double d = maxd;
        switch (g)
        {
            case '0': d = 0; break;
            case 'u': d = U / 2; break;
            case 'U': d = U; break;
            case '2': d = 2 * U; break;
            case '4': d = 4 * U; break;
            case 'a': d = c - D - U; break;
            case 'b': d = c - D; break;
            case 'h': d = c / 2; break;
            case 'c': d = c; break;
            case 'd': d = c + U; break;
            case 'e': d = c + D; break;
            default: break;
        }
        d = std::min(std::max(d, 0.0), static_cast<double>(maxd));  // contract of the call
        p.distance = d;
        w->has_next = true;
        w->next_b = p.boundary;
        w->next_d = d;
        w->calls.push_back(json::array({"Find", w->q(maxd), w->q(d), p.boundary ? 1 : 0}));
        return p;
    }
    Propagation find_next_step() { return this->find_next_step(1e6 * Q); }
    void move_internal(Real3 const& p)
    {
        w->tick();
        if (p[1] == 0 && p[2] == 0)
        {
            w->calls.push_back(json::array({"MoveTo", w->q(p[0])}));
        }
        else
        {
            // off-axis target: displacement length and direction token
            Real3 dlt{p[0] - w->pos[0], p[1] - w->pos[1], p[2] - w->pos[2]};
            double len = norm3(dlt);
            double r = std::nearbyint(len / Q);
            if (std::fabs(r * Q - len) > 1e-9 * Q)
                w->exact = false;
            json cls = w->classify(unit3(dlt));
            w->calls.push_back(json::array({"MoveToD", static_cast<long>(r), cls[2]}));
        }
        w->pos = p;
        w->onb = false;
        w->has_next = w->next_b = false;
    }
    void move_internal(real_type dist)
    {
        w->tick();
        w->calls.push_back(json::array({"MoveI", w->q(dist)}));
        w->pos[0] += dist;  // 1-D world: distances are measured along x, the direction is a label
        w->next_d -= dist;
        w->onb = false;
    }
    void move_to_boundary()
    {
        w->tick();
        w->calls.push_back(json::array({"MoveB"}));
        w->pos[0] += w->next_d;  // 1-D world: distances are measured along x, the direction is a label
        w->onb = true;
        w->has_next = w->next_b = false;
    }
    void cross_boundary()
    {
        w->tick();
        w->calls.push_back(json::array({"Cross"}));
    }
};

int run_scripted(std::string const& in_path, std::string const& out_path)
{
    verif::NdjsonWriter out(out_path);
    g_out = &out;
    std::ifstream in(in_path);
    if (!in)
    {
        std::cerr << "cannot open " << in_path << std::endl;
        return 3;
    }
    Particles particles;
    std::string line;
    long id = 0;
    while (std::getline(in, line))
    {
        if (line.empty())
            continue;
        json j = json::parse(line);
        ScriptedWorld w;
        w.step = j.at("step").get<long>();
        w.maxsub = j.at("maxsub").get<int>();
        w.onb0 = j.at("onb0").get<int>() != 0;
        w.minsub = j.at("minsub").get<long>();
        w.delta = j.at("delta").get<long>();
        w.unit = j.at("unit").get<long>();
        w.x0 = j.at("x0").get<long>();
        for (auto const& s : j.at("script"))
            w.script.push_back(s.get<std::string>());
        w.pos = {w.x0 * Q, 0, 0};
        w.onb = w.onb0;
        w.momdir.push_back(ScriptedWorld::token_dir(0));
        w.dir = w.momdir[0];
        auto particle = particles.view(false, 10.0);
        w.pmag = value_as<units::MevMomentum>(particle.momentum());

        json rec = {{"e", "Scripted"}, {"id", ++id}};
        double bump = 0;
        bool hang = false;
        std::string exc;
        Propagation result;
        result.distance = 0;
        try
        {
            // THE CODE UNDER TEST: the real template over the scripted driver and geometry
            FieldPropagator<ScriptedDriver, ScriptedGeo> propagate(
                ScriptedDriver{&w}, particle, ScriptedGeo{&w});
            bump = propagate.bump_distance();
            result = propagate(w.step * Q);
        }
        catch (HangError const&)
        {
            hang = true;
        }
        catch (std::exception const& ex)
        {
            exc = clean(ex.what());
        }
        json P = {{"step", w.step}, {"maxsub", w.maxsub}, {"minsub", w.minsub}, {"delta", w.delta},
                  {"unit", w.unit}, {"x0", w.x0}, {"onb0", w.onb0}};
        {
            // bump_distance() as the code computes it (delta_intersection * 0.1)
            if (bump == 0)
            {
                ScriptedDriver d{&w};
                bump = d.delta_intersection() * real_type(0.1);
            }
            P["bump"] = w.q(bump);
        }
        rec["P"] = P;
        if (hang || !exc.empty())
            w.calls = json::array();  // bounded record; the call list of a hung call is meaningless
        rec["calls"] = w.calls;
        rec["res"] = {{"dist", w.q(result.distance)}, {"bnd", result.boundary}, {"loop", result.looping}};
        // final state of the scripted geometry: on-axis coordinate, off-axis distance, direction
        {
            double off = std::sqrt(w.pos[1] * w.pos[1] + w.pos[2] * w.pos[2]);
            long xq = 0, offq = 0;
            if (off == 0)
            {
                xq = w.q(w.pos[0]);
            }
            else
            {
                // after a bump: project back along the final direction
                Real3 back{w.pos[0], 0, 0};
                double len = off / std::fabs(w.dir[1]);
                back[0] = w.pos[0] - len * w.dir[0];
                double r = std::nearbyint(len / Q);
                if (std::fabs(r * Q - len) > 1e-9 * Q)
                    w.exact = false;
                offq = static_cast<long>(r);
                double rx = std::nearbyint(back[0] / Q);
                if (std::fabs(rx * Q - back[0]) > 1e-9 * Q)
                    w.exact = false;
                xq = static_cast<long>(rx);
            }
            json cls = w.classify(w.dir);
            rec["geo"] = {{"onb", w.onb}, {"x", xq}, {"off", offq}, {"dir", cls[2]}};
        }
        rec["exact"] = w.exact;
        rec["hang"] = hang;
        rec["exc"] = exc;
        out(rec);
    }
    out({{"e", "Close"}});
    out.flush();
    g_out = nullptr;
    return 0;
}

//===========================================================================//
// REAL MODE
//===========================================================================//
struct RawCall
{
    std::string kind;
    double a{0}, b{0};
    int flag{0};
    int ch{0};
    std::vector<int> toks;
};

struct Recorder
{
    std::vector<RawCall> calls;
    std::vector<Real3> momdir;  // token -> unit momentum direction (0 = start)
    std::vector<double> mommag;
    Real3 chord{0, 0, 0};
    bool has_chord{false};
    double last_s{0}, last_c{0};
    long ncalls{0};
    long budget{200000};

    void tick()
    {
        if (++ncalls > budget)
            throw HangError("call budget exceeded");
    }
    void classify(Real3 const& d, RawCall& c) const
    {
        c.ch = (has_chord && same_dir(d, chord)) ? 1 : 0;
        for (std::size_t k = 0; k < momdir.size(); ++k)
            if (same_dir(d, momdir[k]))
                c.toks.push_back(static_cast<int>(k));
    }
};

// One evaluation of the real stepper as the driver saw it
struct Eval
{
    double h;
    OdeState in, end;
    double errsq;  // the documented relative truncation-error estimate, squared, in units of epsilon_rel_max^2
};

// What one FieldDriver::advance call did (recorded by RecDriver)
struct AdvRec
{
    OdeState in, out;
    double req{0}, s{0};
    double sumh{0};  // arc length integrated by the chain of stepper evaluations that leads from `in` to `out`
    bool chain_ok{false};
    int nchain{0};
    long nevals{0};
    double max_errsq{0};  // over the chain
    // per chain link (oldest first): its step and how many evaluations up to it started from the same
    // state (the trials of one loop of the driver)
    std::vector<double> link_h;
    std::vector<long> link_trials;
};

bool same_state(OdeState const& a, OdeState const& b)
{
    return std::memcmp(a.pos.data(), b.pos.data(), 3 * sizeof(double)) == 0
           && std::memcmp(a.mom.data(), b.mom.data(), 3 * sizeof(double)) == 0;
}

struct EvalLog
{
    std::vector<Eval> evals;
    double eps{1e-3};
    long total{0};
};

// records the evaluations of the real stepper (the stepper itself is untouched)
template<class S>
struct CountStepper
{
    S s;
    EvalLog* log;
    FieldStepperResult operator()(real_type step, OdeState const& state) const
    {
        ++log->total;
        FieldStepperResult r = s(step, state);
        Eval e;
        e.h = step;
        e.in = state;
        e.end = r.end_state;
        // max(|err_pos|^2 / h^2, |err_mom|^2 / |mom|^2) / epsilon_rel_max^2  (FieldDriver's documented estimate)
        double ep = 0, em = 0, m2 = 0;
        for (int i = 0; i < 3; ++i)
        {
            ep += r.err_state.pos[i] * r.err_state.pos[i];
            em += r.err_state.mom[i] * r.err_state.mom[i];
            m2 += state.mom[i] * state.mom[i];
        }
        e.errsq = std::max(ep / (step * step), em / m2) / (log->eps * log->eps);
        if (!(e.errsq >= 0))
            e.errsq = 1e300;
        if (log->evals.size() < 200000)
            log->evals.push_back(e);
        return r;
    }
};

template<class D>
struct RecDriver
{
    D d;
    Recorder* rec;
    EvalLog* log;
    std::vector<AdvRec>* advs;

    DriverResult advance(real_type step, OdeState const& state)
    {
        rec->tick();
        log->evals.clear();
        DriverResult r = d.advance(step, state);
        RawCall c;
        c.kind = "Advance";
        c.a = step;
        c.b = r.step;
        rec->calls.push_back(c);
        Real3 dlt{r.state.pos[0] - state.pos[0], r.state.pos[1] - state.pos[1], r.state.pos[2] - state.pos[2]};
        rec->last_c = norm3(dlt);
        rec->last_s = r.step;
        rec->chord = unit3(dlt);
        rec->has_chord = true;
        rec->momdir.push_back(unit3(r.state.mom));
        rec->mommag.push_back(norm3(r.state.mom));
        // the chain of stepper evaluations that leads from the input state to the returned state
        // (linked by bit-identical states), walked backwards from the returned state
        AdvRec a;
        a.in = state;
        a.out = r.state;
        a.req = step;
        a.s = r.step;
        a.nevals = static_cast<long>(log->evals.size());
        {
            auto const& ev = log->evals;
            std::vector<std::size_t> chain;
            OdeState want = r.state;
            std::size_t hi = ev.size();
            bool ok = false;
            while (true)
            {
                std::size_t j = hi;
                while (j > 0 && !same_state(ev[j - 1].end, want))
                    --j;
                if (j == 0)
                    break;
                chain.push_back(j - 1);
                if (same_state(ev[j - 1].in, state))
                {
                    ok = true;
                    break;
                }
                want = ev[j - 1].in;
                hi = j - 1;
            }
            a.chain_ok = ok;
            if (ok)
            {
                // forward sum, like FieldDriver::accurate_advance accumulates its curve length
                for (auto it = chain.rbegin(); it != chain.rend(); ++it)
                {
                    a.sumh += ev[*it].h;
                    a.max_errsq = std::max(a.max_errsq, ev[*it].errsq);
                }
                a.nchain = static_cast<int>(chain.size());
                for (auto it = chain.rbegin(); it != chain.rend(); ++it)
                {
                    long trials = 0;
                    for (std::size_t j = 0; j <= *it; ++j)
                        if (same_state(ev[j].in, ev[*it].in))
                            ++trials;
                    a.link_h.push_back(ev[*it].h);
                    a.link_trials.push_back(trials);
                }
            }
        }
        if (advs->size() < 100000)
            advs->push_back(a);
        return r;
    }
    short int max_substeps() const { return d.max_substeps(); }
    real_type minimum_step() const { return d.minimum_step(); }
    real_type delta_intersection() const { return d.delta_intersection(); }
};

// thrown by the recording geometry when the propagator issues a call whose precondition
// (CELER_EXPECT of the real navigator) does not hold: forwarding it would be undefined behaviour
struct ProtocolError : std::runtime_error
{
    using std::runtime_error::runtime_error;
};

struct RecGeo
{
    OrangeTrackView* g;
    Recorder* rec;
    // the navigator's pending next step as its own answers established it
    bool has_next{false}, has_b{false};
    double nd{0};

    Real3 const& pos() const { return g->pos(); }
    Real3 const& dir() const { return g->dir(); }
    bool is_on_boundary() const { return g->is_on_boundary(); }
    bool is_outside() const { return g->is_outside(); }
    void set_dir(Real3 const& d)
    {
        rec->tick();
        RawCall c;
        c.kind = "SetDir";
        rec->classify(d, c);
        rec->calls.push_back(c);
        if (!(std::fabs(norm3(d) - 1) < 1e-6))
            throw ProtocolError("protocol: set_dir with a non-unit direction");
        has_next = has_b = false;
        g->set_dir(d);
    }
    Propagation find_next_step(real_type maxd)
    {
        rec->tick();
        if (!(maxd > 0))
            throw ProtocolError("protocol: find_next_step with a non-positive maximum");
        Propagation p = g->find_next_step(maxd);
        has_next = true;
        has_b = p.boundary;
        nd = p.distance;
        RawCall c;
        c.kind = "Find";
        c.a = maxd;
        c.b = p.distance;
        c.flag = p.boundary ? 1 : 0;
        rec->calls.push_back(c);
        return p;
    }
    Propagation find_next_step()
    {
        rec->tick();
        Propagation p = g->find_next_step();
        has_next = true;
        has_b = p.boundary;
        nd = p.distance;
        RawCall c;
        c.kind = "Find";
        c.a = std::numeric_limits<double>::infinity();
        c.b = p.distance;
        c.flag = p.boundary ? 1 : 0;
        rec->calls.push_back(c);
        return p;
    }
    void move_internal(Real3 const& p)
    {
        rec->tick();
        RawCall c;
        c.kind = "MoveTo";
        c.a = dist3(p, g->pos());
        rec->calls.push_back(c);
        has_next = has_b = false;
        g->move_internal(p);
    }
    void move_internal(real_type dist)
    {
        rec->tick();
        RawCall c;
        c.kind = "MoveI";
        c.a = dist;
        rec->calls.push_back(c);
        if (!(has_next && dist > 0 && dist <= nd && (dist != nd || !has_b)))
            throw ProtocolError("protocol: move_internal(dist) without a pending step that long");
        has_next = has_b = false;
        g->move_internal(dist);
    }
    void move_to_boundary()
    {
        rec->tick();
        RawCall c;
        c.kind = "MoveB";
        rec->calls.push_back(c);
        if (!(has_next && has_b))
            throw ProtocolError("protocol: move_to_boundary without a pending boundary");
        has_next = has_b = false;
        g->move_to_boundary();
    }
    void cross_boundary()
    {
        rec->tick();
        RawCall c;
        c.kind = "Cross";
        rec->calls.push_back(c);
        throw ProtocolError("protocol: cross_boundary called by the propagator");
    }
};

struct GeoFixture
{
    std::string name;
    std::shared_ptr<OrangeParams> params;
    HostVal<OrangeStateData> state_val, fresh_val;
    HostRef<OrangeStateData> state_ref, fresh_ref;
    std::unique_ptr<OrangeTrackView> view, fresh;
    Real3 lo{}, hi{};

    explicit GeoFixture(std::string const& path)
    {
        auto slash = path.find_last_of('/');
        name = path.substr(slash == std::string::npos ? 0 : slash + 1);
        params = std::make_shared<OrangeParams>(path);
        resize(&state_val, params->host_ref(), 1);
        state_ref = state_val;
        resize(&fresh_val, params->host_ref(), 1);
        fresh_ref = fresh_val;
        view = std::make_unique<OrangeTrackView>(params->host_ref(), state_ref, TrackSlotId{0});
        fresh = std::make_unique<OrangeTrackView>(params->host_ref(), fresh_ref, TrackSlotId{0});
        auto const& bb = params->bbox();
        for (int i = 0; i < 3; ++i)
        {
            lo[i] = std::max<double>(bb.lower()[i], -2000.0);
            hi[i] = std::min<double>(bb.upper()[i], 2000.0);
        }
    }
};

struct FieldSpec
{
    int type{0};  // 0 uniform, 1 uniform-z, 2 rz map
    Real3 b_tesla{0, 0, 1};
};

struct Sample
{
    int geo{0};
    bool positron{false};
    double energy{1};
    FieldSpec field;
    int stepper{0};  // 0 DP, 1 RK4, 2 z-helix
    double step{1};
    FieldDriverOptions opts;
    std::string tag;
};

struct Rng
{
    std::mt19937_64 eng;
    explicit Rng(unsigned long s) : eng(s) {}
    double u() { return std::uniform_real_distribution<double>(0, 1)(eng); }
    double logu(double lo, double hi) { return std::exp(std::log(lo) + u() * (std::log(hi) - std::log(lo))); }
    int i(int n) { return static_cast<int>(eng() % static_cast<unsigned long>(n)); }
    Real3 iso()
    {
        double z = 2 * u() - 1, ph = 2 * M_PI * u(), r = std::sqrt(std::max(0.0, 1 - z * z));
        return {r * std::cos(ph), r * std::sin(ph), z};
    }
};

// ORACLE (independent of the code's steppers): closed-form helix in a uniform field.
// du/ds = K (u x b), K = 2.99792458 q B[T] / p[MeV/c] per cm (R[cm] = p / (2.99792458 B)).
struct Helix
{
    Real3 x0, u0, b;  // b = unit field direction
    double K{0};
    void eval(double s, Real3& x, Real3& u) const
    {
        double upar = dot3(u0, b);
        Real3 par{upar * b[0], upar * b[1], upar * b[2]};
        Real3 perp{u0[0] - par[0], u0[1] - par[1], u0[2] - par[2]};
        Real3 pxb = cross3(perp, b);
        double th = K * s;
        double sn = std::sin(th), cs = std::cos(th);
        // sin(th)/K and (1-cos(th))/K, stable for small th
        double a1 = std::fabs(th) < 1e-4 ? s * (1 - th * th / 6) : sn / K;
        double a2 = std::fabs(th) < 1e-4 ? s * th / 2 * (1 - th * th / 12) : (1 - cs) / K;
        for (int i = 0; i < 3; ++i)
        {
            u[i] = par[i] + perp[i] * cs + pxb[i] * sn;
            x[i] = x0[i] + par[i] * s + perp[i] * a1 + pxb[i] * a2;
        }
    }
};

bool uniform_field(Sample const& s)
{
    return s.field.type != 2;
}

// ---- TOLERANCE TABLE of the numeric oracles (trusted base).  eps = epsilon_rel_max * max(1, the largest
// truncation-error estimate, in units of epsilon_rel_max, among the stepper evaluations the driver
// actually USED): what the driver's own error control claims for the state it returned.  The factors
// are 10 x the largest normalised residual measured on the unchanged tree (160 000 seeded calls, Dormand-
// Prince / RK4, uniform fields, epsilon_rel_max 1e-10..1e-3, max_nsteps 1..100, energies 1 eV..10 GeV):
//   one advance call (state returned vs analytic helix at the RETURNED step s, K = curvature):
//     position   <= 350 eps s             measured max  34.7 eps s           (DP; RK4 12.6)
//     direction  <= 400 eps (1 + |K| s)   measured max  41 eps (1 + |K| s)   (DP; RK4 0.43)
//     |p|        <= 1600 eps              measured max  162 eps              (DP; RK4 0.87)
//   one propagation call (n accepted-or-tried advance calls, distance d):
//     end point  <= 260 eps d n + geometric tolerance   measured max 25.8 eps d n   (DP; RK4 0.38)
//     direction  <= 320 eps (1 + |K| d) n + |K| geometric tolerance   measured max 31.6 (DP; RK4 0.42)
//     |p| drift  <= 3500 eps n            measured max  342 eps n            (DP; RK4 0.87)
//   geometric tolerance = 2 delta_intersection * arc/chord + 2 minimum_step + bump_distance
//   rounding floors: 1e-13 * max(1,|pos|) * (evaluations + |K| s) in position, 1e-13 * (..) in direction
constexpr double TOL_DRV_POS = 350;
constexpr double TOL_DRV_DIR = 400;
constexpr double TOL_DRV_MAG = 1600;
constexpr double TOL_PROP_POS = 260;
constexpr double TOL_PROP_DIR = 320;
constexpr double TOL_PROP_MAG = 3500;

struct RealRunner
{
    verif::NdjsonWriter& out;
    Particles particles;
    std::vector<std::unique_ptr<GeoFixture>> geos;
    std::unique_ptr<RZMapFieldParams> rzmap;
    long id{0};
    long budget{200000};

    explicit RealRunner(verif::NdjsonWriter& o) : out(o) {}

    template<class Propagate>
    Propagation call(Propagate&& p, double step)
    {
        return p(step);
    }

    // One propagation call on the current state of geos[s.geo]->view; logs one record.
    // Returns false if the sequence must stop (exception / hang / outside).
    bool propagate_once(Sample const& s, std::string const& start_kind)
    {
        GeoFixture& G = *geos[s.geo];
        OrangeTrackView& geo = *G.view;
        auto particle = particles.view(s.positron, s.energy);
        Recorder rec;
        rec.budget = budget;
        double const p0 = value_as<units::MevMomentum>(particle.momentum());
        Real3 const pos0 = geo.pos();
        Real3 const dir0 = geo.dir();
        bool const onb0 = geo.is_on_boundary();
        int const vol0 = geo.is_outside() ? -1 : static_cast<int>(geo.volume_id().unchecked_get());
        rec.momdir.push_back(unit3(dir0));
        rec.mommag.push_back(p0);

        Propagation result;
        result.distance = 0;
        bool hang = false, protocol = false;
        std::string exc;
        Real3 bnative{0, 0, 0};
        for (int i = 0; i < 3; ++i)
            bnative[i] = s.field.b_tesla[i] * units::tesla;
        EvalLog evlog;
        evlog.eps = s.opts.epsilon_rel_max;
        std::vector<AdvRec> advs;
        auto run = [&](auto&& real_stepper) {
            using RealStepperT = std::decay_t<decltype(real_stepper)>;
            using StepperT = CountStepper<RealStepperT>;
            using DriverT = FieldDriver<StepperT>;
            StepperT stepper{std::forward<decltype(real_stepper)>(real_stepper), &evlog};
            // THE CODE UNDER TEST: the real propagator over the real driver and the real
            // ORANGE track view, seen through call recorders
            FieldPropagator<RecDriver<DriverT>, RecGeo> propagate(
                RecDriver<DriverT>{DriverT{s.opts, std::move(stepper)}, &rec, &evlog, &advs},
                particle,
                RecGeo{&geo, &rec});
            result = propagate(s.step);
        };
        try
        {
            auto charge = particle.charge();
            if (s.field.type == 0)
            {
                if (s.stepper == 1)
                    run(make_mag_field_stepper<RungeKuttaStepper>(UniformField{bnative}, charge));
                else
                    run(make_mag_field_stepper<DormandPrinceStepper>(UniformField{bnative}, charge));
            }
            else if (s.field.type == 1)
            {
                if (s.stepper == 2)
                    run(make_mag_field_stepper<ZHelixStepper>(UniformZField{bnative[2]}, charge));
                else if (s.stepper == 1)
                    run(make_mag_field_stepper<RungeKuttaStepper>(UniformZField{bnative[2]}, charge));
                else
                    run(make_mag_field_stepper<DormandPrinceStepper>(UniformZField{bnative[2]}, charge));
            }
            else
            {
                if (s.stepper == 1)
                    run(make_mag_field_stepper<RungeKuttaStepper>(RZMapField{rzmap->host_ref()}, charge));
                else
                    run(make_mag_field_stepper<DormandPrinceStepper>(RZMapField{rzmap->host_ref()}, charge));
            }
        }
        catch (HangError const&)
        {
            hang = true;
        }
        catch (ProtocolError const& ex)
        {
            exc = clean(ex.what());
            protocol = true;
        }
        catch (std::exception const& ex)
        {
            exc = clean(ex.what());
        }

        long const nstep = evlog.total;
        json r = {{"e", "Real"}, {"id", ++id}};
        r["protocol"] = protocol;
        std::ostringstream in;
        in.precision(17);
        in << G.name << " " << (s.positron ? "e+" : "e-") << " E=" << s.energy << " field=" << s.field.type
           << "[" << s.field.b_tesla[0] << "," << s.field.b_tesla[1] << "," << s.field.b_tesla[2]
           << "]T stepper=" << s.stepper << " step=" << s.step << " pos=[" << pos0[0] << "," << pos0[1] << ","
           << pos0[2] << "] dir=[" << dir0[0] << "," << dir0[1] << "," << dir0[2] << "] start=" << start_kind
           << " opts(minstep=" << s.opts.minimum_step << ",dchord=" << s.opts.delta_chord
           << ",dint=" << s.opts.delta_intersection << ",maxsub=" << s.opts.max_substeps
           << ",epsrel=" << s.opts.epsilon_rel_max << ",maxnsteps=" << s.opts.max_nsteps << ") " << s.tag;
        r["in"] = in.str();
        r["start"] = start_kind;
        r["maxsub"] = static_cast<int>(s.opts.max_substeps);
        r["hang"] = hang;
        r["exc"] = exc;
        if (hang || !exc.empty())
        {
            r["calls"] = json::array();
            r["ncalls"] = rec.ncalls;
            out(r);
            return false;
        }

        // ---------------- facts of the call (measurements, no expectations)
        Real3 const pos1 = geo.pos();
        Real3 const dir1 = geo.dir();
        bool const onb1 = geo.is_on_boundary();
        bool const out1 = geo.is_outside();
        int const vol1 = out1 ? -1 : static_cast<int>(geo.volume_id().unchecked_get());
        double const p1 = value_as<units::MevMomentum>(particle.momentum());
        double const minsub = s.opts.minimum_step, dint = s.opts.delta_intersection;
        double const bump = dint * real_type(0.1);

        // path really travelled according to the recorded responses: accepted substeps
        // (Find without boundary) plus a final substep ended by move_internal although a
        // boundary was reported (commit without crossing)
        double acc = 0;
        int nacc = 0, nadv = 0, nfind = 0;
        double cur_s = 0, cur_c = 0;
        bool last_b = false;
        double last_ratio = 1;
        {
            std::size_t adv_idx = 0;
            for (std::size_t i = 0; i < rec.calls.size(); ++i)
            {
                auto const& c = rec.calls[i];
                if (c.kind == "Advance")
                {
                    cur_s = c.b;
                    ++nadv;
                    ++adv_idx;
                }
                else if (c.kind == "Find")
                {
                    ++nfind;
                    last_b = c.flag != 0;
                    cur_c = c.a - dint;
                    if (cur_c > 0)
                        last_ratio = std::max(1.0, cur_s / cur_c);
                }
                else if (c.kind == "MoveTo" && i > 0 && rec.calls[i - 1].kind == "Find")
                {
                    acc += cur_s;
                    if (!last_b)
                        ++nacc;
                }
            }
        }
        double const gap = s.step - acc;  // > 0: the reported full step exceeds the path travelled
        // last iteration: update_length = s * d / c as the recorded responses give it, and the
        // curved distance between the end of that substep (where the committed momentum was
        // evaluated) and the point update_length along it
        double last_d = 0;
        for (auto it = rec.calls.rbegin(); it != rec.calls.rend(); ++it)
            if (it->kind == "Find")
            {
                last_d = it->b;
                break;
            }
        double const ul_last = (last_b && cur_c > 0) ? cur_s * last_d / cur_c : 0;
        double const mgap = last_b ? std::fabs(cur_s - ul_last) : 0;
        double const mgaptol = std::max(minsub, 2 * dint * last_ratio) * (1 + 1e-9);
        double const tolgap = std::max(minsub, dint * last_ratio) * (1 + 1e-9);
        double const softtol = 1e-12 * s.step;  // soft_equal(distance, step) of the code's own assertion

        // ORACLE-DECIDED: fresh point location at the end point (new track view)
        int volf = -2;
        if (!out1)
        {
            try
            {
                *G.fresh = GeoTrackInitializer{pos1, dir1};
                volf = G.fresh->is_outside() ? -1 : static_cast<int>(G.fresh->volume_id().unchecked_get());
            }
            catch (std::exception const&)
            {
                volf = -3;
            }
        }

        // ORACLE-DECIDED: |p| conservation.  The propagator cannot change the particle's
        // momentum magnitude (const view) and must hand a unit direction to the geometry;
        // the integrated momentum of the driver states may drift by the stepper's accepted
        // truncation error (epsilon_rel_max per substep).
        double const unit_res = std::fabs(norm3(dir1) - 1);
        double pdrift = 0;
        for (double m : rec.mommag)
            pdrift = std::max(pdrift, std::fabs(m - p0) / p0);
        // eps: what the driver's own error control claims for the states it returned in this call
        // (see the tolerance table above)
        double eps_pre = s.stepper == 2 ? 1e-9 : s.opts.epsilon_rel_max;
        if (s.stepper != 2)
            for (auto const& a : advs)
                if (a.chain_ok)
                    eps_pre = std::max(eps_pre, s.opts.epsilon_rel_max * std::sqrt(std::max(1.0, a.max_errsq)));
        double const ncalls_adv = static_cast<double>(std::max<std::size_t>(1, advs.size()));
        double const pdrift_tol = TOL_PROP_MAG * eps_pre * ncalls_adv + 1e-12;

        // ORACLE-DECIDED: analytic helix in a uniform field (closed form above)
        bool const uniform = s.field.type != 2;
        double hres = 0, htol = 0, ares = 0, atol = 0;
        bool helix_on = false;
        double geomtol = 0, kd = 0;
        if (uniform)
        {
            double bmag = norm3(s.field.b_tesla);
            double pm = std::sqrt(s.energy * (s.energy + 2 * electron_mass));
            if (bmag > 0)
            {
                Helix h;
                h.x0 = pos0;
                h.u0 = unit3(dir0);
                h.b = unit3(s.field.b_tesla);
                h.K = 2.99792458 * (s.positron ? 1.0 : -1.0) * bmag / pm;
                Real3 xe, ue;
                h.eval(result.distance, xe, ue);
                helix_on = true;
                hres = dist3(pos1, xe);
                // brackets: tolerance table above
                double scale = std::max({1.0, norm3(pos0), norm3(pos1)});
                double geom = 2 * dint * last_ratio + 2 * minsub + bump;
                double kdist = std::fabs(h.K) * result.distance;
                htol = TOL_PROP_POS * eps_pre * result.distance * ncalls_adv + geom
                       + 1e-13 * scale * (static_cast<double>(nstep) + kdist) + 1e-15;
                atol = TOL_PROP_DIR * eps_pre * (1 + kdist) * ncalls_adv + std::fabs(h.K) * geom
                       + 1e-13 * (static_cast<double>(nstep) + kdist) + 1e-15;
                ares = angle3(unit3(dir1), ue);
                geomtol = geom;
                kd = kdist;
            }
        }

        // ---------------- DRIVER LEVEL: every recorded FieldDriver::advance call
        // (a) structural, no tolerance but the code's own soft_equal: the step the driver REPORTS is
        //     the arc length integrated by the chain of stepper evaluations that produced the state it
        //     returns ("advance returns the state at the end of the step it reports")
        // (b) ORACLE-DECIDED, uniform fields: that state lies on the analytic helix through the input
        //     state at arc length = the reported step (position, direction, |p|)
        double drv_rel = 0;  // max |s - sum h| / tolerance  (outside the named deviation)
        double drv_exh = 0;  // max (sum h - s) / s over advances showing the named deviation
        bool drv_chain = true;
        double drv_pos = 0, drv_dir = 0, drv_mag = 0;  // max residual / bracket over the advances
        double m_p1 = 0, m_p2 = 0, m_a1 = 0, m_a2 = 0, m_a3 = 0, m_m1 = 0, m_m2 = 0, m_abs = 0, eps_call = 0, m_a4 = 0;
        {
            double bmag = norm3(s.field.b_tesla);
            Real3 bhat = bmag > 0 ? unit3(s.field.b_tesla) : Real3{0, 0, 1};
            for (auto const& a : advs)
            {
                if (!a.chain_ok)
                {
                    drv_chain = false;
                    continue;
                }
                double const rel = (a.sumh - a.s) / a.s;  // > 0: the state is AHEAD of the reported step
                if (std::getenv("VFIELD_DEBUG") && std::fabs(rel) > 1e-13)
                {
                    std::cerr.precision(17);
                    std::cerr << "ADV id=" << id << " req=" << a.req << " s=" << a.s << " sumh=" << a.sumh
                              << " nchain=" << a.nchain << " nevals=" << a.nevals << " links:";
                    for (std::size_t i = 0; i < a.link_h.size(); ++i)
                        std::cerr << " (" << a.link_h[i] << "," << a.link_trials[i] << ")";
                    std::cerr << std::endl;
                }
                // named deviation (finding F-FIELD-4): a trial loop of the driver (find_next_chord /
                // one_good_step) ran out of its max_nsteps budget and shrank `step` AFTER its last
                // evaluation, so the state of that evaluation is returned with a shorter step
                // (each rescale keeps at least max_stepping_decrease = 0.1 of the evaluated step)
                double exh_h = 0;
                for (std::size_t i = 0; i < a.link_h.size(); ++i)
                    if (a.link_trials[i] >= s.opts.max_nsteps)
                        exh_h += a.link_h[i];
                // tolerance of the comparison: the code's own soft_equal (1e-12 relative) plus the
                // ambiguity of the chain when steps differing by less than an ulp of the position give
                // bit-identical states
                double const reltol = 1e-12 * a.s + 1e-14 * std::max(1.0, norm3(a.out.pos)) * std::max(1, a.nchain);
                bool const exhausted = exh_h > 0
                                       && (a.sumh - a.s) <= (1 - s.opts.max_stepping_decrease) * exh_h + reltol;
                if ((a.sumh - a.s) > reltol && exhausted)
                {
                    drv_exh = std::max(drv_exh, rel);
                    continue;  // its state is not at the reported arc length: nothing to compare with the helix
                }
                drv_rel = std::max(drv_rel, std::fabs(a.sumh - a.s) / reltol);
                double eps_k = s.stepper == 2 ? 1e-9
                                              : s.opts.epsilon_rel_max * std::max(1.0, std::sqrt(a.max_errsq));
                eps_call = std::max(eps_call, eps_k);
                double pin = norm3(a.in.mom);
                double dmag = std::fabs(norm3(a.out.mom) - pin) / pin;
                double n = std::max(1, a.nchain);
                m_m1 = std::max(m_m1, dmag / eps_k);
                m_m2 = std::max(m_m2, dmag / (eps_k * n));
                drv_mag = std::max(drv_mag, dmag / (TOL_DRV_MAG * eps_k + 1e-13 * n));
                if (!(uniform_field(s) && bmag > 0))
                    continue;
                Helix h;
                h.x0 = a.in.pos;
                h.u0 = unit3(a.in.mom);
                h.b = bhat;
                h.K = 2.99792458 * (s.positron ? 1.0 : -1.0) * bmag / pin;
                Real3 xe, ue;
                h.eval(a.s, xe, ue);
                double dpos = dist3(a.out.pos, xe);
                double dang = angle3(unit3(a.out.mom), ue);
                double ks = std::fabs(h.K) * a.s;
                double scale = std::max(1.0, norm3(a.out.pos));
                if (std::getenv("VFIELD_DEBUG2"))
                {
                    std::cerr.precision(6);
                    std::cerr << "ADV2 id=" << id << " s=" << a.s << " n=" << a.nchain << " nev=" << a.nevals
                              << " eps_k=" << eps_k << " ks=" << ks << " dpos=" << dpos << " dang=" << dang
                              << " dmag=" << dmag << " |pos|=" << norm3(a.out.pos) << std::endl;
                }
                m_p1 = std::max(m_p1, dpos / (eps_k * a.s));
                m_p2 = std::max(m_p2, dpos / (eps_k * a.s * n));
                m_a1 = std::max(m_a1, dang / eps_k);
                m_a2 = std::max(m_a2, dang / (eps_k * n));
                m_a3 = std::max(m_a3, dang / (eps_k * n * (1 + ks)));
                m_a4 = std::max(m_a4, dang / (eps_k * (1 + ks)));
                m_abs = std::max(m_abs, dpos - eps_k * a.s * n);
                // brackets: see the tolerance table at the top of the real-mode section
                double floor_pos = 1e-13 * scale * (n + ks) + 1e-15;
                double floor_dir = 1e-13 * (n + ks) + 1e-15;
                drv_pos = std::max(drv_pos, dpos / (TOL_DRV_POS * eps_k * a.s + floor_pos));
                drv_dir = std::max(drv_dir, dang / (TOL_DRV_DIR * eps_k * (1 + ks) + floor_dir));
            }
        }

        // ---------------- rank abstraction (per record)
        verif::Ranker rk;
        auto add = [&](double v) { rk.add(std::isfinite(v) ? v : 1e300); };
        auto R = [&](double v) { return rk(std::isfinite(v) ? v : 1e300); };
        double const steplo = s.step * (1 - 1e-12), stephi = s.step * (1 + 1e-12);
        for (double v : {ul_last, mgap, mgaptol, drv_rel, 1.0, drv_pos, drv_dir, drv_mag, drv_exh})
            add(v);
        for (double v : {0.0, s.step, steplo, stephi, result.distance, minsub, dint, bump, gap, tolgap, softtol,
                         unit_res, 1e-12, pdrift, pdrift_tol, hres, htol, ares, atol, p0, p1})
            add(v);
        for (auto const& c : rec.calls)
        {
            add(c.a);
            add(c.b);
        }
        rk.finalize();
        json calls = json::array();
        for (auto const& c : rec.calls)
        {
            if (c.kind == "Advance")
                calls.push_back(json::array({"Advance", R(c.a), R(c.b)}));
            else if (c.kind == "Find")
                calls.push_back(json::array({"Find", R(c.a), R(c.b), c.flag}));
            else if (c.kind == "SetDir")
                calls.push_back(json::array({"SetDir", c.ch, c.toks}));
            else if (c.kind == "MoveTo")
                calls.push_back(json::array({"MoveTo", R(c.a)}));
            else if (c.kind == "MoveI")
                calls.push_back(json::array({"MoveI", R(c.a)}));
            else
                calls.push_back(json::array({c.kind}));
        }
        r["calls"] = calls;
        r["k"] = {{"zero", R(0.0)}, {"step", R(s.step)}, {"steplo", R(steplo)}, {"stephi", R(stephi)},
                  {"minsub", R(minsub)}, {"delta", R(dint)}, {"bump", R(bump)}, {"gap", R(gap)},
                  {"tolgap", R(tolgap)}, {"softtol", R(softtol)}, {"p0", R(p0)}, {"p1", R(p1)},
                  {"ul", R(ul_last)}, {"mgap", R(mgap)}, {"mgaptol", R(mgaptol)}};
        r["lastb"] = last_b;
        r["res"] = {{"dist", R(result.distance)}, {"bnd", result.boundary}, {"loop", result.looping}};
        r["onb0"] = onb0;
        r["onb1"] = onb1;
        r["out1"] = out1;
        r["vol0"] = vol0;
        r["vol1"] = vol1;
        r["volf"] = volf;
        r["nacc"] = nacc;
        r["orc"] = {{"unit_res", R(unit_res)}, {"unit_tol", R(1e-12)}, {"pdrift", R(pdrift)},
                    {"pdrift_tol", R(pdrift_tol)}, {"helix", helix_on}, {"hres", R(hres)}, {"htol", R(htol)},
                    {"ares", R(ares)}, {"atol", R(atol)},
                    // driver level: chain facts and residual/bracket ratios against `one`
                    {"drv_chain", drv_chain}, {"drv_rel", R(drv_rel)}, {"drv_exh", R(drv_exh)},
                    {"one", R(1.0)}, {"drv_pos", R(drv_pos)}, {"drv_dir", R(drv_dir)}, {"drv_mag", R(drv_mag)}};
        // raw numbers for the human reader / replay (not used by the spec)
        r["raw"] = {{"step", s.step}, {"dist", result.distance}, {"gap", gap}, {"pdrift", pdrift},
                    {"hres", hres}, {"htol", htol}, {"ares", ares}, {"atol", atol}, {"nadv", nadv}, {"nstep", nstep},
                    {"drv_rel", drv_rel}, {"drv_exh", drv_exh}, {"drv_pos", drv_pos}, {"drv_dir", drv_dir}, {"drv_mag", drv_mag},
                    {"m_p1", m_p1}, {"m_p2", m_p2}, {"m_a1", m_a1}, {"m_a2", m_a2}, {"m_a3", m_a3}, {"m_a4", m_a4}, {"geomtol", geomtol}, {"kd", kd}, {"pdrift_tol", pdrift_tol},
                    {"m_m1", m_m1}, {"m_m2", m_m2}, {"m_abs", m_abs}, {"eps_call", eps_call},
                    {"hnorm", (helix_on && result.distance > 0 && eps_call > 0) ? hres / (eps_call * result.distance) : 0.0},
                    {"anorm", (helix_on && eps_call > 0) ? ares / eps_call : 0.0}};
        r["stepper"] = s.stepper == 0 ? "dp" : (s.stepper == 1 ? "rk4" : "zhelix");
        r["field"] = s.field.type == 0 ? "uniform" : (s.field.type == 1 ? "uniformz" : "rzmap");
        out(r);
        // a zero-progress bump moves the point without telling the navigator: do not continue a
        // sequence from such a state (the follow-on calls would start from an unverified volume)
        bool const bumped = !result.boundary && !result.looping && result.distance < s.step;
        // likewise never continue from a state whose tracked volume a fresh location contradicts
        bool const inconsistent = !result.boundary && volf != vol1;
        return !out1 && !bumped && !inconsistent;
    }
};

std::vector<std::string> split(std::string const& s, char sep)
{
    std::vector<std::string> r;
    std::stringstream ss(s);
    std::string item;
    while (std::getline(ss, item, sep))
        if (!item.empty())
            r.push_back(item);
    return r;
}

int run_real(std::string const& out_path, int argc, char** argv)
{
    unsigned long seed = 1;
    long n = 100;
    std::string repo = "/repo";
    std::string geolist
        = "test/geocel/data/two-boxes.org.json,test/geocel/data/field-layers.org.json,"
          "test/geocel/data/simple-cms.org.json,test/geocel/data/three-spheres.org.json,"
          "test/orange/data/five-volumes.org.json,test/orange/data/hex-array.org.json,"
          "test/orange/data/rect-array.org.json,test/orange/data/nested-rect-arrays.org.json,"
          "test/orange/data/testem3.org.json,test/orange/data/inputbuilder-hierarchy.org.json";
    long budget = 200000;
    bool directed = true;
    std::string cases_path;
    for (int i = 3; i < argc; ++i)
    {
        std::string a = argv[i];
        auto eq = a.find('=');
        if (eq == std::string::npos)
            continue;
        std::string k = a.substr(0, eq), v = a.substr(eq + 1);
        if (k == "seed")
            seed = std::stoul(v);
        else if (k == "n")
            n = std::stol(v);
        else if (k == "repo")
            repo = v;
        else if (k == "geos")
            geolist = v;
        else if (k == "budget")
            budget = std::stol(v);
        else if (k == "directed")
            directed = v != "0";
        else if (k == "cases")
            cases_path = v;
    }
    verif::NdjsonWriter out(out_path);
    g_out = &out;
    RealRunner rr(out);
    rr.budget = budget;
    for (auto const& rel : split(geolist, ','))
    {
        std::string path = rel[0] == '/' ? rel : repo + "/" + rel;
        try
        {
            rr.geos.push_back(std::make_unique<GeoFixture>(path));
        }
        catch (std::exception const& ex)
        {
            out({{"e", "Info"}, {"what", "skip geometry " + rel + ": " + clean(ex.what())}});
        }
    }
    if (rr.geos.empty())
    {
        std::cerr << "no geometry could be loaded" << std::endl;
        return 3;
    }
    try
    {
        RZMapFieldInput inp;
        std::ifstream f(repo + "/test/celeritas/data/cms-tiny.field.json");
        if (f)
        {
            f >> inp;
            rr.rzmap = std::make_unique<RZMapFieldParams>(inp);
        }
    }
    catch (std::exception const& ex)
    {
        out({{"e", "Info"}, {"what", std::string("no rz map: ") + clean(ex.what())}});
    }

    // ---- directed cases (hand-written inputs; the clauses decide, nothing is expected here)
    if (directed)
    {
        int tb = -1;
        for (std::size_t i = 0; i < rr.geos.size(); ++i)
            if (rr.geos[i]->name.find("two-boxes") != std::string::npos)
                tb = static_cast<int>(i);
        if (tb >= 0)
        {
            struct D
            {
                Real3 pos, dir;
                bool positron;
                double energy, bz, step;
                int stepper;
                char const* tag;
            };
            // two-boxes: inner box [-5,5]^3 inside a big world box.  10 MeV e-/e+ in 3.50194611 T:
            // gyroradius 1 cm (the unit test's configuration)
            double const B1 = 3.5019461121752274;
            std::vector<D> ds = {
                {{1, 0, 0}, {0, 1, 0}, false, 10.0, B1, 0.5 * M_PI, 0, "quarter-turn"},
                {{1, 0, 0}, {0, -1, 0}, true, 10.0, B1, 0.5 * M_PI, 1, "quarter-turn-rk4"},
                {{1, 0, 0}, {0, 1, 0}, false, 10.0, B1, 0.5 * M_PI, 2, "quarter-turn-zhelix-centred"},
                {{3, 1, 0}, {0, 1, 0}, false, 10.0, B1, 0.25, 2, "zhelix-off-centre"},
                {{3, 1, 0}, {0.6, 0, 0.8}, true, 10.0, B1, 0.25, 2, "zhelix-off-centre-pitch"},
                // a wall 5e-7 cm ahead (less than minimum_step), normal incidence, not on it
                {{5 - 5e-7, 0, 0}, {1, 0, 0}, false, 10.0, B1, 1.0, 0, "wall-within-minstep"},
                {{5 - 5e-7, 0, 0}, {1, 0, 0}, true, 10.0, B1, 1.0, 1, "wall-within-minstep-rk4"},
                {{5 - 9e-7, 1, 2}, {0.8, 0.6, 0}, false, 1.0, 1.0, 10.0, 0, "wall-within-minstep-oblique"},
                // the same wall 1e-4 cm ahead (well above minimum_step)
                {{5 - 1e-4, 0, 0}, {1, 0, 0}, false, 10.0, B1, 1.0, 0, "wall-1e-4-ahead"},
                // grazing the wall from inside
                {{4, 0, 0}, {0, 1, 0}, true, 10.0, B1, 3.0, 0, "graze-from-inside"},
                {{4.0000001, 0, 0}, {0, 1, 0}, true, 10.0, B1, 3.0, 0, "graze-just-touching"},
                // tiny requested steps
                {{0, 0, 0}, {0, 0, 1}, false, 1.0, 1.0, 1e-10, 0, "step-below-minstep"},
                {{0, 0, 0}, {1, 0, 0}, false, 1.0, 1.0, 1e-6, 0, "step-at-minstep"},
                // a step that ends within minimum_step of a multiple of the driver's chord-limited substep
                {{0, 0, 0}, {1, 0, 0}, false, 0.06, 10.0, 0.04, 0, "tiny-radius-short-step"},
            };
            for (auto const& d : ds)
            {
                Sample s;
                s.geo = tb;
                s.positron = d.positron;
                s.energy = d.energy;
                s.field.type = 1;
                s.field.b_tesla = {0, 0, d.bz};
                s.stepper = d.stepper;
                s.step = d.step;
                s.tag = std::string("directed:") + d.tag;
                try
                {
                    *rr.geos[tb]->view = GeoTrackInitializer{d.pos, unit3(d.dir)};
                    rr.propagate_once(s, "interior");
                }
                catch (std::exception const& ex)
                {
                    out({{"e", "Info"}, {"what", std::string("directed case failed to start: ") + clean(ex.what())}});
                }
            }
        }
    }

    // ---- explicit cases from a file (replay of reported inputs): one JSON object per line
    //  {"geo": index or name part, "pos": [..], "dir": [..], "cross": bool (move to the next boundary
    //   along dir and cross it first), "dir2": [..] (direction set after crossing), "positron": bool,
    //   "energy": MeV, "field": [Bx,By,Bz] tesla, "fieldtype": 0|1|2, "stepper": 0|1|2, "step": cm,
    //   "opts": {minimum_step, delta_chord, delta_intersection, max_substeps, epsilon_rel_max}}
    auto run_case = [&](std::string const& line) {
        {
            json j = json::parse(line);
            Sample s;
            s.geo = 0;
            if (j.contains("geo"))
            {
                std::string want = j["geo"].get<std::string>();
                for (std::size_t i = 0; i < rr.geos.size(); ++i)
                    if (rr.geos[i]->name.find(want) != std::string::npos)
                        s.geo = static_cast<int>(i);
            }
            auto vec = [&](char const* k) {
                Real3 v{0, 0, 0};
                for (int i = 0; i < 3; ++i)
                    v[i] = j.at(k).at(i).get<double>();
                return v;
            };
            s.positron = j.value("positron", false);
            s.energy = j.value("energy", 1.0);
            s.field.type = j.value("fieldtype", 0);
            s.field.b_tesla = vec("field");
            s.stepper = j.value("stepper", 0);
            s.step = j.value("step", 1.0);
            if (j.contains("opts"))
            {
                auto const& o = j["opts"];
                s.opts.minimum_step = o.value("minimum_step", s.opts.minimum_step);
                s.opts.delta_chord = o.value("delta_chord", s.opts.delta_chord);
                s.opts.delta_intersection = o.value("delta_intersection", s.opts.delta_intersection);
                s.opts.max_substeps = static_cast<short>(o.value("max_substeps", int(s.opts.max_substeps)));
                s.opts.epsilon_rel_max = o.value("epsilon_rel_max", s.opts.epsilon_rel_max);
                s.opts.max_nsteps = static_cast<short>(o.value("max_nsteps", int(s.opts.max_nsteps)));
            }
            s.tag = "case:" + j.value("tag", std::string(""));
            try
            {
                OrangeTrackView& geo = *rr.geos[s.geo]->view;
                geo = GeoTrackInitializer{vec("pos"), unit3(vec("dir"))};
                std::string kind = "interior";
                if (j.value("cross", false))
                {
                    geo.find_next_step();
                    geo.move_to_boundary();
                    geo.cross_boundary();
                    kind = "boundary";
                }
                if (j.contains("dir2"))
                {
                    geo.set_dir(unit3(vec("dir2")));
                    kind = "tangent";
                }
                rr.propagate_once(s, kind);
            }
            catch (std::exception const& ex)
            {
                out({{"e", "Info"}, {"what", std::string("case failed to start: ") + clean(ex.what())}});
            }
        }
    };
    if (directed)
    {
        // near-tangent start on a boundary with the field bending the track back through it,
        // non-default (valid) driver options: finding F-FIELD-3
        run_case(R"({"geo":"field-layers","pos":[-2.0373360902870123,-4.6,-5.3647854036796954],"dir":[0,1,0],"cross":true,
 "dir2":[-0.41147573926553804,1.5396779770717857e-09,-0.91142071295087379],"positron":false,"energy":25.144611585570882,
 "field":[-0.22577030647027949,0.36571352331286833,-0.35195297480732179],"fieldtype":0,"stepper":1,"step":0.097136967629794929,
 "opts":{"minimum_step":2.1604498769836856e-07,"delta_chord":0.054968308343820799,"delta_intersection":2.9731611968176892e-06,
 "max_substeps":3,"epsilon_rel_max":1e-3},"tag":"tangent-reentrant-tunnel"})");
    }
    if (directed)
    {
        // the driver's integration budget (max_nsteps) runs out inside one advance call:
        // (a) gyroradius far below every tolerance, many turns per substep, default options
        run_case(R"({"geo":"two-boxes","pos":[0,0,0],"dir":[0.6,0,0.8],"energy":5e-6,"field":[0,0,1],"fieldtype":1,
 "stepper":0,"step":0.06,"tag":"budget-tiny-radius-dp"})");
        run_case(R"({"geo":"two-boxes","pos":[1,-2,3],"dir":[0.36,0.48,0.8],"energy":8e-6,"positron":true,
 "field":[0.3,-0.2,0.9],"fieldtype":0,"stepper":1,"step":0.06,"tag":"budget-tiny-radius-rk4"})");
        // (b) small max_nsteps with a tight epsilon_rel_max, gyroradius 1 cm
        run_case(R"({"geo":"two-boxes","pos":[1,0,0],"dir":[0,1,0],"energy":10.0,"field":[0,0,3.5019461121752274],
 "fieldtype":1,"stepper":0,"step":0.3,"opts":{"max_nsteps":2,"epsilon_rel_max":1e-9},"tag":"budget-nsteps2-dp"})");
        run_case(R"({"geo":"two-boxes","pos":[1,0,0],"dir":[0,1,0],"energy":10.0,"field":[0,0,3.5019461121752274],
 "fieldtype":1,"stepper":1,"step":0.3,"opts":{"max_nsteps":2,"epsilon_rel_max":1e-9},"tag":"budget-nsteps2-rk4"})");
        // max_nsteps = 1: every trial loop of the driver is exhausted at once (finding F-FIELD-4)
        run_case(R"({"geo":"three-spheres","pos":[-5.0572459395718434,80.90288836105718,-21.418397292581751],
 "dir":[0.05629301627660923,-0.13407653585295179,0.98937079947416751],"energy":0.052471778528454603,
 "field":[-0.21429296121951585,1.5097462963233053,1.6020893631924991],"fieldtype":0,"stepper":0,"step":21.793420329147665,
 "opts":{"minimum_step":3.9048604058336106e-08,"delta_chord":0.0060196117267676923,"delta_intersection":1.916604356998695e-07,
 "max_substeps":30,"epsilon_rel_max":2.7887454546778229e-10,"max_nsteps":1},"tag":"budget-nsteps1-rescale"})");
        run_case(R"({"geo":"two-boxes","pos":[0,0,0],"dir":[0.8,0,0.6],"energy":1.0,"positron":true,
 "field":[0.2,0.3,-1.5],"fieldtype":0,"stepper":0,"step":2.0,"opts":{"max_nsteps":3,"epsilon_rel_max":1e-8},
 "tag":"budget-nsteps3-dp"})");
    }
    if (!cases_path.empty())
    {
        std::ifstream cf(cases_path);
        std::string line;
        while (std::getline(cf, line))
            if (!line.empty())
                run_case(line);
    }

    Rng rng(seed);
    long made = 0;
    long attempts = 0;
    while (made < n && attempts < 50 * n + 1000)
    {
        ++attempts;
        Sample s;
        s.geo = rng.i(static_cast<int>(rr.geos.size()));
        GeoFixture& G = *rr.geos[s.geo];
        s.positron = rng.i(2) == 1;
        s.energy = rng.logu(1e-3, 1e4);
        int ft = rng.i(10);
        s.field.type = ft < 6 ? 0 : (ft < 9 || !rr.rzmap ? 1 : 2);
        double bmag = rng.logu(1e-3, 10.0);
        if (s.field.type == 0)
        {
            Real3 d = rng.iso();
            s.field.b_tesla = {bmag * d[0], bmag * d[1], bmag * d[2]};
        }
        else if (s.field.type == 1)
        {
            s.field.b_tesla = {0, 0, rng.i(2) ? bmag : -bmag};
        }
        else
        {
            s.field.b_tesla = {0, 0, 0};
        }
        s.stepper = s.field.type == 1 ? rng.i(3) : rng.i(2);
        s.step = rng.logu(1e-4, 1e3);
        if (rng.i(10) < 3)
        {
            // driver options within their validated ranges
            s.opts.minimum_step = rng.logu(1e-8, 1e-5);
            s.opts.delta_intersection = s.opts.minimum_step * rng.logu(2.0, 1e3);
            s.opts.delta_chord = rng.logu(2.5e-3, 2.5e-1);
            s.opts.max_substeps = static_cast<short>(std::vector<int>{1, 2, 3, 10, 30, 100}[rng.i(6)]);
            s.opts.epsilon_rel_max = rng.logu(1e-10, 1e-3);
            s.opts.max_nsteps = static_cast<short>(std::vector<int>{1, 2, 3, 5, 10, 100}[rng.i(6)]);
        }
        if (rng.i(10) == 0)
            s.energy = rng.logu(1e-6, 1e-3);  // eV-scale: gyroradius far below every tolerance
        // start point: uniformly in the (clipped) bounding box, must be inside
        Real3 pos;
        for (int i = 0; i < 3; ++i)
            pos[i] = G.lo[i] + rng.u() * (G.hi[i] - G.lo[i]);
        Real3 dir = rng.iso();
        OrangeTrackView& geo = *G.view;
        int mode = rng.i(10);  // 0-4 interior, 5-7 on boundary after crossing, 8-9 near tangency
        std::string kind = "interior";
        try
        {
            geo = GeoTrackInitializer{pos, dir};
            if (geo.is_outside())
                continue;
            if (mode >= 5)
            {
                auto nxt = geo.find_next_step();
                if (!nxt.boundary)
                    continue;
                geo.move_to_boundary();
                geo.cross_boundary();
                if (geo.is_outside())
                    continue;
                kind = "boundary";
                if (mode >= 8)
                {
                    // near tangency: a direction almost perpendicular to a coordinate axis or
                    // to the radial / cylindrical-radial direction at the boundary point (the
                    // fixtures' surfaces are planes, origin-centred spheres and z cylinders)
                    Real3 p = geo.pos();
                    Real3 nrm;
                    int which = rng.i(5);
                    if (which < 3)
                    {
                        nrm = {0, 0, 0};
                        nrm[which] = 1;
                    }
                    else if (which == 3)
                        nrm = unit3(p);
                    else
                        nrm = unit3(Real3{p[0], p[1], 0});
                    if (!std::isfinite(nrm[0]))
                        continue;
                    Real3 t = cross3(nrm, rng.iso());
                    if (norm3(t) < 1e-3)
                        continue;
                    t = unit3(t);
                    double eps = (rng.i(2) ? 1 : -1) * rng.logu(1e-9, 1e-2);
                    Real3 nd = unit3(Real3{t[0] + eps * nrm[0], t[1] + eps * nrm[1], t[2] + eps * nrm[2]});
                    // the track has just crossed INTO its volume: the direction must not lead back
                    // through the surface (a re-entrant state answers find_next_step with {0, true})
                    bool okdir = false;
                    for (int attempt = 0; attempt < 2 && !okdir; ++attempt)
                    {
                        geo.set_dir(nd);
                        auto probe = geo.find_next_step();
                        okdir = !(probe.boundary && probe.distance == 0);
                        if (!okdir)
                            nd = unit3(Real3{t[0] - eps * nrm[0], t[1] - eps * nrm[1], t[2] - eps * nrm[2]});
                    }
                    if (!okdir)
                        continue;
                    geo.set_dir(nd);
                    kind = "tangent";
                }
            }
        }
        catch (std::exception const&)
        {
            continue;
        }
        // a short sequence of calls from the same track state, crossing boundaries in between
        int nseq = 1 + rng.i(3);
        for (int k = 0; k < nseq && made < n; ++k)
        {
            ++made;
            bool more = rr.propagate_once(s, kind);
            if (!more)
                break;
            try
            {
                if (geo.is_on_boundary())
                {
                    geo.cross_boundary();
                    if (geo.is_outside())
                        break;
                    kind = "boundary";
                }
                else
                    kind = "interior";
            }
            catch (std::exception const&)
            {
                break;
            }
            s.step = rng.logu(1e-4, 1e3);
        }
    }
    out({{"e", "Close"}});
    out.flush();
    g_out = nullptr;
    return 0;
}
}  // namespace

int main(int argc, char** argv)
{
    std::set_terminate(on_terminate);
    if (argc >= 4 && std::string(argv[1]) == "scripted")
        return run_scripted(argv[2], argv[3]);
    if (argc >= 3 && std::string(argv[1]) == "real")
        return run_real(argv[2], argc, argv);
    std::cerr << "usage: vfield scripted <scripts.ndjson> <out.ndjson> | vfield real <out.ndjson> seed=.. n=..\n";
    return 2;
}
