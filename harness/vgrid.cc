// C14 harness: physics table lookups, continuous loss, MSC path conversions.
//
// Concretises the abstract test cases of spec/GridMC.tla (grid size x prime_index position x
// query class) on several numeric realisations and drives the REAL calculators:
//   XsCalculator / EnergyLossCalculator, RangeCalculator, InverseRangeCalculator,
//   GenericCalculator (tables built by hand, by ValueGrid*Builder + ValueGridInserter and by
//   GenericGridBuilder), calc_mean_energy_loss on a real PhysicsTrackView of a hand-built
//   e-/e+ ionisation problem, MscStepToGeo / MscStepFromGeo with a real UrbanMscHelper.
//
// Doubles reach TLC as dense ranks (one Ranker per record).  This file computes NO expected
// results.  What it does add to the trace, besides arguments and returned values:
//   * the table as the calculator sees it (knot abscissae exp(front + k*delta), stored values,
//     y_k = value_k / E_k for k >= prime_index: the documented meaning of the stored value),
//   * TOLERANCE BRACKETS y_k -/+ tol_k (trusted base, table below = table in spec/Grid.tla),
//   * ORACLE-DECIDED reference values for the documented extrapolation formulas, computed with
//     plain arithmetic from the documentation (never calling the code under test):
//       xs   above/below a 1/E-scaled end : value_end / E
//       range below the table             : r_0 * sqrt(E / E_0)
//       inverse range below the table     : E_0 * (r / r_0)^2
//     each with a relative bracket, and the round-trip bracket E(1 -/+ eps) (+ slope term).
//
// Tolerance table (units: eps = 2^-52)
//   C_VAL = 4    rounding of the interpolation arithmetic, relative to the largest |table value|
//                among the knot and its two neighbours (fma(slope, dx, y0) has an absolute error
//                of a few eps * |y1 - y0|, not of eps * |result|)
//   C_POS = 128  near a knot the neighbouring bin's line may be used (log(E) vs the log grid:
//                F-GRID-1 and the log/exp round trip displace bin edges by < 100 ulp(E)); its
//                effect on the value is bounded by C_POS * ulp(x_k) * (bound on |slope|)
//   C_EXT = 64   relative bracket around an oracle-decided extrapolation reference
//   C_CMP = 16   inverse(range(E)): 16 eps E + 16 ulp(r) * (local dE/dr)
#include <cmath>
#include <cstdlib>
#include <functional>
#include <limits>
#include <memory>
#include <random>
#include <string>
#include <vector>

#include "corecel/data/Collection.hh"
#include "corecel/data/CollectionBuilder.hh"
#include "corecel/data/CollectionStateStore.hh"
#include "corecel/grid/UniformGrid.hh"
#include "corecel/grid/UniformGridData.hh"
#include "celeritas/em/data/UrbanMscData.hh"
#include "celeritas/em/msc/detail/MscStepFromGeo.hh"
#include "celeritas/em/msc/detail/MscStepToGeo.hh"
#include "celeritas/em/msc/detail/UrbanMscHelper.hh"
#include "celeritas/em/process/EIonizationProcess.hh"
#include "celeritas/grid/EnergyLossCalculator.hh"
#include "celeritas/grid/GenericCalculator.hh"
#include "celeritas/grid/GenericGridBuilder.hh"
#include "celeritas/grid/GenericGridData.hh"
#include "celeritas/grid/InverseRangeCalculator.hh"
#include "celeritas/grid/RangeCalculator.hh"
#include "celeritas/grid/ValueGridBuilder.hh"
#include "celeritas/grid/ValueGridInserter.hh"
#include "celeritas/grid/XsCalculator.hh"
#include "celeritas/grid/XsGridData.hh"
#include "celeritas/mat/MaterialTrackView.hh"
#include "celeritas/phys/ParticleTrackView.hh"
#include "celeritas/phys/PhysicsStepUtils.hh"
#include "celeritas/phys/PhysicsTrackView.hh"

#include "vjson.hh"
#include "vproblem.hh"

using namespace celeritas;
using verif::json;

namespace
{
//---------------------------------------------------------------------------//
constexpr double EPS = std::numeric_limits<double>::epsilon();
constexpr double C_VAL = 4;
constexpr double C_POS = 128;
constexpr double C_EXT = 64;
constexpr double C_CMP = 16;
double const INF = std::numeric_limits<double>::infinity();

inline double fup(double x)
{
    return std::nextafter(x, INF);
}
inline double fdn(double x)
{
    return std::nextafter(x, -INF);
}
inline double ulp(double x)
{
    x = std::fabs(x);
    return fup(x) - x;
}
inline double steps(double x, int n)
{
    for (; n > 0; --n)
        x = fup(x);
    for (; n < 0; ++n)
        x = fdn(x);
    return x;
}

struct Rng
{
    std::mt19937_64 eng;
    explicit Rng(unsigned long s) : eng(s) {}
    double u01() { return (eng() >> 11) * (1.0 / 9007199254740992.0); }
    double uni(double a, double b) { return a + (b - a) * u01(); }
    int below(int n) { return int(eng() % static_cast<unsigned long>(n)); }
};

using RealsV = Collection<real_type, Ownership::value, MemSpace::host>;
using RealsR = Collection<real_type, Ownership::const_reference, MemSpace::host>;
using GridsV = Collection<XsGridData, Ownership::value, MemSpace::host>;

//---------------------------------------------------------------------------//
// The table as the calculator sees it
struct Table
{
    std::string calc;  // xs | eloss | range | invrange | generic
    std::string real;  // realisation label
    int p{-1};  // prime index actually stored (-1 none)
    int pu{-1};  // prime index the user asked for (builder realisations), else = p
    bool logx{true};  // abscissae are positive energies of a log grid
    std::vector<double> x;  // knot abscissae
    std::vector<double> y;  // unscaled table value at knot
    std::vector<double> s;  // stored scaled value (= y * x), meaningful for k >= p
    std::vector<double> ux;  // user's knot abscissae (builder realisations)
};

struct Query
{
    char const* c;  // below at up in dn atlast above uk
    int k;
    double x;
};

struct Extrap
{
    // oracle-decided reference for a query outside the grid (NaN: none)
    std::function<double(double)> below;
    std::function<double(double)> above;
};

//---------------------------------------------------------------------------//
// Bracket half-widths per knot (see the tolerance table at the top)
void knot_tolerances(Table const& t, std::vector<double>& ytol, std::vector<double>& stol)
{
    int n = int(t.x.size());
    ytol.assign(n, 0);
    stol.assign(n, 0);
    for (int k = 0; k < n; ++k)
    {
        int lo = std::max(k - 1, 0), hi = std::min(k + 1, n - 1);
        double ymag = 0, smag = 0, xmax = 0, dxmin = INF;
        for (int j = lo; j <= hi; ++j)
        {
            ymag = std::max(ymag, std::fabs(t.y[j]));
            smag = std::max(smag, std::fabs(t.y[j] * t.x[j]));
            if (t.p >= 0 && j >= t.p)
                smag = std::max(smag, std::fabs(t.s[j]));
            xmax = std::max(xmax, std::fabs(t.x[j]));
            if (j < hi)
                dxmin = std::min(dxmin, t.x[j + 1] - t.x[j]);
        }
        double u = ulp(t.x[k]);
        double pos = t.logx ? u * (2 * xmax / dxmin + 1) / t.x[k] : 2 * u / dxmin;
        ytol[k] = ymag * (C_VAL * EPS + C_POS * pos);
        stol[k] = smag * (C_VAL * EPS + C_POS * pos);
    }
}

//---------------------------------------------------------------------------//
// One query per member of every abstract class (several members for below/in/above)
std::vector<Query> make_queries(Table const& t, Rng& rng, bool with_above, bool nonneg_x)
{
    std::vector<Query> q;
    auto const& x = t.x;
    int n = int(x.size());
    // below
    q.push_back({"below", 0, fdn(x[0])});
    if (t.logx || nonneg_x)
    {
        q.push_back({"below", 0, x[0] * 0.5});
        q.push_back({"below", 0, x[0] * rng.uni(1e-6, 1)});
        q.push_back({"below", 0, x[0] * 1e-20});
        if (nonneg_x)
            q.push_back({"below", 0, 0.0});
    }
    else
    {
        q.push_back({"below", 0, x[0] - rng.uni(0, 2)});
        q.push_back({"below", 0, x[0] - 1e6});
    }
    for (int k = 0; k + 1 < n; ++k)
    {
        double a = x[k], b = x[k + 1];
        q.push_back({"at", k, a});
        q.push_back({"up", k, fup(a)});
        q.push_back({"in", k, a + 0.5 * (b - a)});
        q.push_back({"in", k, a + rng.uni(0.01, 0.99) * (b - a)});
        q.push_back({"in", k, steps(a, 2 + rng.below(3))});
        q.push_back({"in", k, steps(a, 20 + rng.below(60))});
        q.push_back({"in", k, steps(b, -2 - rng.below(3))});
        q.push_back({"in", k, steps(b, -20 - rng.below(60))});
        q.push_back({"dn", k + 1, fdn(b)});
    }
    q.push_back({"atlast", n - 1, x[n - 1]});
    if (with_above)
    {
        q.push_back({"above", n - 1, fup(x[n - 1])});
        if (t.logx)
        {
            q.push_back({"above", n - 1, x[n - 1] * (1 + 1e-9)});
            q.push_back({"above", n - 1, x[n - 1] * rng.uni(1, 100)});
            q.push_back({"above", n - 1, x[n - 1] * 1e20});
        }
        else
        {
            q.push_back({"above", n - 1, x[n - 1] + rng.uni(0, 2)});
            q.push_back({"above", n - 1, x[n - 1] + 1e6});
        }
    }
    for (int k = 0; k < int(t.ux.size()); ++k)
        q.push_back({"uk", k, t.ux[k]});
    return q;
}

//---------------------------------------------------------------------------//
struct CompQuery
{
    double x, r, v, lo, hi;
    bool fin;
};

json jseq(std::vector<double> const& v, verif::Ranker const& rank)
{
    json a = json::array();
    for (double d : v)
        a.push_back(rank(d));
    return a;
}

template<class F>
void emit_table(verif::NdjsonWriter& w,
                Table const& t,
                std::vector<Query> const& qs,
                F&& eval,
                Extrap const& ext,
                std::vector<CompQuery> const& comp = {})
{
    int n = int(t.x.size());
    std::vector<double> ytol, stol;
    knot_tolerances(t, ytol, stol);
    std::vector<double> ylo(n), yhi(n), slo(n), shi(n), sv(n);
    for (int k = 0; k < n; ++k)
    {
        ylo[k] = t.y[k] - ytol[k];
        yhi[k] = t.y[k] + ytol[k];
        sv[k] = (t.p >= 0 && k >= t.p) ? t.s[k] : 0.0;
        slo[k] = sv[k] - stol[k];
        shi[k] = sv[k] + stol[k];
    }
    struct Res
    {
        double v, ve, rlo, rhi;
        bool fin, hasref;
    };
    std::vector<Res> res;
    verif::Ranker rank;
    rank.add(0.0);
    for (std::vector<double> const* vec :
         std::initializer_list<std::vector<double> const*>{&t.x, &t.y, &ylo, &yhi, &sv, &slo, &shi})
        for (double d : *vec)
            rank.add(d);
    for (auto const& q : qs)
    {
        Res r{};
        r.v = eval(q.x);
        r.fin = std::isfinite(r.v);
        r.ve = r.fin ? r.v * q.x : 0.0;
        if (!std::isfinite(r.ve))
            r.ve = 0.0;
        double ref = std::numeric_limits<double>::quiet_NaN();
        if (std::string(q.c) == "below" && ext.below)
            ref = ext.below(q.x);
        if (std::string(q.c) == "above" && ext.above)
            ref = ext.above(q.x);
        r.hasref = std::isfinite(ref);
        r.rlo = r.hasref ? ref - std::fabs(ref) * C_EXT * EPS : 0.0;
        r.rhi = r.hasref ? ref + std::fabs(ref) * C_EXT * EPS : 0.0;
        res.push_back(r);
        rank.add(q.x);
        rank.add(fup(q.x));
        rank.add(fdn(q.x));
        if (r.fin)
            rank.add(r.v);
        rank.add(r.ve);
        rank.add(r.rlo);
        rank.add(r.rhi);
    }
    for (auto const& c : comp)
    {
        rank.add(c.x);
        rank.add(c.lo);
        rank.add(c.hi);
        if (c.fin)
        {
            rank.add(c.r);
            rank.add(c.v);
        }
    }
    rank.finalize();
    json rec;
    rec["e"] = "Table";
    rec["calc"] = t.calc;
    rec["real"] = t.real;
    rec["n"] = n;
    rec["p"] = t.p;
    rec["pu"] = t.pu;
    rec["zero"] = rank(0.0);
    rec["xk"] = jseq(t.x, rank);
    rec["yk"] = jseq(t.y, rank);
    rec["ylo"] = jseq(ylo, rank);
    rec["yhi"] = jseq(yhi, rank);
    rec["sk"] = jseq(sv, rank);
    rec["slo"] = jseq(slo, rank);
    rec["shi"] = jseq(shi, rank);
    json jq = json::array();
    for (std::size_t i = 0; i < qs.size(); ++i)
    {
        auto const& q = qs[i];
        auto const& r = res[i];
        jq.push_back({{"c", q.c},
                      {"k", q.k},
                      {"x", rank(q.x)},
                      {"xu", rank(fup(q.x))},
                      {"xd", rank(fdn(q.x))},
                      {"fin", r.fin},
                      {"v", r.fin ? rank(r.v) : -1},
                      {"ve", rank(r.ve)},
                      {"ref", r.hasref},
                      {"rlo", rank(r.rlo)},
                      {"rhi", rank(r.rhi)}});
    }
    rec["qs"] = jq;
    json jc = json::array();
    for (auto const& c : comp)
        jc.push_back({{"x", rank(c.x)},
                      {"fin", c.fin},
                      {"r", c.fin ? rank(c.r) : -1},
                      {"v", c.fin ? rank(c.v) : -1},
                      {"lo", rank(c.lo)},
                      {"hi", rank(c.hi)}});
    rec["comp"] = jc;
    w(rec);
}

//---------------------------------------------------------------------------//
// Hand-made or builder-made XsGridData + storage
struct XsStore
{
    RealsV reals;
    GridsV grids;
    RealsR ref;
    XsGridData data;

    void hand(double loge_min, double loge_max, std::vector<double> const& values, int p)
    {
        data.log_energy = UniformGridData::from_bounds(loge_min, loge_max, size_type(values.size()));
        data.prime_index = p < 0 ? XsGridData::no_scaling() : size_type(p);
        data.value = make_builder(&reals).insert_back(values.begin(), values.end());
        ref = reals;
    }
    void built(ValueGridBuilder const& b)
    {
        auto id = b.build(ValueGridInserter(&reals, &grids));
        data = grids[id];
        ref = reals;
    }
    //! knot energies exactly as the calculators compute them
    std::vector<double> knots() const
    {
        UniformGrid g(data.log_energy);
        std::vector<double> e(g.size());
        for (size_type i = 0; i < g.size(); ++i)
            e[i] = std::exp(g[i]);
        return e;
    }
    std::vector<double> values() const
    {
        std::vector<double> v;
        for (auto id : data.value)
            v.push_back(ref[id]);
        return v;
    }
    int prime() const
    {
        return data.prime_index == XsGridData::no_scaling() ? -1 : int(data.prime_index);
    }
};

// Fill Table from what the calculator will read
Table table_from_store(XsStore const& st, std::string calc, std::string real)
{
    Table t;
    t.calc = std::move(calc);
    t.real = std::move(real);
    t.logx = true;
    t.p = t.pu = st.prime();
    t.x = st.knots();
    auto v = st.values();
    t.y.resize(v.size());
    t.s.resize(v.size());
    for (std::size_t k = 0; k < v.size(); ++k)
    {
        bool scaled = t.p >= 0 && int(k) >= t.p;
        t.s[k] = scaled ? v[k] : v[k] * t.x[k];
        t.y[k] = scaled ? v[k] / t.x[k] : v[k];  // documented meaning of a stored value >= prime
    }
    return t;
}

//---------------------------------------------------------------------------//
// Value profiles
std::vector<double> gen_values(Rng& rng, std::string const& kind, int n)
{
    std::vector<double> y(n);
    if (kind == "rand")
        for (auto& v : y)
            v = std::exp(rng.uni(-3, 3));
    else if (kind == "zeros")
    {
        for (auto& v : y)
            v = rng.below(5) < 2 ? 0.0 : std::exp(rng.uni(-3, 3));
        if (rng.below(3) == 0)
            y[0] = 0;
    }
    else if (kind == "steep")
        for (auto& v : y)
            v = std::pow(10.0, rng.uni(-12, 12));
    else if (kind == "smooth")
    {
        // a/E + b-like falling curve with a bump
        double a = std::exp(rng.uni(-2, 2)), b = rng.uni(0, 1), c = rng.uni(0.2, 2);
        for (int i = 0; i < n; ++i)
            y[i] = a / std::pow(1.0 + i, c) + b + 0.3 * std::sin(i * 1.3);
        for (auto& v : y)
            v = std::fabs(v);
    }
    else
        std::abort();
    return y;
}

struct LogGrid
{
    double emin, emax;
};
LogGrid gen_loggrid(Rng& rng, int n)
{
    double lo = rng.uni(-6, 0);
    double decades = std::min(8.0 - lo, rng.uni(0.3, 2.5) * (n - 1));
    if (rng.below(4) == 0)
        decades = std::min(8.0 - lo, rng.uni(0.02, 0.2) * (n - 1));  // fine grid
    return {std::pow(10.0, lo), std::pow(10.0, lo + decades)};
}

std::vector<double> user_grid(LogGrid g, int n)
{
    std::vector<double> e(n);
    for (int i = 0; i < n; ++i)
        e[i] = g.emin * std::pow(g.emax / g.emin, double(i) / (n - 1));
    e[n - 1] = g.emax;
    return e;
}

//---------------------------------------------------------------------------//
void run_xs(verif::NdjsonWriter& w, Rng& rng, XsStore& st, Table& t)
{
    XsCalculator calc(st.data, st.ref);
    auto qs = make_queries(t, rng, true, false);
    Extrap ext;
    int n = int(t.x.size());
    if (t.p == 0)
        ext.below = [&t](double e) { return t.s[0] / e; };
    if (t.p >= 0)
        ext.above = [&t, n](double e) { return t.s[n - 1] / e; };
    emit_table(
        w, t, qs, [&](double e) { return calc(XsCalculator::Energy{e}); }, ext);
}

// Strictly increasing range-like values on the given knots
std::vector<double> gen_range(Rng& rng, std::string const& kind, std::vector<double> const& e)
{
    int n = int(e.size());
    std::vector<double> r(n);
    if (kind == "dedx")
    {
        // integral of 1/dedx with a positive random stopping power per bin
        double d0 = std::exp(rng.uni(-1, 2));
        r[0] = 2 * e[0] / d0;
        for (int i = 1; i < n; ++i)
            r[i] = r[i - 1] + (e[i] - e[i - 1]) / (d0 * std::exp(rng.uni(-1.5, 1.5)));
    }
    else if (kind == "power")
    {
        double a = rng.uni(0.3, 2.0), c = std::exp(rng.uni(-3, 3));
        for (int i = 0; i < n; ++i)
            r[i] = c * std::pow(e[i], a);
    }
    else if (kind == "rand")
    {
        r[0] = std::exp(rng.uni(-8, 2));
        for (int i = 1; i < n; ++i)
            r[i] = r[i - 1] * (1 + rng.uni(0.01, 5));
    }
    else if (kind == "const")
    {
        // constant stopping power: range = E / dedx (the hand-built problem's table)
        double d = std::exp(rng.uni(-1, 2));
        for (int i = 0; i < n; ++i)
            r[i] = e[i] / d;
    }
    else
        std::abort();
    for (int i = 1; i < n; ++i)
        if (!(r[i] > r[i - 1]))
            r[i] = r[i - 1] * (1 + 1e-6);
    return r;
}

void run_range(verif::NdjsonWriter& w, Rng& rng, XsStore& st, std::string const& real,
               std::vector<double> const& ux)
{
    // --- range
    Table t = table_from_store(st, "range", real);
    t.ux = ux;
    int n = int(t.x.size());
    RangeCalculator calc(st.data, st.ref);
    InverseRangeCalculator inv(st.data, st.ref);
    auto qs = make_queries(t, rng, true, false);
    Extrap ext;
    ext.below = [&t](double e) { return t.y[0] * std::sqrt(e / t.x[0]); };
    // inverse(range(E)) for every query energy not above the table
    std::vector<CompQuery> comp;
    for (auto const& q : qs)
    {
        if (!(q.x <= t.x[n - 1]))
            continue;
        CompQuery c{};
        c.x = q.x;
        c.r = calc(RangeCalculator::Energy{q.x});
        c.fin = std::isfinite(c.r) && c.r >= 0 && c.r <= t.y[n - 1];
        if (c.fin)
        {
            c.v = inv(c.r).value();
            c.fin = std::isfinite(c.v);
        }
        // local dE/dr: the bins next to the query
        int b = 0;
        while (b + 1 < n - 1 && t.x[b + 1] <= q.x)
            ++b;
        double slope = 0;
        for (int j = std::max(b - 1, 0); j <= std::min(b + 1, n - 2); ++j)
            slope = std::max(slope, (t.x[j + 1] - t.x[j]) / (t.y[j + 1] - t.y[j]));
        if (q.x < t.x[0])
            slope = std::max(slope, 2 * t.x[0] / t.y[0]);
        double tol = C_CMP * EPS * q.x + C_CMP * ulp(c.fin ? c.r : 0.0) * slope;
        if (q.x < t.x[0])
            tol += C_EXT * EPS * q.x;
        c.lo = q.x - tol;
        c.hi = q.x + tol;
        comp.push_back(c);
    }
    emit_table(
        w, t, qs, [&](double e) { return calc(RangeCalculator::Energy{e}); }, ext, comp);

    // --- inverse range: abscissae = ranges, values = energies
    Table ti;
    ti.calc = "invrange";
    ti.real = real;
    ti.logx = false;
    ti.x = t.y;
    ti.y = t.x;
    ti.s.assign(n, 0.0);
    auto qi = make_queries(ti, rng, false, true);
    Extrap exti;
    exti.below = [&ti](double r) { return ti.y[0] * (r / ti.x[0]) * (r / ti.x[0]); };
    emit_table(
        w, ti, qi, [&](double r) { return inv(r).value(); }, exti);
}

//---------------------------------------------------------------------------//
void run_generic(verif::NdjsonWriter& w, Rng& rng, int n, std::string const& real)
{
    std::vector<double> x(n), y(n);
    double cur = rng.uni(-5, 5);
    if (real == "gpos")
        cur = std::exp(rng.uni(-8, 2));
    for (int i = 0; i < n; ++i)
    {
        x[i] = cur;
        cur += (real == "gpos") ? cur * rng.uni(0.01, 4) : rng.uni(1e-3, 3);
    }
    bool mono = (real == "gmono");
    double acc = rng.uni(-2, 2);
    for (int i = 0; i < n; ++i)
    {
        if (mono)
        {
            acc += rng.uni(1e-3, 2);
            y[i] = acc;
        }
        else if (real == "gzero")
            y[i] = rng.below(2) ? 0.0 : rng.uni(-3, 3);
        else
            y[i] = rng.uni(-3, 3);
    }
    RealsV reals;
    GenericGridBuilder build(&reals);
    GenericGridRecord grec = build(Span<double const>(x.data(), x.size()), Span<double const>(y.data(), y.size()));
    RealsR ref;
    ref = reals;
    GenericCalculator calc(grec, ref);
    Table t;
    t.calc = "generic";
    t.real = real;
    t.logx = false;
    for (int i = 0; i < n; ++i)
    {
        t.x.push_back(calc.grid()[i]);
        t.y.push_back(calc[i]);
    }
    t.s.assign(n, 0.0);
    auto qs = make_queries(t, rng, true, false);
    emit_table(
        w, t, qs, [&](double v) { return calc(v); }, Extrap{});
    if (mono)
    {
        // inverted calculators (monotone tables only): both constructions
        for (int which = 0; which < 2; ++which)
        {
            GenericCalculator ic = which ? calc.make_inverse()
                                         : GenericCalculator::from_inverse(grec, ref);
            Table ti;
            ti.calc = "generic";
            ti.real = which ? "gmono_make_inverse" : "gmono_from_inverse";
            ti.logx = false;
            for (int i = 0; i < n; ++i)
            {
                ti.x.push_back(ic.grid()[i]);
                ti.y.push_back(ic[i]);
            }
            ti.s.assign(n, 0.0);
            auto qi = make_queries(ti, rng, true, false);
            emit_table(
                w, ti, qi, [&](double v) { return ic(v); }, Extrap{});
        }
    }
}

//---------------------------------------------------------------------------//
// mode tables: every (n, p) x realisation, `reps` seeds; n in [nlo, nhi]
void mode_tables(unsigned long seed, int reps, int nlo, int nhi, std::string const& out)
{
    verif::NdjsonWriter w(out);
    Rng rng(seed);
    std::size_t ntab = 0;
    for (int rep = 0; rep < reps; ++rep)
    {
        for (int n = nlo; n <= nhi; ++n)
        {
            // ---- hand-made xs tables: every prime position
            for (int p = -1; p < n; ++p)
            {
                for (std::string kind : {"rand", "zeros", "steep", "smooth"})
                {
                    LogGrid g = gen_loggrid(rng, n);
                    XsStore st;
                    auto y = gen_values(rng, kind, n);
                    // first pass: knots as the calculator computes them
                    st.hand(std::log(g.emin), std::log(g.emax), y, p);
                    auto e = st.knots();
                    std::vector<double> stored(n);
                    for (int k = 0; k < n; ++k)
                        stored[k] = (p >= 0 && k >= p) ? y[k] * e[k] : y[k];
                    XsStore st2;
                    st2.hand(std::log(g.emin), std::log(g.emax), stored, p);
                    Table t = table_from_store(st2, "xs", kind);
                    run_xs(w, rng, st2, t);
                    ++ntab;
                }
            }
            // ---- builder-made tables
            {
                // ValueGridXsBuilder constructor: prime at any grid point but the last
                for (int p = 0; p + 1 < n; ++p)
                {
                    LogGrid g = gen_loggrid(rng, n);
                    auto ue = user_grid(g, n);
                    auto y = gen_values(rng, rep % 2 ? "rand" : "zeros", n);
                    std::vector<double> xs(n);
                    for (int k = 0; k < n; ++k)
                        xs[k] = k >= p ? y[k] * ue[k] : y[k];
                    ValueGridXsBuilder b(ue[0], ue[p], ue[n - 1], xs);
                    XsStore st;
                    st.built(b);
                    Table t = table_from_store(st, "xs", "b_ctor");
                    t.pu = p;
                    t.ux = ue;
                    run_xs(w, rng, st, t);
                    ++ntab;
                }
                // from_geant: lower (unscaled) + upper (scaled) tables joined at the prime energy
                for (int p = 1; p + 1 < n; ++p)
                {
                    LogGrid g = gen_loggrid(rng, n);
                    auto ue = user_grid(g, n);
                    auto y = gen_values(rng, "rand", n);
                    std::vector<double> le(ue.begin(), ue.begin() + p + 1), l(y.begin(), y.begin() + p + 1);
                    std::vector<double> pe(ue.begin() + p, ue.end()), lp;
                    for (int k = p; k < n; ++k)
                        lp.push_back(y[k] * ue[k]);
                    auto b = ValueGridXsBuilder::from_geant(
                        make_span(le), make_span(l), make_span(pe), make_span(lp));
                    XsStore st;
                    st.built(*b);
                    Table t = table_from_store(st, "xs", "b_geant");
                    t.pu = p;
                    t.ux = ue;
                    run_xs(w, rng, st, t);
                    ++ntab;
                }
                {
                    // from_scaled: everything scaled
                    LogGrid g = gen_loggrid(rng, n);
                    auto ue = user_grid(g, n);
                    auto y = gen_values(rng, "rand", n);
                    std::vector<double> lp(n);
                    for (int k = 0; k < n; ++k)
                        lp[k] = y[k] * ue[k];
                    auto b = ValueGridXsBuilder::from_scaled(make_span(ue), make_span(lp));
                    XsStore st;
                    st.built(*b);
                    Table t = table_from_store(st, "xs", "b_scaled");
                    t.pu = 0;
                    t.ux = ue;
                    run_xs(w, rng, st, t);
                    ++ntab;
                }
                {
                    // ValueGridLogBuilder: energy loss (no scaling)
                    LogGrid g = gen_loggrid(rng, n);
                    auto ue = user_grid(g, n);
                    auto y = gen_values(rng, rep % 2 ? "smooth" : "rand", n);
                    auto b = ValueGridLogBuilder::from_geant(make_span(ue), make_span(y));
                    XsStore st;
                    st.built(*b);
                    Table t = table_from_store(st, "eloss", "b_log");
                    t.ux = ue;
                    run_xs(w, rng, st, t);
                    ++ntab;
                }
            }
            // ---- range + inverse range
            for (std::string kind : {"dedx", "power", "rand", "const"})
            {
                LogGrid g = gen_loggrid(rng, n);
                XsStore st0;
                st0.hand(std::log(g.emin), std::log(g.emax), std::vector<double>(n, 1.0), -1);
                auto r = gen_range(rng, kind, st0.knots());
                XsStore st;
                st.hand(std::log(g.emin), std::log(g.emax), r, -1);
                run_range(w, rng, st, kind, {});
                ntab += 2;
            }
            {
                LogGrid g = gen_loggrid(rng, n);
                auto ue = user_grid(g, n);
                auto r = gen_range(rng, "dedx", ue);
                auto b = ValueGridLogBuilder::from_range(make_span(ue), make_span(r));
                XsStore st;
                st.built(*b);
                run_range(w, rng, st, "b_range", ue);
                ntab += 2;
            }
            // ---- generic
            for (std::string kind : {"grand", "gzero", "gmono", "gpos"})
                run_generic(w, rng, n, kind);
        }
    }
    w({{"e", "Close"}, {"n", w.count()}});
    (void)ntab;
}

}  // namespace

//---------------------------------------------------------------------------//
//PHYS-BEGIN
void mode_loss(unsigned long, int, std::string const&) {}
void mode_msc(unsigned long, int, std::string const&) {}
//PHYS-END

int main(int argc, char** argv)
{
    std::string mode = argc > 1 ? argv[1] : "";
    if (mode == "tables" && argc == 7)
        mode_tables(std::strtoul(argv[2], nullptr, 10), std::atoi(argv[3]), std::atoi(argv[4]),
                    std::atoi(argv[5]), argv[6]);
    else if (mode == "loss" && argc == 5)
        mode_loss(std::strtoul(argv[2], nullptr, 10), std::atoi(argv[3]), argv[4]);
    else if (mode == "msc" && argc == 5)
        mode_msc(std::strtoul(argv[2], nullptr, 10), std::atoi(argv[3]), argv[4]);
    else
    {
        std::cerr << "usage: vgrid tables <seed> <reps> <nlo> <nhi> <out> | loss <seed> <n> <out> | "
                     "msc <seed> <n> <out>\n";
        return 2;
    }
    return 0;
}
