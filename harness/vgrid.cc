// C14 harness: physics table lookups, continuous loss, MSC path conversions.
//
// Concretises the abstract test cases of spec/GridMC.tla (grid size x prime_index position x
// query class) on several numeric realisations and drives the REAL calculators:
//   XsCalculator / EnergyLossCalculator, RangeCalculator, InverseRangeCalculator,
//   GenericCalculator (tables built by hand, by ValueGrid*Builder + ValueGridInserter and by
//   GenericGridBuilder), calc_mean_energy_loss on a real PhysicsTrackView of a hand-built
//   e-/e+ ionisation problem, MscStepToGeo / MscStepFromGeo with a real UrbanMscHelper.
//
// Doubles reach TLC as dense ranks (one Ranker per record).  This file computes NO expected
// results.  What it does add to the trace, besides arguments and returned values:
//   * the table as the calculator sees it (knot abscissae exp(front + k*delta), stored values,
//     y_k = value_k / E_k for k >= prime_index: the documented meaning of the stored value),
//   * TOLERANCE BRACKETS y_k -/+ tol_k (trusted base, table below = table in spec/Grid.tla),
//   * ORACLE-DECIDED reference values for the documented extrapolation formulas, computed with
//     plain arithmetic from the documentation (never calling the code under test):
//       xs   above/below a 1/E-scaled end : value_end / E
//       range below the table             : r_0 * sqrt(E / E_0)
//       inverse range below the table     : E_0 * (r / r_0)^2
//     each with a relative bracket, and the round-trip bracket E(1 -/+ eps) (+ slope term).
//
// Tolerance table (units: eps = 2^-52)
//   C_VAL = 4    rounding of the interpolation arithmetic, relative to the largest |table value|
//                among the knot and its two neighbours (fma(slope, dx, y0) has an absolute error
//                of a few eps * |y1 - y0|, not of eps * |result|)
//   C_POS = 128  near a knot the neighbouring bin's line may be used (log(E) vs the log grid:
//                F-GRID-1 and the log/exp round trip displace bin edges by < 100 ulp(E)); its
//                effect on the value is bounded by C_POS * ulp(x_k) * (bound on |slope|)
//   C_PRIME = 1e-11 (relative, not eps) the grid point that IS the user's first scaled energy E':
//                within E'(1 -/+ 1e-11) -- the builder documents soft equality (1e-12 relative,
//                1e-14 absolute) on the LOG energies, |log E| <= 18.5
//   C_EXT = 64   relative bracket around an oracle-decided extrapolation reference
//   C_LOSS = 32  mean energy loss, monotone in the step up to l + 32 eps E (E - E' cancellation)
//   C_CMP = 16   inverse(range(E)): 16 eps E + 16 ulp(r) * (local dE/dr); if E is within C_POS ulp of
//                a knot: + (that knot's range bracket) * dE/dr; if range(E) is within C_POS ulp of a
//                tabulated range: + C_POS ulp(r_k) * dE/dr; below the table: + C_EXT eps E
#include <cmath>
#include <cstdlib>
#include <functional>
#include <limits>
#include <memory>
#include <random>
#include <string>
#include <vector>

#include "corecel/data/Collection.hh"
#include "corecel/data/CollectionBuilder.hh"
#include "corecel/data/CollectionStateStore.hh"
#include "corecel/grid/UniformGrid.hh"
#include "corecel/grid/UniformGridData.hh"
#include "celeritas/em/data/UrbanMscData.hh"
#include "celeritas/em/msc/detail/MscStepFromGeo.hh"
#include "celeritas/em/msc/detail/MscStepToGeo.hh"
#include "celeritas/em/msc/detail/UrbanMscHelper.hh"
#include "celeritas/em/process/EIonizationProcess.hh"
#include "celeritas/grid/EnergyLossCalculator.hh"
#include "celeritas/grid/GenericCalculator.hh"
#include "celeritas/grid/GenericGridBuilder.hh"
#include "celeritas/grid/GenericGridData.hh"
#include "celeritas/grid/InverseRangeCalculator.hh"
#include "celeritas/grid/RangeCalculator.hh"
#include "celeritas/grid/ValueGridBuilder.hh"
#include "celeritas/grid/ValueGridInserter.hh"
#include "celeritas/grid/XsCalculator.hh"
#include "celeritas/grid/XsGridData.hh"
#include "celeritas/mat/MaterialTrackView.hh"
#include "celeritas/phys/ParticleTrackView.hh"
#include "celeritas/phys/PhysicsStepUtils.hh"
#include "celeritas/phys/PhysicsTrackView.hh"

#include "vjson.hh"
#include "vproblem.hh"

using namespace celeritas;
using verif::json;

namespace
{
//---------------------------------------------------------------------------//
constexpr double EPS = std::numeric_limits<double>::epsilon();
constexpr double C_VAL = 4;
constexpr double C_POS = 128;
constexpr double C_EXT = 64;
constexpr double C_CMP = 16;
constexpr double C_PRIME = 1e-11;  // a grid point IS the user's E' if within E'(1 -/+ 1e-11)
double const INF = std::numeric_limits<double>::infinity();
//! VGRID_RAW=1: add the raw doubles (%.17g) to every record for diagnosis (ignored by the spec)
bool const g_raw = std::getenv("VGRID_RAW") != nullptr;
std::string raw(double v)
{
    char buf[64];
    std::snprintf(buf, sizeof(buf), "%.17g", v);
    return buf;
}
json raws(std::vector<double> const& v)
{
    json a = json::array();
    for (double d : v)
        a.push_back(raw(d));
    return a;
}

inline double fup(double x)
{
    return std::nextafter(x, INF);
}
inline double fdn(double x)
{
    return std::nextafter(x, -INF);
}
inline double ulp(double x)
{
    x = std::fabs(x);
    return fup(x) - x;
}
inline double steps(double x, int n)
{
    for (; n > 0; --n)
        x = fup(x);
    for (; n < 0; ++n)
        x = fdn(x);
    return x;
}

struct Rng
{
    std::mt19937_64 eng;
    explicit Rng(unsigned long s) : eng(s) {}
    double u01() { return (eng() >> 11) * (1.0 / 9007199254740992.0); }
    double uni(double a, double b) { return a + (b - a) * u01(); }
    int below(int n) { return int(eng() % static_cast<unsigned long>(n)); }
};

using RealsV = Collection<real_type, Ownership::value, MemSpace::host>;
using RealsR = Collection<real_type, Ownership::const_reference, MemSpace::host>;
using GridsV = Collection<XsGridData, Ownership::value, MemSpace::host>;

//---------------------------------------------------------------------------//
// The table as the calculator sees it
struct Table
{
    std::string calc;  // xs | eloss | range | invrange | generic
    std::string real;  // realisation label
    int p{-1};  // prime index actually stored (-1 none)
    // p is the EXPECTED prime index: for builder realisations the index of the grid point that IS
    // the user's first scaled energy E' (the spec re-derives it from the knots and E'), and the
    // stored values are read with it (value_k / E_k for k >= p); pb is what the builder stored.
    int pb{-1};
    double eprime{std::numeric_limits<double>::quiet_NaN()};  // user's E' (builder realisations)
    bool logx{true};  // abscissae are positive energies of a log grid
    std::vector<double> x;  // knot abscissae
    std::vector<double> y;  // unscaled table value at knot
    std::vector<double> s;  // stored scaled value (= y * x), meaningful for k >= p
    std::vector<double> ux;  // user's knot abscissae (builder realisations)
    std::vector<double> lg;  // diagnostics: UniformGridData front, back, delta of the log grid
};

struct Query
{
    char const* c;  // below at up in dn atlast above uk
    int k;
    double x;
};

struct Extrap
{
    // oracle-decided reference for a query outside the grid (NaN: none)
    std::function<double(double)> below;
    std::function<double(double)> above;
    // diagnostic: does the real UniformGrid::find send this query to bin size-1 ?
    std::function<bool(double)> past_end;
};

//---------------------------------------------------------------------------//
// Bracket half-widths per knot (see the tolerance table at the top)
void knot_tolerances(Table const& t, std::vector<double>& ytol, std::vector<double>& stol)
{
    int n = int(t.x.size());
    ytol.assign(n, 0);
    stol.assign(n, 0);
    for (int k = 0; k < n; ++k)
    {
        int lo = std::max(k - 1, 0), hi = std::min(k + 1, n - 1);
        double ymag = 0, smag = 0, xmax = 0, dxmin = INF;
        for (int j = lo; j <= hi; ++j)
        {
            ymag = std::max(ymag, std::fabs(t.y[j]));
            smag = std::max(smag, std::fabs(t.y[j] * t.x[j]));
            if (t.p >= 0 && j >= t.p)
                smag = std::max(smag, std::fabs(t.s[j]));
            xmax = std::max(xmax, std::fabs(t.x[j]));
            if (j < hi)
                dxmin = std::min(dxmin, t.x[j + 1] - t.x[j]);
        }
        double u = ulp(t.x[k]);
        double pos = t.logx ? u * (2 * xmax / dxmin + 1) / t.x[k] : 2 * u / dxmin;
        ytol[k] = ymag * (C_VAL * EPS + C_POS * pos);
        stol[k] = smag * (C_VAL * EPS + C_POS * pos);
    }
}

//---------------------------------------------------------------------------//
// One query per member of every abstract class (several members for below/in/above)
std::vector<Query> make_queries(Table const& t, Rng& rng, bool with_above, bool nonneg_x)
{
    std::vector<Query> q;
    auto const& x = t.x;
    int n = int(x.size());
    // below
    q.push_back({"below", 0, fdn(x[0])});
    if (t.logx || nonneg_x)
    {
        q.push_back({"below", 0, x[0] * 0.5});
        q.push_back({"below", 0, x[0] * rng.uni(1e-6, 1)});
        q.push_back({"below", 0, x[0] * 1e-20});
        if (nonneg_x)
            q.push_back({"below", 0, 0.0});
    }
    else
    {
        q.push_back({"below", 0, x[0] - rng.uni(0.1, 2) - 1e-3 * std::fabs(x[0])});
        q.push_back({"below", 0, x[0] - 1e6 - std::fabs(x[0])});
    }
    for (int k = 0; k + 1 < n; ++k)
    {
        double a = x[k], b = x[k + 1];
        q.push_back({"at", k, a});
        q.push_back({"up", k, fup(a)});
        q.push_back({"in", k, a + 0.5 * (b - a)});
        q.push_back({"in", k, a + rng.uni(0.01, 0.99) * (b - a)});
        q.push_back({"in", k, steps(a, 2 + rng.below(3))});
        q.push_back({"in", k, steps(a, 20 + rng.below(100))});
        q.push_back({"in", k, steps(a, 129 + rng.below(400))});
        q.push_back({"in", k, steps(b, -2 - rng.below(3))});
        q.push_back({"in", k, steps(b, -20 - rng.below(100))});
        q.push_back({"in", k, steps(b, -129 - rng.below(400))});
        q.push_back({"dn", k + 1, fdn(b)});
    }
    q.push_back({"atlast", n - 1, x[n - 1]});
    if (with_above)
    {
        q.push_back({"above", n - 1, fup(x[n - 1])});
        if (t.logx)
        {
            q.push_back({"above", n - 1, x[n - 1] * (1 + 1e-9)});
            q.push_back({"above", n - 1, x[n - 1] * rng.uni(1, 100)});
            q.push_back({"above", n - 1, x[n - 1] * 1e20});
        }
        else
        {
            q.push_back({"above", n - 1, x[n - 1] + rng.uni(0.1, 2) + 1e-3 * std::fabs(x[n - 1])});
            q.push_back({"above", n - 1, x[n - 1] + 1e6 + std::fabs(x[n - 1])});
        }
    }
    for (int k = 0; k < int(t.ux.size()); ++k)
        q.push_back({"uk", k, t.ux[k]});
    return q;
}

//---------------------------------------------------------------------------//
struct CompQuery
{
    double x, r, v, lo, hi;
    bool fin;
    bool pe;  // range(E) was computed with a read past the end of the table (F-GRID-1a)
};

json jseq(std::vector<double> const& v, verif::Ranker const& rank)
{
    json a = json::array();
    for (double d : v)
        a.push_back(rank(d));
    return a;
}

template<class F>
void emit_table(verif::NdjsonWriter& w,
                Table const& t,
                std::vector<Query> const& qs,
                F&& eval,
                Extrap const& ext,
                std::vector<CompQuery> const& comp = {},
                int w0 = 0,
                int w1 = -1)
{
    // [w0, w1]: window of knots that is logged (default: the whole table).  Brackets are computed
    // on the full table; a window's last knot is queried as "atlast" (same relations as "at").
    int n = int(t.x.size());
    if (w1 < 0)
        w1 = n - 1;
    auto cut = [w0, w1](std::vector<double> const& v) {
        return std::vector<double>(v.begin() + w0, v.begin() + w1 + 1);
    };
    std::vector<double> ytol, stol;
    knot_tolerances(t, ytol, stol);
    std::vector<double> ylo(n), yhi(n), slo(n), shi(n), sv(n), xnl(n), xnh(n);
    for (int k = 0; k < n; ++k)
    {
        xnl[k] = t.x[k] - C_POS * ulp(t.x[k]);
        xnh[k] = t.x[k] + C_POS * ulp(t.x[k]);
        ylo[k] = t.y[k] - ytol[k];
        yhi[k] = t.y[k] + ytol[k];
        sv[k] = (t.p >= 0 && k >= t.p) ? t.s[k] : 0.0;
        slo[k] = sv[k] - stol[k];
        shi[k] = sv[k] + stol[k];
    }
    struct Res
    {
        double v, ve, rlo, rhi;
        bool fin, hasref;
    };
    std::vector<Res> res;
    verif::Ranker rank;
    rank.add(0.0);
    for (std::vector<double> const* vec :
         std::initializer_list<std::vector<double> const*>{&t.x, &t.y, &ylo, &yhi, &sv, &slo, &shi, &xnl, &xnh})
        for (double d : *vec)
            rank.add(d);
    for (auto const& q : qs)
    {
        Res r{};
        r.v = eval(q.x);
        r.fin = std::isfinite(r.v);
        r.ve = r.fin ? r.v * q.x : 0.0;
        if (!std::isfinite(r.ve))
            r.ve = 0.0;
        double ref = std::numeric_limits<double>::quiet_NaN();
        if (std::string(q.c) == "below" && ext.below)
            ref = ext.below(q.x);
        if (std::string(q.c) == "above" && ext.above)
            ref = ext.above(q.x);
        r.hasref = std::isfinite(ref);
        r.rlo = r.hasref ? ref - std::fabs(ref) * C_EXT * EPS : 0.0;
        r.rhi = r.hasref ? ref + std::fabs(ref) * C_EXT * EPS : 0.0;
        res.push_back(r);
        rank.add(q.x);
        rank.add(fup(q.x));
        rank.add(fdn(q.x));
        if (r.fin)
            rank.add(r.v);
        rank.add(r.ve);
        rank.add(r.rlo);
        rank.add(r.rhi);
    }
    for (auto const& c : comp)
    {
        rank.add(c.x);
        rank.add(c.lo);
        rank.add(c.hi);
        if (c.fin)
        {
            rank.add(c.r);
            rank.add(c.v);
        }
    }
    // the user's first scaled energy with the builder's documented soft equality (C_PRIME)
    bool hasep = std::isfinite(t.eprime);
    double ep = hasep ? t.eprime : 0.0;
    rank.add(ep);
    rank.add(ep * (1 - C_PRIME));
    rank.add(ep * (1 + C_PRIME));
    rank.finalize();
    json rec;
    rec["e"] = "Table";
    rec["calc"] = t.calc;
    rec["real"] = t.real;
    rec["n"] = w1 - w0 + 1;
    rec["nfull"] = n;
    rec["p"] = t.p < 0 ? -1 : t.p - w0;
    rec["pb"] = t.pb < 0 ? -1 : t.pb - w0;
    rec["hasep"] = hasep;
    rec["ep"] = rank(ep);
    rec["eplo"] = rank(ep * (1 - C_PRIME));
    rec["ephi"] = rank(ep * (1 + C_PRIME));
    rec["zero"] = rank(0.0);
    rec["xk"] = jseq(cut(t.x), rank);
    rec["yk"] = jseq(cut(t.y), rank);
    rec["ylo"] = jseq(cut(ylo), rank);
    rec["yhi"] = jseq(cut(yhi), rank);
    rec["sk"] = jseq(cut(sv), rank);
    rec["slo"] = jseq(cut(slo), rank);
    rec["shi"] = jseq(cut(shi), rank);
    rec["xnl"] = jseq(cut(xnl), rank);
    rec["xnh"] = jseq(cut(xnh), rank);
    json jq = json::array();
    for (std::size_t i = 0; i < qs.size(); ++i)
    {
        auto const& q = qs[i];
        auto const& r = res[i];
        jq.push_back({{"c", q.c},
                      {"k", q.k - w0},
                      {"x", rank(q.x)},
                      {"xu", rank(fup(q.x))},
                      {"xd", rank(fdn(q.x))},
                      {"fin", r.fin},
                      {"pe", ext.past_end ? ext.past_end(q.x) : false},
                      {"v", r.fin ? rank(r.v) : -1},
                      {"ve", rank(r.ve)},
                      {"ref", r.hasref},
                      {"rlo", rank(r.rlo)},
                      {"rhi", rank(r.rhi)}});
    }
    rec["qs"] = jq;
    json jc = json::array();
    for (auto const& c : comp)
        jc.push_back({{"x", rank(c.x)},
                      {"fin", c.fin},
                      {"pe", c.pe},
                      {"r", c.fin ? rank(c.r) : -1},
                      {"v", c.fin ? rank(c.v) : -1},
                      {"lo", rank(c.lo)},
                      {"hi", rank(c.hi)}});
    rec["comp"] = jc;
    if (g_raw)
    {
        std::vector<double> qx, qv;
        for (std::size_t i = 0; i < qs.size(); ++i)
        {
            qx.push_back(qs[i].x);
            qv.push_back(res[i].v);
        }
        rec["raw"] = {{"x", raws(t.x)}, {"y", raws(t.y)}, {"s", raws(t.s)}, {"ylo", raws(ylo)},
                      {"yhi", raws(yhi)}, {"qx", raws(qx)}, {"qv", raws(qv)}};
        json cr = json::array();
        for (auto const& c : comp)
            cr.push_back({raw(c.x), raw(c.r), raw(c.v), raw(c.lo), raw(c.hi)});
        rec["raw"]["comp"] = cr;
        rec["raw"]["ux"] = raws(t.ux);
        rec["raw"]["w0"] = w0;
        rec["raw"]["eprime"] = raw(t.eprime);
        rec["raw"]["loggrid_front_back_delta"] = raws(t.lg);
    }
    w(rec);
}

//---------------------------------------------------------------------------//
// Hand-made or builder-made XsGridData + storage
struct XsStore
{
    RealsV reals;
    GridsV grids;
    RealsR ref;
    XsGridData data;

    void hand(double loge_min, double loge_max, std::vector<double> const& values, int p)
    {
        data.log_energy = UniformGridData::from_bounds(loge_min, loge_max, size_type(values.size()));
        data.prime_index = p < 0 ? XsGridData::no_scaling() : size_type(p);
        data.value = make_builder(&reals).insert_back(values.begin(), values.end());
        pad();
    }
    //! In the real physics storage another table follows.  One ulp below the last knot
    //! UniformGrid::find can return size-1 (F-GRID-1) and the calculators then read
    //! value[size]: keep that read inside the allocation and deterministic.
    void pad()
    {
        double last = reals[ItemId<real_type>(reals.size() - 1)];
        make_builder(&reals).push_back(1.5 * last + 1);
        ref = reals;
    }
    //! would the calculators read one element past this table for this energy?
    bool reads_past_end(double e) const
    {
        UniformGrid g(data.log_energy);
        double l = std::log(e);
        return l > g.front() && l < g.back() && g.find(l) + 1 >= g.size();
    }
    void built(ValueGridBuilder const& b)
    {
        auto id = b.build(ValueGridInserter(&reals, &grids));
        data = grids[id];
        pad();
    }
    //! knot energies exactly as the calculators compute them
    std::vector<double> knots() const
    {
        UniformGrid g(data.log_energy);
        std::vector<double> e(g.size());
        for (size_type i = 0; i < g.size(); ++i)
            e[i] = std::exp(g[i]);
        return e;
    }
    std::vector<double> values() const
    {
        std::vector<double> v;
        for (auto id : data.value)
            v.push_back(ref[id]);
        return v;
    }
    int prime() const
    {
        return data.prime_index == XsGridData::no_scaling() ? -1 : int(data.prime_index);
    }
};

// Fill Table from what the calculator will read
Table table_from_store(XsStore const& st, std::string calc, std::string real, int expected_prime = -2,
                       double eprime = std::numeric_limits<double>::quiet_NaN())
{
    Table t;
    t.calc = std::move(calc);
    t.real = std::move(real);
    t.logx = true;
    t.pb = st.prime();
    t.p = expected_prime == -2 ? t.pb : expected_prime;
    t.eprime = eprime;
    t.x = st.knots();
    t.lg = {st.data.log_energy.front, st.data.log_energy.back, st.data.log_energy.delta};
    auto v = st.values();
    t.y.resize(v.size());
    t.s.resize(v.size());
    for (std::size_t k = 0; k < v.size(); ++k)
    {
        bool scaled = t.p >= 0 && int(k) >= t.p;
        t.s[k] = scaled ? v[k] : v[k] * t.x[k];
        t.y[k] = scaled ? v[k] / t.x[k] : v[k];  // documented meaning of a stored value >= prime
    }
    return t;
}

//---------------------------------------------------------------------------//
// Value profiles
std::vector<double> gen_values(Rng& rng, std::string const& kind, int n)
{
    std::vector<double> y(n);
    if (kind == "rand")
        for (auto& v : y)
            v = std::exp(rng.uni(-3, 3));
    else if (kind == "zeros")
    {
        for (auto& v : y)
            v = rng.below(5) < 2 ? 0.0 : std::exp(rng.uni(-3, 3));
        if (rng.below(3) == 0)
            y[0] = 0;
    }
    else if (kind == "steep")
        for (auto& v : y)
            v = std::pow(10.0, rng.uni(-12, 12));
    else if (kind == "smooth")
    {
        // a/E + b-like falling curve with a bump
        double a = std::exp(rng.uni(-2, 2)), b = rng.uni(0, 1), c = rng.uni(0.2, 2);
        for (int i = 0; i < n; ++i)
            y[i] = a / std::pow(1.0 + i, c) + b + 0.3 * std::sin(i * 1.3);
        for (auto& v : y)
            v = std::fabs(v);
    }
    else
        std::abort();
    return y;
}

struct LogGrid
{
    double emin, emax;
};
LogGrid gen_loggrid(Rng& rng, int n)
{
    double lo = rng.uni(-6, 0);
    double decades = std::min(8.0 - lo, rng.uni(0.3, 2.5) * (n - 1));
    if (rng.below(4) == 0)
        decades = std::min(8.0 - lo, rng.uni(0.02, 0.2) * (n - 1));  // fine grid
    return {std::pow(10.0, lo), std::pow(10.0, lo + decades)};
}

std::vector<double> user_grid(LogGrid g, int n)
{
    std::vector<double> e(n);
    for (int i = 0; i < n; ++i)
        e[i] = g.emin * std::pow(g.emax / g.emin, double(i) / (n - 1));
    e[n - 1] = g.emax;
    return e;
}

//---------------------------------------------------------------------------//
void run_xs(verif::NdjsonWriter& w, Rng& rng, XsStore& st, Table& t)
{
    XsCalculator calc(st.data, st.ref);
    auto qs = make_queries(t, rng, true, false);
    Extrap ext;
    int n = int(t.x.size());
    if (t.p == 0)
        ext.below = [&t](double e) { return t.s[0] / e; };
    if (t.p >= 0)
        ext.above = [&t, n](double e) { return t.s[n - 1] / e; };
    ext.past_end = [&st](double e) { return st.reads_past_end(e); };
    emit_table(
        w, t, qs, [&](double e) { return calc(XsCalculator::Energy{e}); }, ext);
}

// Strictly increasing range-like values on the given knots
std::vector<double> gen_range(Rng& rng, std::string const& kind, std::vector<double> const& e)
{
    int n = int(e.size());
    std::vector<double> r(n);
    if (kind == "dedx")
    {
        // integral of 1/dedx with a positive random stopping power per bin
        double d0 = std::exp(rng.uni(-1, 2));
        r[0] = 2 * e[0] / d0;
        for (int i = 1; i < n; ++i)
            r[i] = r[i - 1] + (e[i] - e[i - 1]) / (d0 * std::exp(rng.uni(-1.5, 1.5)));
    }
    else if (kind == "power")
    {
        double a = rng.uni(0.3, 2.0), c = std::exp(rng.uni(-3, 3));
        for (int i = 0; i < n; ++i)
            r[i] = c * std::pow(e[i], a);
    }
    else if (kind == "rand")
    {
        r[0] = std::exp(rng.uni(-8, 2));
        for (int i = 1; i < n; ++i)
            r[i] = r[i - 1] * (1 + rng.uni(0.01, 5));
    }
    else if (kind == "const")
    {
        // constant stopping power: range = E / dedx (the hand-built problem's table)
        double d = std::exp(rng.uni(-1, 2));
        for (int i = 0; i < n; ++i)
            r[i] = e[i] / d;
    }
    else
        std::abort();
    for (int i = 1; i < n; ++i)
        if (!(r[i] > r[i - 1]))
            r[i] = r[i - 1] * (1 + 1e-6);
    return r;
}

void run_range(verif::NdjsonWriter& w, Rng& rng, XsStore& st, std::string const& real,
               std::vector<double> const& ux)
{
    // --- range
    Table t = table_from_store(st, "range", real);
    t.ux = ux;
    int n = int(t.x.size());
    RangeCalculator calc(st.data, st.ref);
    InverseRangeCalculator inv(st.data, st.ref);
    auto qs = make_queries(t, rng, true, false);
    Extrap ext;
    ext.below = [&t](double e) { return t.y[0] * std::sqrt(e / t.x[0]); };
    ext.past_end = [&st](double e) { return st.reads_past_end(e); };
    // inverse(range(E)) for every query energy not above the table
    std::vector<CompQuery> comp;
    std::vector<double> rtol, rstol;
    knot_tolerances(t, rtol, rstol);
    for (auto const& q : qs)
    {
        if (!(q.x <= t.x[n - 1]))
            continue;
        CompQuery c{};
        c.x = q.x;
        c.pe = st.reads_past_end(q.x);
        c.r = calc(RangeCalculator::Energy{q.x});
        c.fin = std::isfinite(c.r) && c.r >= 0 && c.r <= t.y[n - 1];
        if (c.fin)
        {
            c.v = inv(c.r).value();
            c.fin = std::isfinite(c.v);
        }
        // local dE/dr: the bins next to the query
        int b = 0;
        while (b + 1 < n - 1 && t.x[b + 1] <= q.x)
            ++b;
        double slope = 0;
        for (int j = std::max(b - 1, 0); j <= std::min(b + 1, n - 2); ++j)
            slope = std::max(slope, (t.x[j + 1] - t.x[j]) / (t.y[j + 1] - t.y[j]));
        if (q.x < t.x[0])
            slope = std::max(slope, 2 * t.x[0] / t.y[0]);
        double tol = C_CMP * EPS * q.x + C_CMP * ulp(c.fin ? c.r : 0.0) * slope;
        if (q.x < t.x[0])
            tol += C_EXT * EPS * q.x;
        // near a knot: the range may sit anywhere in that knot's bracket, and the inverse may
        // use either neighbouring line; both are amplified by the local dE/dr
        for (int k = 0; k < n; ++k)
        {
            double sk = 0;
            for (int j = std::max(k - 1, 0); j <= std::min(k, n - 2); ++j)
                sk = std::max(sk, (t.x[j + 1] - t.x[j]) / (t.y[j + 1] - t.y[j]));
            if (std::fabs(q.x - t.x[k]) <= C_POS * ulp(t.x[k]))
                tol += rtol[k] * sk;
            if (c.fin && std::fabs(c.r - t.y[k]) <= C_POS * ulp(t.y[k]))
                tol += C_POS * ulp(t.y[k]) * sk;
        }
        c.lo = q.x - tol;
        c.hi = q.x + tol;
        comp.push_back(c);
    }
    emit_table(
        w, t, qs, [&](double e) { return calc(RangeCalculator::Energy{e}); }, ext, comp);

    // --- inverse range: abscissae = ranges, values = energies
    Table ti;
    ti.calc = "invrange";
    ti.real = real;
    ti.logx = false;
    ti.x = t.y;
    ti.y = t.x;
    ti.s.assign(n, 0.0);
    auto qi = make_queries(ti, rng, false, true);
    Extrap exti;
    exti.below = [&ti](double r) { return ti.y[0] * (r / ti.x[0]) * (r / ti.x[0]); };
    emit_table(
        w, ti, qi, [&](double r) { return inv(r).value(); }, exti);
}

//---------------------------------------------------------------------------//
void run_generic(verif::NdjsonWriter& w, Rng& rng, int n, std::string const& real)
{
    std::vector<double> x(n), y(n);
    double cur = rng.uni(-5, 5);
    if (real == "gpos")
        cur = std::exp(rng.uni(-8, 2));
    for (int i = 0; i < n; ++i)
    {
        x[i] = cur;
        cur += (real == "gpos") ? cur * rng.uni(0.01, std::min(4.0, 60.0 / n)) : rng.uni(1e-3, 3);
    }
    bool mono = (real == "gmono");
    double acc = rng.uni(-2, 2);
    for (int i = 0; i < n; ++i)
    {
        if (mono)
        {
            acc += rng.uni(1e-3, 2);
            y[i] = acc;
        }
        else if (real == "gzero")
            y[i] = rng.below(2) ? 0.0 : rng.uni(-3, 3);
        else
            y[i] = rng.uni(-3, 3);
    }
    RealsV reals;
    GenericGridBuilder build(&reals);
    GenericGridRecord grec = build(Span<double const>(x.data(), x.size()), Span<double const>(y.data(), y.size()));
    RealsR ref;
    ref = reals;
    GenericCalculator calc(grec, ref);
    Table t;
    t.calc = "generic";
    t.real = real;
    t.logx = false;
    for (int i = 0; i < n; ++i)
    {
        t.x.push_back(calc.grid()[i]);
        t.y.push_back(calc[i]);
    }
    t.s.assign(n, 0.0);
    auto qs = make_queries(t, rng, true, false);
    emit_table(
        w, t, qs, [&](double v) { return calc(v); }, Extrap{});
    if (mono)
    {
        // inverted calculators (monotone tables only): both constructions
        for (int which = 0; which < 2; ++which)
        {
            GenericCalculator ic = which ? calc.make_inverse()
                                         : GenericCalculator::from_inverse(grec, ref);
            Table ti;
            ti.calc = "generic";
            ti.real = which ? "gmono_make_inverse" : "gmono_from_inverse";
            ti.logx = false;
            for (int i = 0; i < n; ++i)
            {
                ti.x.push_back(ic.grid()[i]);
                ti.y.push_back(ic[i]);
            }
            ti.s.assign(n, 0.0);
            auto qi = make_queries(ti, rng, true, false);
            emit_table(
                w, ti, qi, [&](double v) { return ic(v); }, Extrap{});
        }
    }
}

//---------------------------------------------------------------------------//
// mode tables: every (n, p) x realisation, `reps` seeds; n in [nlo, nhi]
void mode_tables(unsigned long seed, int reps, int nlo, int nhi, std::string const& out)
{
    verif::NdjsonWriter w(out);
    Rng rng(seed);
    std::size_t ntab = 0;
    for (int rep = 0; rep < reps; ++rep)
    {
        for (int n = nlo; n <= nhi; ++n)
        {
            // ---- hand-made xs tables: every prime position (large grids: the distinguished ones)
            auto skip_prime = [n](int p) {
                return n > 12 && !(p <= 1 || p >= n - 2 || p == n / 2 || p == n / 3);
            };
            for (int p = -1; p < n; ++p)
            {
                if (skip_prime(p))
                    continue;
                for (std::string kind : {"rand", "zeros", "steep", "smooth"})
                {
                    LogGrid g = gen_loggrid(rng, n);
                    XsStore st;
                    auto y = gen_values(rng, kind, n);
                    // first pass: knots as the calculator computes them
                    st.hand(std::log(g.emin), std::log(g.emax), y, p);
                    auto e = st.knots();
                    std::vector<double> stored(n);
                    for (int k = 0; k < n; ++k)
                        stored[k] = (p >= 0 && k >= p) ? y[k] * e[k] : y[k];
                    XsStore st2;
                    st2.hand(std::log(g.emin), std::log(g.emax), stored, p);
                    Table t = table_from_store(st2, "xs", kind);
                    run_xs(w, rng, st2, t);
                    ++ntab;
                }
            }
            // ---- builder-made tables
            {
                // ValueGridXsBuilder constructor: prime at any grid point but the last
                for (int p = 0; p + 1 < n; ++p)
                {
                    if (skip_prime(p))
                        continue;
                    LogGrid g = gen_loggrid(rng, n);
                    auto ue = user_grid(g, n);
                    auto y = gen_values(rng, rep % 2 ? "rand" : "zeros", n);
                    std::vector<double> xs(n);
                    for (int k = 0; k < n; ++k)
                        xs[k] = k >= p ? y[k] * ue[k] : y[k];
                    ValueGridXsBuilder b(ue[0], ue[p], ue[n - 1], xs);
                    XsStore st;
                    st.built(b);
                    Table t = table_from_store(st, "xs", "b_ctor", p, ue[p]);
                    t.ux = ue;
                    run_xs(w, rng, st, t);
                    ++ntab;
                }
                // from_geant: lower (unscaled) + upper (scaled) tables joined at the prime energy
                for (int p = 1; p + 1 < n; ++p)
                {
                    if (skip_prime(p))
                        continue;
                    LogGrid g = gen_loggrid(rng, n);
                    auto ue = user_grid(g, n);
                    auto y = gen_values(rng, "rand", n);
                    std::vector<double> le(ue.begin(), ue.begin() + p + 1), l(y.begin(), y.begin() + p + 1);
                    std::vector<double> pe(ue.begin() + p, ue.end()), lp;
                    for (int k = p; k < n; ++k)
                        lp.push_back(y[k] * ue[k]);
                    auto b = ValueGridXsBuilder::from_geant(
                        make_span(le), make_span(l), make_span(pe), make_span(lp));
                    XsStore st;
                    st.built(*b);
                    Table t = table_from_store(st, "xs", "b_geant", p, ue[p]);
                    t.ux = ue;
                    run_xs(w, rng, st, t);
                    ++ntab;
                }
                {
                    // from_scaled: everything scaled
                    LogGrid g = gen_loggrid(rng, n);
                    auto ue = user_grid(g, n);
                    auto y = gen_values(rng, "rand", n);
                    std::vector<double> lp(n);
                    for (int k = 0; k < n; ++k)
                        lp[k] = y[k] * ue[k];
                    auto b = ValueGridXsBuilder::from_scaled(make_span(ue), make_span(lp));
                    XsStore st;
                    st.built(*b);
                    Table t = table_from_store(st, "xs", "b_scaled", 0, ue[0]);
                    t.ux = ue;
                    run_xs(w, rng, st, t);
                    ++ntab;
                }
                {
                    // ValueGridLogBuilder: energy loss (no scaling)
                    LogGrid g = gen_loggrid(rng, n);
                    auto ue = user_grid(g, n);
                    auto y = gen_values(rng, rep % 2 ? "smooth" : "rand", n);
                    auto b = ValueGridLogBuilder::from_geant(make_span(ue), make_span(y));
                    XsStore st;
                    st.built(*b);
                    Table t = table_from_store(st, "eloss", "b_log");
                    t.ux = ue;
                    run_xs(w, rng, st, t);
                    ++ntab;
                }
            }
            // ---- range + inverse range
            for (std::string kind : {"dedx", "power", "rand", "const"})
            {
                LogGrid g = gen_loggrid(rng, n);
                XsStore st0;
                st0.hand(std::log(g.emin), std::log(g.emax), std::vector<double>(n, 1.0), -1);
                auto r = gen_range(rng, kind, st0.knots());
                XsStore st;
                st.hand(std::log(g.emin), std::log(g.emax), r, -1);
                run_range(w, rng, st, kind, {});
                ntab += 2;
            }
            {
                LogGrid g = gen_loggrid(rng, n);
                auto ue = user_grid(g, n);
                auto r = gen_range(rng, "dedx", ue);
                auto b = ValueGridLogBuilder::from_range(make_span(ue), make_span(r));
                XsStore st;
                st.built(*b);
                run_range(w, rng, st, "b_range", ue);
                ntab += 2;
            }
            // ---- generic
            for (std::string kind : {"grand", "gzero", "gmono", "gpos"})
                run_generic(w, rng, n, kind);
        }
    }
    w({{"e", "Close"}, {"n", w.count()}});
    (void)ntab;
}

//---------------------------------------------------------------------------//
// mode sweep: decade-aligned Geant4-style grids emin = 10^lo, emax = 10^hi, 1..20 bins per decade,
// with the first E-scaled energy E' on EVERY admissible grid point (so also exactly 1 MeV, 10^-1,
// 10^1, ...: log E' = 0 is where a relative roundoff test degenerates), built by
// ValueGridXsBuilder::from_geant (and the constructor), queried around the prime index: knots
// prime-2 .. prime+2, +-1 ulp, mid-bins.  full = 0: every E' = 1 MeV case, every decade-aligned E'
// at 7 bins/decade, the Geant4 default grid 1e-4..1e8 at 7 bins/decade with every E', and a
// seeded 1/24 sample of the rest.
void mode_sweep(unsigned long seed, int full, int shard, int nshards, std::string const& out)
{
    verif::NdjsonWriter w(out);
    Rng rng(seed * 7919 + shard);
    std::mt19937_64 pick(seed);
    long idx = 0, sel = 0;
    for (int lo = -6; lo <= 0; ++lo)
        for (int hi = 0; hi <= 8; ++hi)
        {
            if (hi <= lo)
                continue;
            for (int bpd : {1, 2, 3, 4, 5, 6, 7, 8, 9, 10, 12, 14, 20})
            {
                int const n = (hi - lo) * bpd + 1;
                for (int p = 1; p + 1 < n; ++p, ++idx)
                {
                    bool lucky = pick() % 24 == 0;  // drawn for every case: selection is seed-stable
                    bool must = (p == -lo * bpd) || (bpd == 7 && p % 7 == 0)
                                || (lo == -4 && hi == 8 && bpd == 7);
                    if (!(full || must || lucky))
                        continue;
                    if (sel++ % nshards != shard)
                        continue;
                    std::vector<double> e(n), y(n);
                    for (int i = 0; i < n; ++i)
                    {
                        e[i] = std::pow(10.0, lo + double(i) / bpd);
                        y[i] = std::exp(rng.uni(-3, 3));
                    }
                    XsStore st;
                    bool ctor = idx % 5 == 0;
                    if (ctor)
                    {
                        std::vector<double> xs(n);
                        for (int k = 0; k < n; ++k)
                            xs[k] = k >= p ? y[k] * e[k] : y[k];
                        st.built(ValueGridXsBuilder(e[0], e[p], e[n - 1], xs));
                    }
                    else
                    {
                        std::vector<double> le(e.begin(), e.begin() + p + 1), l(y.begin(), y.begin() + p + 1);
                        std::vector<double> pe(e.begin() + p, e.end()), lp;
                        for (int k = p; k < n; ++k)
                            lp.push_back(y[k] * e[k]);
                        st.built(*ValueGridXsBuilder::from_geant(
                            make_span(le), make_span(l), make_span(pe), make_span(lp)));
                    }
                    Table t = table_from_store(st, "xs", ctor ? "sweep_ctor" : "sweep_geant", p, e[p]);
                    int w0 = std::max(0, p - 2), w1 = std::min(n - 1, p + 2);
                    std::vector<Query> qs;
                    for (int k = w0; k < w1; ++k)
                    {
                        double a = t.x[k], b = t.x[k + 1];
                        qs.push_back({"at", k, a});
                        qs.push_back({"up", k, fup(a)});
                        qs.push_back({"in", k, a + 0.5 * (b - a)});
                        qs.push_back({"in", k, a * std::pow(b / a, 0.25)});
                        qs.push_back({"dn", k + 1, fdn(b)});
                    }
                    qs.push_back({"atlast", w1, t.x[w1]});
                    XsCalculator calc(st.data, st.ref);
                    Extrap ext;
                    ext.past_end = [&st](double en) { return st.reads_past_end(en); };
                    emit_table(
                        w, t, qs, [&](double en) { return calc(XsCalculator::Energy{en}); }, ext, {}, w0, w1);
                }
            }
        }
    w({{"e", "Close"}, {"n", w.count()}});
}

}  // namespace

//---------------------------------------------------------------------------//
//---------------------------------------------------------------------------//
// Hand-built e-/e+ ionisation physics with seeded stopping-power profiles (recipe of
// vproblem.hh reduced to what calc_mean_energy_loss / UrbanMscHelper read: particles,
// materials, PhysicsParams with one energy-loss process).  The range table is the
// trapezoid integral of 1/dedx on the table's own knots, i.e. self-consistent in the sense
// PhysicsStepUtils.hh assumes ("range is always the integral of the stopping power").
namespace
{
struct MiniPhysics
{
    std::shared_ptr<MaterialParams> mats;
    std::shared_ptr<ParticleParams> particles;
    std::shared_ptr<ActionRegistry> reg;
    std::shared_ptr<PhysicsParams> physics;
    std::vector<double> egrid;
    std::string kind;
    double linear_loss_limit;
};

std::vector<double> dedx_profile(Rng& rng, std::string const& kind, std::vector<double> const& e)
{
    int n = int(e.size());
    std::vector<double> d(n);
    double c = std::exp(rng.uni(-1, 2));
    if (kind == "const")
        for (auto& v : d)
            v = c;
    else if (kind == "rise")
    {
        double a = rng.uni(0.05, 0.8);
        for (int i = 0; i < n; ++i)
            d[i] = c * std::pow(e[i], a);
    }
    else if (kind == "fall")
    {
        double a = rng.uni(0.05, 0.9);
        for (int i = 0; i < n; ++i)
            d[i] = c * std::pow(e[i], -a);
    }
    else if (kind == "bragg")
    {
        for (int i = 0; i < n; ++i)
            d[i] = c * (std::pow(e[i], -0.8) + 0.3 * std::pow(e[i], 0.15));
    }
    else if (kind == "rand")
    {
        double lg = std::log(c);
        for (int i = 0; i < n; ++i)
        {
            d[i] = std::exp(lg);
            lg += rng.uni(-0.25, 0.25);
        }
    }
    else
        std::abort();
    return d;
}

MiniPhysics build_mini(Rng& rng, std::string const& kind, double linear_loss_limit, int ngrid)
{
    using namespace units;
    using namespace verif;
    MiniPhysics m;
    m.kind = kind;
    m.linear_loss_limit = linear_loss_limit;
    double const me = 0.5109989461;
    MaterialParams::Input minp;
    minp.elements = {{AtomicNumber{13}, AmuMass{26.98}, {}, "Al"}};
    minp.materials
        = {{native_value_from(MolCcDensity{0.1}), 293.0, MatterState::solid, {{ElementId{0}, 1.0}}, "Al"},
           {native_value_from(MolCcDensity{1e-3}), 293.0, MatterState::gas, {{ElementId{0}, 1.0}}, "thin"}};
    m.mats = std::make_shared<MaterialParams>(std::move(minp));
    ParticleParams::Input defs;
    defs.push_back({"electron", pdg::electron(), MevMass{me}, ElementaryCharge{-1}, constants::stable_decay_constant});
    defs.push_back({"positron", pdg::positron(), MevMass{me}, ElementaryCharge{1}, constants::stable_decay_constant});
    m.particles = std::make_shared<ParticleParams>(std::move(defs));
    m.reg = std::make_shared<ActionRegistry>();
    m.egrid = loggrid(1e-4, 1e8, ngrid);
    std::vector<ImportProcess> procs;
    for (auto pdgn : {pdg::electron(), pdg::positron()})
    {
        ImportProcess pr;
        pr.particle_pdg = pdgn.get();
        pr.secondary_pdg = pdg::electron().get();
        pr.process_type = ImportProcessType::electromagnetic;
        pr.process_class = ImportProcessClass::e_ioni;
        ImportModel mod;
        mod.model_class = ImportModelClass::moller_bhabha;
        mod.materials.resize(2);
        for (auto& imm : mod.materials)
            imm.energy = {1e-4, 1e8};
        pr.models.push_back(mod);
        ImportPhysicsTable de;
        de.table_type = ImportTableType::dedx;
        de.x_units = ImportUnits::mev;
        de.y_units = ImportUnits::mev_per_len;
        ImportPhysicsTable ra;
        ra.table_type = ImportTableType::range;
        ra.x_units = ImportUnits::mev;
        ra.y_units = ImportUnits::len;
        ImportPhysicsTable l;
        l.table_type = ImportTableType::lambda;
        l.x_units = ImportUnits::mev;
        l.y_units = ImportUnits::len_inv;
        for (int mi = 0; mi < 2; ++mi)
        {
            auto const& eg = m.egrid;
            auto d = dedx_profile(rng, kind, eg);
            if (mi == 1)
                for (auto& v : d)
                    v *= 1e-2;
            std::vector<double> r(eg.size()), lam(eg.size());
            r[0] = eg[0] / d[0];
            for (std::size_t i = 1; i < eg.size(); ++i)
                r[i] = r[i - 1] + 0.5 * (1 / d[i - 1] + 1 / d[i]) * (eg[i] - eg[i - 1]);
            if (kind == "const")
                for (std::size_t i = 0; i < eg.size(); ++i)
                    r[i] = eg[i] / d[i];
            for (std::size_t i = 0; i < eg.size(); ++i)
                lam[i] = (eg[i] > 0.25 ? 0.3 : 0.0);
            de.physics_vectors.push_back(logvec(eg, d));
            ra.physics_vectors.push_back(logvec(eg, r));
            l.physics_vectors.push_back(logvec(eg, lam));
        }
        pr.tables = {l, de, ra};
        procs.push_back(pr);
    }
    {
        celeritas::detail::ImportDataConverter convert{UnitSystem::cgs};
        for (auto& pr : procs)
            convert(&pr);
    }
    auto pdata = std::make_shared<ImportedProcesses>(std::move(procs));
    PhysicsParams::Input pin;
    pin.particles = m.particles;
    pin.materials = m.mats;
    pin.processes = {std::make_shared<EIonizationProcess>(m.particles, pdata, EIonizationProcess::Options{})};
    pin.action_registry = m.reg.get();
    pin.options.linear_loss_limit = linear_loss_limit;
    m.physics = std::make_shared<PhysicsParams>(std::move(pin));
    return m;
}

// One track slot worth of state over given params
struct Slot
{
    CollectionStateStore<MaterialStateData, MemSpace::host> mat;
    CollectionStateStore<ParticleStateData, MemSpace::host> par;
    CollectionStateStore<PhysicsStateData, MemSpace::host> phys;
    std::shared_ptr<MaterialParams const> mats;
    std::shared_ptr<ParticleParams const> particles;
    std::shared_ptr<PhysicsParams const> physics;

    Slot(std::shared_ptr<MaterialParams const> m, std::shared_ptr<ParticleParams const> p,
         std::shared_ptr<PhysicsParams const> ph)
        : mat(m->host_ref(), 1), par(p->host_ref(), 1), phys(ph->host_ref(), 1), mats(m), particles(p), physics(ph)
    {
    }
    MaterialTrackView material() { return {mats->host_ref(), mat.ref(), TrackSlotId{0}}; }
    ParticleTrackView particle() { return {particles->host_ref(), par.ref(), TrackSlotId{0}}; }
    //! initialise the slot and run the real pre-step limiter (stores dedx_range)
    PhysicsTrackView init(MaterialId mid, ParticleId pid, double energy)
    {
        auto mv = this->material();
        mv = MaterialTrackView::Initializer_t{mid};
        auto pv = this->particle();
        ParticleTrackView::Initializer_t pi;
        pi.particle_id = pid;
        pi.energy = units::MevEnergy{energy};
        pv = pi;
        PhysicsTrackView ph(physics->host_ref(), phys.ref(), pid, mid, TrackSlotId{0});
        ph = PhysicsTrackInitializer{};
        ph.interaction_mfp(1.0);
        PhysicsStepView ps(physics->host_ref(), phys.ref(), TrackSlotId{0});
        calc_physics_step_limit(mv, pv, ph, ps);
        return ph;
    }
};

// pre-step energies: the classes of the physics energy grid
std::vector<double> pick_energies(Rng& rng, std::vector<double> const& eg, int count)
{
    std::vector<double> es;
    int n = int(eg.size());
    for (int i = 0; i < count; ++i)
    {
        int k = rng.below(n - 1);
        switch (i % 8)
        {
            case 0: es.push_back(eg[k]); break;
            case 1: es.push_back(fup(eg[k])); break;
            case 2: es.push_back(fdn(eg[k + 1])); break;
            case 3: es.push_back(eg[0] * rng.uni(0.01, 1)); break;  // below the table
            case 4: es.push_back(eg[n - 1]); break;
            case 5: es.push_back(eg[k] + 0.5 * (eg[k + 1] - eg[k])); break;
            default: es.push_back(eg[k] + rng.uni(0, 1) * (eg[k + 1] - eg[k])); break;
        }
    }
    return es;
}

struct Sample
{
    double s, l;
    bool fin;
    bool lin;  // regime: step * dE/dx < linear_loss_limit * E (documented hand-over condition)
};
constexpr double C_LOSS = 32;  // tolerance table: monotonicity bracket l + C_LOSS * eps * E
constexpr double C_NEG = 1024;  // scope of deviation F-LOSS-2: -C_NEG * eps * E <= loss < 0

void emit_loss(verif::NdjsonWriter& w, std::string const& real, double energy, double range,
               double limit, std::vector<Sample> const& st)
{
    verif::Ranker rank;
    rank.add(0.0);
    rank.add(-C_NEG * EPS * energy);
    rank.add(energy);
    rank.add(range);
    for (auto const& x : st)
    {
        rank.add(x.s);
        if (x.fin)
        {
            rank.add(x.l);
            rank.add(x.l + C_LOSS * EPS * energy);
        }
    }
    rank.finalize();
    json js = json::array();
    for (auto const& x : st)
        js.push_back({{"s", rank(x.s)},
                      {"l", x.fin ? rank(x.l) : -1},
                      {"lhi", x.fin ? rank(x.l + C_LOSS * EPS * energy) : -1},
                      {"lin", x.lin},
                      {"fin", x.fin}});
    json rec{{"e", "Loss"},
             {"real", real},
             {"lim", limit},
             {"zero", rank(0.0)},
             {"zlo", rank(-C_NEG * EPS * energy)},
             {"E", rank(energy)},
             {"range", rank(range)},
             {"steps", js}};
    if (g_raw)
    {
        std::vector<double> a, b;
        for (auto const& x : st)
        {
            a.push_back(x.s);
            b.push_back(x.l);
        }
        rec["raw"] = {{"E", raw(energy)}, {"range", raw(range)}, {"s", raws(a)}, {"l", raws(b)}};
    }
    w(rec);
}

// Step sweep in (0, range] through the real calc_mean_energy_loss
void loss_sweep(verif::NdjsonWriter& w, Rng& rng, Slot& slot, std::string const& real, double limit,
                MaterialId mid, ParticleId pid, double energy)
{
    auto phys = slot.init(mid, pid, energy);
    auto particle = slot.particle();
    double range = phys.dedx_range();
    if (!(range > 0) || !std::isfinite(range))
        return;
    // where the linear approximation hands over to the range table (an input class, from
    // the real energy-loss calculator -- not an expectation)
    double rate = phys.make_calculator<EnergyLossCalculator>(
        phys.value_grid(ValueGridType::energy_loss, phys.eloss_ppid()))(particle.energy());
    double s0 = rate > 0 ? limit * energy / rate : range;
    std::vector<double> ss = {range,
                              fdn(range),
                              steps(range, -3),
                              range * (1 - 1e-9),
                              range * 0.999,
                              range * 1e-12,
                              range * 1e-6,
                              range * 1e-3};
    for (double f : {1 - 1e-3, 1 - 1e-9, 1.0, 1 + 1e-9, 1 + 1e-3})
        ss.push_back(s0 * f);
    ss.push_back(fdn(s0));
    ss.push_back(fup(s0));
    for (int i = 0; i < 12; ++i)
        ss.push_back(range * rng.u01());
    for (int i = 0; i < 6; ++i)
        ss.push_back(range * std::pow(10.0, rng.uni(-9, 0)));
    std::vector<Sample> st;
    for (double s : ss)
    {
        if (!(s > 0 && s <= range))
            continue;
        double l = calc_mean_energy_loss(particle, phys, s).value();
        st.push_back({s, l, std::isfinite(l), !(s * rate >= energy * limit)});
    }
    emit_loss(w, real, energy, range, limit, st);
}
}  // namespace

void mode_loss(unsigned long seed, int count, std::string const& out)
{
    verif::NdjsonWriter w(out);
    Rng rng(seed);
    // (a) the shared hand-built e-/e+/gamma problem of vproblem.hh (constant dE/dx)
    {
        verif::Problem p;
        verif::ProblemOptions o;
        o.dedx = std::exp(rng.uni(-1, 2));
        verif::build_problem(p, o);
        Slot slot(p.mats, p.particles, p.physics);
        auto eg = verif::loggrid(1e-4, 1e8, 85);
        for (auto name : {"electron", "positron"})
        {
            ParticleId pid = p.particles->find(name);
            for (int mi = 0; mi < 2; ++mi)
                for (double e : pick_energies(rng, eg, count))
                    loss_sweep(w, rng, slot, "vproblem", 0.01, MaterialId(mi), pid, e);
        }
    }
    // (b) seeded stopping-power profiles x loss-limit parameters
    int variant = 0;
    for (std::string kind : {"const", "rise", "fall", "bragg", "rand"})
        for (double limit : {0.01, 0.0, 0.05, 0.3, 1.0})
        {
            int ngrid = (variant++ % 3 == 0) ? 13 : 85;
            MiniPhysics m = build_mini(rng, kind, limit, ngrid);
            Slot slot(m.mats, m.particles, m.physics);
            for (auto name : {"electron", "positron"})
            {
                ParticleId pid = m.particles->find(name);
                for (int mi = 0; mi < 2; ++mi)
                    for (double e : pick_energies(rng, m.egrid, count))
                        loss_sweep(w, rng, slot, kind, limit, MaterialId(mi), pid, e);
            }
        }
    w({{"e", "Close"}, {"n", w.count()}});
}

//---------------------------------------------------------------------------//
namespace
{
void emit_msc(verif::NdjsonWriter& w, std::string const& real, double t, double g, double b,
              std::vector<std::pair<double, double>> const& partial, json const& info)
{
    verif::Ranker rank;
    rank.add(0.0);
    bool fin = std::isfinite(g) && std::isfinite(b);
    rank.add(t);
    if (fin)
    {
        rank.add(g);
        rank.add(b);
    }
    for (auto const& pr : partial)
    {
        rank.add(pr.first);
        if (std::isfinite(pr.second))
            rank.add(pr.second);
    }
    rank.finalize();
    json gs = json::array();
    for (auto const& pr : partial)
    {
        bool f = std::isfinite(pr.second);
        gs.push_back({{"g", rank(pr.first)}, {"b", f ? rank(pr.second) : -1}, {"fin", f}});
    }
    json rec{{"e", "Msc"},
             {"real", real},
             {"zero", rank(0.0)},
             {"fin", fin},
             {"t", rank(t)},
             {"g", fin ? rank(g) : -1},
             {"b", fin ? rank(b) : -1},
             {"gs", gs}};
    if (g_raw)
    {
        std::vector<double> a, c;
        for (auto const& pr : partial)
        {
            a.push_back(pr.first);
            c.push_back(pr.second);
        }
        rec["raw"] = {{"t", raw(t)}, {"g", raw(g)}, {"b", raw(b)}, {"pg", raws(a)}, {"pb", raws(c)}, {"in", info}};
    }
    w(rec);
}

// ToGeo(t), FromGeo(ToGeo(t)) and FromGeo(g') for shorter geometry-limited g'
void msc_case(verif::NdjsonWriter& w, Rng& rng, std::string const& real,
              NativeCRef<UrbanMscData> const& shared, celeritas::detail::UrbanMscHelper const& helper,
              double energy, double lambda, double range, double t)
{
    using namespace celeritas::detail;
    MscStepToGeo to_geo(shared, helper, units::MevEnergy{energy}, lambda, range);
    auto gp = to_geo(t);
    MscStep step;
    step.true_path = t;
    step.geom_path = gp.step;
    step.alpha = gp.alpha;
    double b = std::numeric_limits<double>::quiet_NaN();
    std::vector<std::pair<double, double>> partial;
    if (std::isfinite(gp.step) && gp.step >= 0 && gp.step <= t)
    {
        MscStepFromGeo from_geo(shared.params, step, range, lambda);
        b = from_geo(gp.step);
        double g = gp.step;
        double const ms = UrbanMscParameters::min_step();
        for (double gg : {fdn(g), g * 0.9, g * 0.5, g * 0.1, g * rng.u01(), g * 1e-6, fdn(ms), ms, fup(ms)})
            if (gg >= 0 && gg <= g)
                partial.push_back({gg, from_geo(gg)});
    }
    emit_msc(w, real, t, gp.step, b, partial,
             {{"E", raw(energy)}, {"lambda", raw(lambda)}, {"range", raw(range)}, {"alpha", raw(gp.alpha)}});
}

std::vector<double> true_paths(Rng& rng, double range)
{
    double const ms = UrbanMscParameters::min_step();
    double const dtrl = UrbanMscParameters::dtrl();
    std::vector<double> ts = {range,
                              fdn(range),
                              range * (1 - 1e-9),
                              range * 0.5,
                              range * dtrl,
                              fdn(range * dtrl),
                              fup(range * dtrl),
                              range * dtrl * 0.5,
                              range * 0.06,
                              range * 0.1,
                              range * 1e-3,
                              ms,
                              fdn(ms),
                              fup(ms),
                              ms * 0.5,
                              ms * 3};
    for (int i = 0; i < 6; ++i)
        ts.push_back(range * rng.u01());
    for (int i = 0; i < 4; ++i)
        ts.push_back(range * std::pow(10.0, rng.uni(-8, 0)));
    std::vector<double> r;
    for (double t : ts)
        if (t > 0 && t <= range)
            r.push_back(t);
    return r;
}
}  // namespace

void mode_msc(unsigned long seed, int count, std::string const& out)
{
    using namespace celeritas::detail;
    verif::NdjsonWriter w(out);
    Rng rng(seed);
    int variant = 0;
    for (std::string kind : {"const", "fall", "bragg", "rand"})
        for (std::string mkind : {"power", "kink"})
        {
            MiniPhysics m = build_mini(rng, kind, 0.01, (variant++ % 2) ? 85 : 25);
            Slot slot(m.mats, m.particles, m.physics);
            // hand-built Urban data: scaled cross sections xs * E^2 on a log grid
            HostVal<UrbanMscData> host;
            host.ids.electron = m.particles->find(pdg::electron());
            host.ids.positron = m.particles->find(pdg::positron());
            host.electron_mass = m.particles->get(host.ids.electron).mass();
            host.params.low_energy_limit = units::MevEnergy{1e-4};
            host.params.high_energy_limit = units::MevEnergy{1e8};
            {
                auto md = make_builder(&host.material_data);
                auto pm = make_builder(&host.par_mat_data);
                ValueGridInserter ins(&host.reals, &host.xs);
                int const nx = 40;
                auto eg = verif::loggrid(1e-4, 1e8, nx);
                for (int mi = 0; mi < 2; ++mi)
                {
                    md.push_back(UrbanMscMaterialData{});
                    for (int pi = 0; pi < 2; ++pi)
                    {
                        UrbanMscParMatData d;
                        d.scaled_zeff = 1;
                        d.d_over_r = 1;
                        pm.push_back(d);
                        // mean free path lambda(E) = lam0 * E^b ; stored: E^2 / lambda
                        double lam0 = std::exp(rng.uni(-6, 3)), b = rng.uni(0.6, 1.8);
                        std::vector<double> sx(nx);
                        for (int i = 0; i < nx; ++i)
                        {
                            double lam = lam0 * std::pow(eg[i], b);
                            if (mkind == "kink" && eg[i] > 10)
                                lam *= 0.5;  // cross section jumps UP above 10 MeV (documented for e+)
                            sx[i] = eg[i] * eg[i] / lam;
                        }
                        ValueGridLogBuilder(eg.front(), eg.back(), sx).build(ins);
                    }
                }
            }
            HostCRef<UrbanMscData> shared;
            shared = host;
            for (auto name : {"electron", "positron"})
            {
                ParticleId pid = m.particles->find(name);
                for (int mi = 0; mi < 2; ++mi)
                    for (int i = 0; i < count; ++i)
                    {
                        double energy = std::pow(10.0, rng.uni(-3.5, 3));
                        if (i % 4 == 0)
                            energy = 10 * (1 + rng.uni(-0.05, 0.6));  // around the kink
                        auto phys = slot.init(MaterialId(mi), pid, energy);
                        auto particle = slot.particle();
                        UrbanMscHelper helper(shared, particle, phys);
                        double range = phys.dedx_range();
                        double lambda = helper.msc_mfp();
                        if (!(range > 0 && lambda > 0 && std::isfinite(range) && std::isfinite(lambda)))
                            continue;
                        for (double t : true_paths(rng, range))
                            msc_case(w, rng, kind + "/" + mkind, shared, helper, energy, lambda, range, t);
                        // free parameters (branches that do not consult the tables: low
                        // energy or range-limited step): any mean free path and range
                        if (energy < 0.5109989461)
                        {
                            double lam2 = std::pow(10.0, rng.uni(-6, 4));
                            double ran2 = std::pow(10.0, rng.uni(-6, 4));
                            for (double t : true_paths(rng, ran2))
                                msc_case(w, rng, "free", shared, helper, energy, lam2, ran2, t);
                        }
                    }
            }
        }
    w({{"e", "Close"}, {"n", w.count()}});
}

int main(int argc, char** argv)
{
    std::string mode = argc > 1 ? argv[1] : "";
    if (mode == "tables" && argc == 7)
        mode_tables(std::strtoul(argv[2], nullptr, 10), std::atoi(argv[3]), std::atoi(argv[4]),
                    std::atoi(argv[5]), argv[6]);
    else if (mode == "sweep" && argc == 7)
        mode_sweep(std::strtoul(argv[2], nullptr, 10), std::atoi(argv[3]), std::atoi(argv[4]),
                   std::atoi(argv[5]), argv[6]);
    else if (mode == "loss" && argc == 5)
        mode_loss(std::strtoul(argv[2], nullptr, 10), std::atoi(argv[3]), argv[4]);
    else if (mode == "msc" && argc == 5)
        mode_msc(std::strtoul(argv[2], nullptr, 10), std::atoi(argv[3]), argv[4]);
    else
    {
        std::cerr << "usage: vgrid tables <seed> <reps> <nlo> <nhi> <out> | sweep <seed> <full 0|1> <shard> "
                     "<nshards> <out> | loss <seed> <n> <out> | "
                     "msc <seed> <n> <out>\n";
        return 2;
    }
    return 0;
}
