// vhist: reproducibility harness (C06, also used by C07's serial reference).
// Reads a JSON script: {"seed":S, "runs":[{"cfg":{slots,order,action_times,status_checker,fluct,scale},
//                                           "ops":[{"op":"run","ev":E} | {"op":"abort","ev":E,"k":K} | {"op":"warmup"}]}]}
// Every run builds its own CoreParams + Stepper and executes the ops on that ONE state.
// For each event transported to completion it logs an Obs record with the per-track step
// stream (sorted by track id, step number) as bit-exact tokens; tokens are interned in one
// table for the whole process so that streams of different runs can be compared.
#include <algorithm>
#include <map>
#include <set>
#include <sstream>
#include <stdexcept>

#include "corecel/sys/ActionRegistry.hh"
#include "celeritas/global/CoreState.hh"
#include "celeritas/global/Stepper.hh"
#include "celeritas/phys/Primary.hh"
#include "celeritas/track/StatusChecker.hh"
#include "celeritas/user/StepCollector.hh"
#include "celeritas/user/StepData.hh"
#include "celeritas/user/StepInterface.hh"

#include "vjson.hh"
#include "vproblem.hh"

using namespace celeritas;
using verif::json;

namespace
{
verif::Interner g_tok;
std::map<std::string, int> g_labels;
int label_tok(std::string const& s)
{
    auto it = g_labels.find(s);
    if (it != g_labels.end())
        return it->second;
    int t = int(g_labels.size()) + 1;
    g_labels.emplace(s, t);
    return t;
}

struct StepRec
{
    int tid, ns;
    std::vector<int> toks;
    bool operator<(StepRec const& o) const { return std::tie(tid, ns) < std::tie(o.tid, o.ns); }
};

class Collector final : public StepInterface
{
  public:
    explicit Collector(ActionRegistry const* reg) : reg_(reg) {}
    Filters filters() const final { return {}; }
    StepSelection selection() const final { return StepSelection::all(); }
    void process_steps(HostStepState hs) final
    {
        if (throw_in > 0 && ++deliveries == throw_in)
        {
            throw_in = 0;
            throw std::runtime_error("vhist: user step action throws inside the step");
        }
        auto const& d = hs.steps.data;
        for (size_type i = 0; i < d.size(); ++i)
        {
            TrackSlotId ts{i};
            if (!d.track_id[ts])
                continue;
            StepRec r;
            r.tid = int(d.track_id[ts].get());
            r.ns = int(d.track_step_count[ts]);
            auto T = [](double v) { return g_tok(v == 0 ? 0.0 : v); };
            r.toks = {r.tid,
                      d.parent_id[ts] ? int(d.parent_id[ts].get()) : -1,
                      r.ns,
                      int(d.particle[ts].get()),
                      label_tok(std::string(reg_->id_to_label(d.action_id[ts]))),
                      int(d.event_id[ts].get()),
                      T(d.step_length[ts]),
                      T(d.energy_deposition[ts].value())};
            for (auto sp : range(StepPoint::size_))
            {
                auto const& pt = d.points[sp];
                r.toks.push_back(T(pt.time[ts]));
                r.toks.push_back(T(pt.energy[ts].value()));
                for (int k = 0; k < 3; ++k)
                {
                    r.toks.push_back(T(pt.pos[ts][k]));
                    r.toks.push_back(T(pt.dir[ts][k]));
                }
                r.toks.push_back(pt.volume_id[ts] ? int(pt.volume_id[ts].get()) : -1);
            }
            steps.push_back(std::move(r));
        }
    }
    void process_steps(DeviceStepState) final {}
    std::vector<StepRec> steps;
    // "throw" operations: the k-th delivery after arming throws from inside the step
    long throw_in = 0;
    long deliveries = 0;
    void arm(long k)
    {
        throw_in = k;
        deliveries = 0;
    }

  private:
    ActionRegistry const* reg_;
};

std::vector<Primary> make_primaries(unsigned seed, int ev, int nprims, double emax)
{
    std::mt19937_64 rng(seed * 1000003ull + ev * 7919ull + 17);
    std::uniform_real_distribution<double> u01(0, 1);
    std::vector<Primary> out;
    for (int k = 0; k < nprims; ++k)
    {
        Primary p;
        p.particle_id = ParticleId(int(rng() % 3));
        p.energy = units::MevEnergy{0.3 * std::pow(emax / 0.3, u01(rng))};
        p.position = {4.5 * (2 * u01(rng) - 1), 4.5 * (2 * u01(rng) - 1), 4.5 * (2 * u01(rng) - 1)};
        double cz = 2 * u01(rng) - 1, ph = 6.283185307179586 * u01(rng), sz = std::sqrt(1 - cz * cz);
        p.direction = make_unit_vector(Real3{sz * std::cos(ph), sz * std::sin(ph), cz});
        p.time = 0;
        p.event_id = EventId(ev);
        out.push_back(p);
    }
    return out;
}

std::string g_out;
std::vector<json>* g_events = nullptr;
void flush(std::vector<json> const& ev, std::string const& path)
{
    verif::NdjsonWriter w(path);
    for (auto const& e : ev)
        w(e);
}
void on_terminate()
{
    if (g_events)
    {
        g_events->push_back({{"e", "Abort"}, {"what", "terminate"}});
        flush(*g_events, g_out);
    }
    std::_Exit(0);
}
}  // namespace

int main(int argc, char** argv)
{
    if (argc != 3)
    {
        std::cerr << "usage: vhist <script.json> <out.ndjson>\n";
        return 2;
    }
    json script;
    {
        std::ifstream in(argv[1]);
        in >> script;
    }
    g_out = argv[2];
    std::vector<json> events;
    g_events = &events;
    std::set_terminate(on_terminate);
    unsigned seed = script.value("seed", 1u);
    int nprims = script.value("prims", 3);
    double emax = script.value("emax", 30.0);
    std::map<std::string, TrackOrder> om = {{"none", TrackOrder::none},
                                             {"init_charge", TrackOrder::init_charge},
                                             {"reindex_shuffle", TrackOrder::reindex_shuffle},
                                             {"reindex_status", TrackOrder::reindex_status},
                                             {"reindex_particle_type", TrackOrder::reindex_particle_type},
                                             {"reindex_along_step_action", TrackOrder::reindex_along_step_action},
                                             {"reindex_step_limit_action", TrackOrder::reindex_step_limit_action},
                                             {"reindex_both_action", TrackOrder::reindex_both_action}};
    int runidx = 0;
    for (auto const& run : script["runs"])
    {
        ++runidx;
        auto const& cfg = run["cfg"];
        std::string order = cfg.value("order", "none");
        size_type slots = cfg.value("slots", 8);
        bool action_times = cfg.value("action_times", false);
        bool status_checker = cfg.value("status_checker", false);
        std::string layout = (order == "init_charge") ? "init_charge" : "none";
        try
        {
            verif::ProblemOptions po;
            po.fluct = cfg.value("fluct", 0) != 0;
            po.table_scale = cfg.value("scale", 5.0);
            po.rng_seed = seed * 7919u + 13u;
            po.track_order = om.at(order);
            po.max_events = 16;
            verif::Problem prob;
            verif::build_problem(prob, po);
            if (status_checker)
            {
                auto sc = std::make_shared<StatusChecker>(prob.inp.action_reg->next_id(), prob.inp.aux_reg->next_id());
                prob.inp.action_reg->insert(sc);
                prob.inp.aux_reg->insert(sc);
            }
            verif::finalize_problem(prob);
            auto coll = std::make_shared<Collector>(prob.action_reg.get());
            auto sc = StepCollector::make_and_insert(*prob.core, {coll});
            StepperInput si;
            si.params = prob.core;
            si.stream_id = StreamId{0};
            si.num_track_slots = slots;
            si.action_times = action_times;
            Stepper<MemSpace::host> stepper(si);
            events.push_back({{"e", "Run"}, {"run", runidx}, {"cfg", cfg}, {"ops", run["ops"]}});
            for (auto const& op : run["ops"])
            {
                std::string kind = op["op"];
                if (kind == "warmup")
                {
                    stepper.warm_up();
                    continue;
                }
                int ev = op["ev"];
                auto prims = make_primaries(seed, ev, nprims, emax);
                stepper.reseed(UniqueEventId{static_cast<UniqueEventId::size_type>(ev)});
                coll->steps.clear();
                long k = 0, kmax = (kind == "abort") ? long(op["k"]) : 1000000;
                if (kind == "throw")
                {
                    // an exception leaves the k-th step half way; the driver resets the state
                    coll->arm(long(op["k"]));
                    bool threw = false;
                    try
                    {
                        StepperResult rt = stepper(make_span(prims));
                        ++k;
                        while (rt && k < 200000)
                        {
                            rt = stepper();
                            ++k;
                        }
                    }
                    catch (std::exception const&)
                    {
                        threw = true;
                    }
                    coll->arm(0);
                    stepper.reset_state();
                    events.push_back({{"e", "Aborted"}, {"run", runidx}, {"ev", ev}, {"after", int(k)}, {"threw", threw}});
                    continue;
                }
                StepperResult r = stepper(make_span(prims));
                ++k;
                while (r && k < kmax)
                {
                    r = stepper();
                    ++k;
                    if (k > 200000)
                        break;
                }
                if (kind == "abort")
                {
                    // abandon the event where it is and reset the state (what a driver does after an error)
                    stepper.reset_state();
                    events.push_back({{"e", "Aborted"}, {"run", runidx}, {"ev", ev}, {"after", int(k)}});
                    continue;
                }
                if (r)
                {
                    events.push_back({{"e", "Hang"}, {"run", runidx}, {"ev", ev}});
                    continue;
                }
                std::sort(coll->steps.begin(), coll->steps.end());
                json stream = json::array();
                for (auto const& s : coll->steps)
                    for (int t : s.toks)
                        stream.push_back(t);
                json ptoks = json::array();
                for (auto const& p : prims)
                {
                    ptoks.push_back(int(p.particle_id.get()));
                    ptoks.push_back(g_tok(p.energy.value()));
                }
                events.push_back({{"e", "Obs"},
                                  {"run", runidx},
                                  {"key", {{"ev", ev}, {"slots", int(slots)}, {"layout", layout},
                                           {"fluct", cfg.value("fluct", 0)}, {"scale", cfg.value("scale", 5.0)}}},
                                  {"prims", ptoks},
                                  {"nsteps", int(coll->steps.size())},
                                  {"stream", stream}});
            }
        }
        catch (std::exception const& ex)
        {
            std::string w = ex.what();
            for (auto& c : w)
                if (static_cast<unsigned char>(c) >= 0x80)
                    c = '?';
            events.push_back({{"e", "Abort"}, {"run", runidx}, {"what", w.substr(0, 300)}});
        }
    }
    events.push_back({{"e", "Close"}});
    flush(events, g_out);
    std::cerr << "vhist: " << events.size() << " records\n";
    return 0;
}
