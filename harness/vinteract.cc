// C04 harness: drive every REAL discrete interactor of celeritas through its public header
// and log one ndjson record per sample (DESIGN.md section 5 C04).  Expectations live in
// spec/Interact.tla (+ InteractTrace.tla); this file computes NO expected values.  What it
// does compute are *observations* (what the call returned, what the secondary stack looked
// like before/after) and a few *oracle facts* written from the documented definitions
// (norm of a direction, momentum of a particle, T_max of a delta ray): those enter the
// trace only as rank-abstracted residuals next to their tolerance brackets.
//
// usage: vinteract samples <out.ndjson> <seed> <n_per_variant> [variant-filter|all] [drawcap] [watchdog_s]
//        vinteract alloc   <out.ndjson> <seed> <rounds>      (sequential allocator binding)
//        env VERIF_C04_EDGE=<delta>: exploration aid, every incident energy = lo (1 + delta)
//
// Record vocabulary (one JSON object per line):
//   Config  particles, twom (2 m_e c^2 in MeV, informational), tolerances, draw cap
//   Sample  k, model (spec table key), var (variant label), inc{pt,Eq,rE}, qexp (quantum
//           = 2^qexp MeV), twomq, act, out{Eq,rE,fin,dfin,rN}, dep{q,r,fin},
//           secs[{pt,pid,Eq,rE,fin,dfin,rN}], nfalse, np, draws, aborted,
//           al{cap,before,after,off,len,granted[],prefix_same,tail_same}, maxsec,
//           rk{zero,ntol,mom,momfix,momtol,cutE,cutG,kn,floor,tmaxlo,thrU}, info{...}
//   Hang    a call did not return within the watchdog period (trace ends)
//   Close   per-class coverage counts measured by the harness (bookkeeping, no expectations)
//   AllocInit/AllocCall/AllocClear  one-thread call sequences on the real StackAllocator (mode alloc)
#include <atomic>
#include <chrono>
#include <cmath>
#include <cstdlib>
#include <functional>
#include <limits>
#include <memory>
#include <set>
#include <thread>

#include "corecel/cont/Range.hh"
#include "corecel/data/CollectionStateStore.hh"
#include "corecel/data/StackAllocator.hh"
#include "corecel/math/ArrayUtils.hh"
#include "celeritas/Constants.hh"
#include "celeritas/Quantities.hh"
#include "celeritas/Units.hh"
#include "celeritas/em/interactor/BetheHeitlerInteractor.hh"
#include "celeritas/em/interactor/CombinedBremInteractor.hh"
#include "celeritas/em/interactor/CoulombScatteringInteractor.hh"
#include "celeritas/em/interactor/EPlusGGInteractor.hh"
#include "celeritas/em/interactor/KleinNishinaInteractor.hh"
#include "celeritas/em/interactor/LivermorePEInteractor.hh"
#include "celeritas/em/interactor/MollerBhabhaInteractor.hh"
#include "celeritas/em/interactor/MuBremsstrahlungInteractor.hh"
#include "celeritas/em/interactor/MuHadIonizationInteractor.hh"
#include "celeritas/em/interactor/RayleighInteractor.hh"
#include "celeritas/em/interactor/RelativisticBremInteractor.hh"
#include "celeritas/em/interactor/SeltzerBergerInteractor.hh"
#include "celeritas/em/distribution/BetheBlochEnergyDistribution.hh"
#include "celeritas/em/distribution/BraggICRU73QOEnergyDistribution.hh"
#include "celeritas/em/distribution/MuBBEnergyDistribution.hh"
#include "celeritas/em/model/CombinedBremModel.hh"
#include "celeritas/em/model/CoulombScatteringModel.hh"
#include "celeritas/em/model/LivermorePEModel.hh"
#include "celeritas/em/model/RayleighModel.hh"
#include "celeritas/em/model/RelativisticBremModel.hh"
#include "celeritas/em/model/SeltzerBergerModel.hh"
#include "celeritas/em/params/AtomicRelaxationParams.hh"
#include "celeritas/em/params/WentzelOKVIParams.hh"
#include "celeritas/io/AtomicRelaxationReader.hh"
#include "celeritas/io/ImportProcess.hh"
#include "celeritas/io/LivermorePEReader.hh"
#include "celeritas/io/NeutronXsReader.hh"
#include "celeritas/io/SeltzerBergerReader.hh"
#include "celeritas/mat/MaterialParams.hh"
#include "celeritas/mat/MaterialView.hh"
#include "celeritas/neutron/interactor/ChipsNeutronElasticInteractor.hh"
#include "celeritas/neutron/model/ChipsNeutronElasticModel.hh"
#include "celeritas/phys/CutoffParams.hh"
#include "celeritas/phys/CutoffView.hh"
#include "celeritas/phys/ImportedProcessAdapter.hh"
#include "celeritas/phys/Interaction.hh"
#include "celeritas/phys/PDGNumber.hh"
#include "celeritas/phys/ParticleParams.hh"
#include "celeritas/phys/ParticleTrackView.hh"
#include "celeritas/phys/Secondary.hh"
#include "celeritas/random/XorwowRngEngine.hh"
#include "celeritas/random/XorwowRngParams.hh"
#include "celeritas/random/detail/GenerateCanonical32.hh"
#include "celeritas/random/distribution/GenerateCanonical.hh"

#include "vjson.hh"

namespace verif
{
struct DrawCapExceeded
{
};

//! Counting engine wrapped around the real xorwow engine (32-bit words, like production).
//! Throws once the draw cap is exceeded so that an unbounded rejection loop is an
//! observed event instead of a hang.
class CountingEngine
{
  public:
    using result_type = unsigned int;
    CountingEngine(celeritas::XorwowRngEngine e, std::size_t cap)
        : eng_(e), cap_(cap)
    {
    }
    result_type operator()()
    {
        if (++count_ > cap_)
            throw DrawCapExceeded{};
        return eng_();
    }
    static constexpr result_type min() { return 0u; }
    static constexpr result_type max() { return 0xffffffffu; }
    std::size_t count() const { return count_; }
    void reset() { count_ = 0; }

  private:
    celeritas::XorwowRngEngine eng_;
    std::size_t cap_;
    std::size_t count_{0};
};
}  // namespace verif

namespace celeritas
{
//! Same canonical generation as the production engine (two 32-bit words per double)
template<class RealType>
class GenerateCanonical<verif::CountingEngine, RealType>
{
  public:
    using real_type = RealType;
    using result_type = RealType;
    result_type operator()(verif::CountingEngine& rng)
    {
        return detail::GenerateCanonical32<RealType>()(rng);
    }
};
}  // namespace celeritas

namespace
{
using namespace celeritas;
using verif::CountingEngine;
using verif::json;
using units::AmuMass;
using units::ElementaryCharge;
using units::MevEnergy;
using units::MevMass;
using units::MolCcDensity;

constexpr double k_me = 0.5109989461;
constexpr double k_mmu = 105.6583745;
constexpr double k_mp = 938.272013;
constexpr double k_mn = 939.5654133;
std::string const k_data = "/repo/test/celeritas/data/";

template<template<Ownership, MemSpace> class S>
using StateStore = CollectionStateStore<S, MemSpace::host>;
template<Ownership W, MemSpace M>
using SecondaryStackData = StackAllocatorData<Secondary, W, M>;
using XorwowStore = CollectionStateStore<XorwowRngStateData, MemSpace::host>;

//---------------------------------------------------------------------------//
// Problem data
//---------------------------------------------------------------------------//
struct CutSet
{
    double gamma, electron, positron, proton;
};

struct ElemSpec
{
    int z;
    double amu;
    std::string name;
    std::vector<int> isotopes;  // indices into the isotope list
};

struct MatSet
{
    std::shared_ptr<MaterialParams> mats;
    std::shared_ptr<CutoffParams> cuts;
    std::vector<CutSet> cutsets;
    std::vector<std::string> elnames;
    bool has_compound{false};
    // material id of single-element material (element e, cutset c)
    MaterialId mat(int e, int c) const
    {
        return MaterialId(static_cast<size_type>(c * stride() + e));
    }
    MaterialId compound(int c) const
    {
        return MaterialId(static_cast<size_type>(c * stride() + elnames.size()));
    }
    int stride() const
    {
        return static_cast<int>(elnames.size()) + (has_compound ? 1 : 0);
    }
};

std::vector<MaterialParams::IsotopeInput> all_isotopes()
{
    using Z = AtomicNumber;
    return {
        {Z{2}, Z{3}, MevEnergy{7.71804}, MevEnergy{5.49}, MevEnergy{44}, MevMass{3016.0}, "3He"},
        {Z{2}, Z{4}, MevEnergy{28.2957}, MevEnergy{19.814}, MevEnergy{20.578}, MevMass{4002.6}, "4He"},
        {Z{29}, Z{63}, MevEnergy{551.384}, MevEnergy{6.122}, MevEnergy{10.864}, MevMass{58618.5}, "63Cu"},
        {Z{29}, Z{65}, MevEnergy{569.211}, MevEnergy{7.454}, MevEnergy{9.911}, MevMass{60479.8}, "65Cu"},
    };
}

MatSet make_matset(std::shared_ptr<ParticleParams const> particles,
                   std::vector<ElemSpec> const& elems,
                   std::vector<CutSet> const& cutsets,
                   bool with_isotopes,
                   bool compound)
{
    MatSet ms;
    ms.cutsets = cutsets;
    ms.has_compound = compound;
    MaterialParams::Input inp;
    if (with_isotopes)
        inp.isotopes = all_isotopes();
    for (auto const& e : elems)
    {
        MaterialParams::ElementInput ei;
        ei.atomic_number = AtomicNumber{e.z};
        ei.atomic_mass = AmuMass{e.amu};
        ei.label = Label{e.name};
        if (with_isotopes)
        {
            double f = 1.0 / e.isotopes.size();
            // deliberately unequal fractions
            for (std::size_t i = 0; i < e.isotopes.size(); ++i)
            {
                double w = (e.isotopes.size() == 2) ? (i == 0 ? 0.692 : 0.308) : f;
                ei.isotopes_fractions.push_back(
                    {IsotopeId(static_cast<size_type>(e.isotopes[i])), w});
            }
        }
        inp.elements.push_back(ei);
        ms.elnames.push_back(e.name);
    }
    for (std::size_t c = 0; c < cutsets.size(); ++c)
    {
        for (std::size_t e = 0; e < elems.size(); ++e)
        {
            MaterialParams::MaterialInput mi;
            mi.number_density = native_value_from(MolCcDensity{e % 2 ? 0.05477 : 0.141});
            mi.temperature = 293.0;
            mi.matter_state = MatterState::solid;
            mi.elements_fractions = {{ElementId(static_cast<size_type>(e)), 1.0}};
            mi.label = Label{elems[e].name + "_" + std::to_string(c)};
            inp.materials.push_back(mi);
        }
        if (compound)
        {
            MaterialParams::MaterialInput mi;
            mi.number_density = native_value_from(MolCcDensity{1.0});
            mi.temperature = 293.0;
            mi.matter_state = MatterState::solid;
            double f = 1.0 / elems.size();
            for (std::size_t e = 0; e < elems.size(); ++e)
                mi.elements_fractions.push_back({ElementId(static_cast<size_type>(e)), f});
            mi.label = Label{"mix_" + std::to_string(c)};
            inp.materials.push_back(mi);
        }
    }
    ms.mats = std::make_shared<MaterialParams>(std::move(inp));

    CutoffParams::Input ci;
    ci.materials = ms.mats;
    ci.particles = particles;
    CutoffParams::MaterialCutoffs cg, ce, cp, cpr;
    for (std::size_t c = 0; c < cutsets.size(); ++c)
    {
        for (int k = 0; k < ms.stride(); ++k)
        {
            cg.push_back({MevEnergy{cutsets[c].gamma}, 0.07});
            ce.push_back({MevEnergy{cutsets[c].electron}, 0.07});
            cp.push_back({MevEnergy{cutsets[c].positron}, 0.07});
            cpr.push_back({MevEnergy{cutsets[c].proton}, 0.07});
        }
    }
    ci.cutoffs.insert({pdg::gamma(), cg});
    ci.cutoffs.insert({pdg::electron(), ce});
    ci.cutoffs.insert({pdg::positron(), cp});
    ci.cutoffs.insert({pdg::proton(), cpr});
    ms.cuts = std::make_shared<CutoffParams>(std::move(ci));
    return ms;
}

ImportProcess make_import_process(MaterialParams const& mats,
                                  PDGNumber particle,
                                  PDGNumber secondary,
                                  ImportProcessClass ipc,
                                  std::vector<ImportModelClass> models,
                                  double elo,
                                  double ehi)
{
    ImportProcess result;
    result.particle_pdg = particle.get();
    result.secondary_pdg = secondary ? secondary.get() : 0;
    result.process_type = ImportProcessType::electromagnetic;
    result.process_class = ipc;
    for (auto& mcls : models)
    {
        ImportModel m;
        m.model_class = mcls;
        m.materials.resize(mats.num_materials());
        for (ImportModelMaterial& imm : m.materials)
            imm.energy = {elo, ehi};
        result.models.push_back(std::move(m));
    }
    return result;
}

//---------------------------------------------------------------------------//
// Secondary stack with sentinels
//---------------------------------------------------------------------------//
struct SecFields
{
    unsigned int pid;
    std::uint64_t e, d0, d1, d2;
    bool operator==(SecFields const& o) const
    {
        return pid == o.pid && e == o.e && d0 == o.d0 && d1 == o.d1 && d2 == o.d2;
    }
};

SecFields fields_of(Secondary const& s)
{
    return {s.particle_id.unchecked_get(),
            verif::bits_of(s.energy.value()),
            verif::bits_of(s.direction[0]),
            verif::bits_of(s.direction[1]),
            verif::bits_of(s.direction[2])};
}

class Stack
{
  public:
    explicit Stack(int cap) : store_(cap), alloc_(store_.ref()), cap_(cap) {}
    StackAllocator<Secondary>& allocator() { return alloc_; }
    int capacity() const { return cap_; }
    Secondary* base() { return &store_.ref().storage[ItemId<Secondary>{0}]; }
    int size() { return static_cast<int>(store_.ref().size[ItemId<size_type>{0}]); }
    // clear, pre-allocate `before` marker entries, fill the rest with sentinels
    void prepare(int before)
    {
        alloc_.clear();
        Secondary* b = this->base();
        if (before > 0)
        {
            Secondary* p = alloc_(before);
            if (p != b)
            {
                std::cerr << "harness: unexpected pre-allocation result\n";
                std::exit(3);
            }
            for (int i = 0; i < before; ++i)
            {
                b[i].particle_id = ParticleId{0};
                b[i].energy = MevEnergy{100.0 + i};
                b[i].direction = {0, 0, 1};
            }
        }
        for (int i = before; i < cap_; ++i)
        {
            b[i].particle_id = ParticleId{777};
            b[i].energy = MevEnergy{-7.0};
            b[i].direction = {9, 9, 9};
        }
        snap_.resize(cap_);
        for (int i = 0; i < cap_; ++i)
            snap_[i] = fields_of(b[i]);
    }
    void resnap()
    {
        Secondary* b = this->base();
        for (int i = 0; i < cap_; ++i)
            snap_[i] = fields_of(b[i]);
    }
    bool same_as_snapshot(int lo, int hi)
    {
        Secondary* b = this->base();
        for (int i = lo; i < hi; ++i)
            if (!(fields_of(b[i]) == snap_[i]))
                return false;
        return true;
    }

  private:
    StateStore<SecondaryStackData> store_;
    StackAllocator<Secondary> alloc_;
    int cap_;
    std::vector<SecFields> snap_;
};

//---------------------------------------------------------------------------//
// One call = everything the spec needs to judge the outcome
//---------------------------------------------------------------------------//
struct Call
{
    std::string model;  // key of the spec's model table
    std::string var;  // variant label (coverage bookkeeping)
    ParticleId inc;
    double E{0};
    Real3 dir{0, 0, 1};
    double cutE{-1};  // electron production cut handed to the model (-1: not used)
    double cutG{-1};  // gamma production cut handed to the model
    double floor{-1};  // model-internal lower limit of the delta-ray energy (Bragg/ICRU73QO)
    double tmax{-1};  // oracle: max transferable energy to a free electron
    int maxsec{0};  // AtomicRelaxationHelper::max_secondaries() (0: no relaxation)
    int reserve_hint{1};  // only steers the capacity enumeration
    json info = json::object();  // free-form description of the inputs (replay aid)
    std::function<Interaction(Call const&, CountingEngine&, StackAllocator<Secondary>&)> fn;
};

struct World;
using Maker = std::function<Call(World&)>;

struct World
{
    std::mt19937_64 gen;
    std::shared_ptr<ParticleParams> particles;
    ParticleId gamma, electron, positron, mu_minus, mu_plus, proton, neutron;
    StateStore<ParticleStateData> pstate;
    std::unique_ptr<ParticleTrackView> ptrack;

    MatSet mix, k, cu, cuiso, nmat;

    // models / shared data
    KleinNishinaData kn;
    std::shared_ptr<LivermorePEModel> livermore;
    std::shared_ptr<AtomicRelaxationParams> relax_fluor, relax_auger;
    HostVal<AtomicRelaxStateData> relax_state_fluor, relax_state_auger;
    HostRef<AtomicRelaxStateData> relax_ref_fluor, relax_ref_auger;
    HostCRef<AtomicRelaxParamsData> relax_params_none;
    HostRef<AtomicRelaxStateData> relax_state_none;
    std::shared_ptr<ImportedProcesses> imp_mix, imp_cu, imp_cuiso;
    std::shared_ptr<RayleighModel> rayleigh;
    BetheHeitlerData bh, bh_lpm;
    EPlusGGData epgg;
    MollerBhabhaData mb;
    std::shared_ptr<SeltzerBergerModel> sb;
    std::shared_ptr<RelativisticBremModel> rb, rb_lpm;
    std::shared_ptr<CombinedBremModel> cb;
    std::shared_ptr<CoulombScatteringModel> coulomb;
    std::vector<std::shared_ptr<WentzelOKVIParams>> wentzel;
    MuHadIonizationData muhad;
    MuBremsstrahlungData mubrems;
    std::shared_ptr<ChipsNeutronElasticModel> chips;

    double u01() { return std::uniform_real_distribution<double>(0, 1)(gen); }
    int irand(int lo, int hi) { return std::uniform_int_distribution<int>(lo, hi)(gen); }

    //! log-uniform over [lo, hi] including both end points and +-1 ulp inside
    double edge_delta{-1};  // exploration aid (env VERIF_C04_EDGE): E = lo (1 + delta)
    double energy(double lo, double hi)
    {
        if (edge_delta >= 0)
            return std::min(hi, std::max(std::nextafter(lo, hi), lo * (1 + edge_delta)));
        double r = u01();
        if (r < 0.03)
            return lo;
        if (r < 0.06)
            return std::nextafter(lo, hi);
        if (r < 0.09)
            return hi;
        if (r < 0.12)
            return std::nextafter(hi, lo);
        // log-uniform in the DISTANCE from an end point (threshold behaviour at every scale)
        if (r < 0.17)
            return std::min(hi, std::max(lo, lo * (1 + std::pow(10.0, -16 * u01()))));
        if (r < 0.19)
            return std::min(hi, std::max(lo, hi * (1 - std::pow(10.0, -16 * u01()))));
        double e = std::exp(std::log(lo) + u01() * (std::log(hi) - std::log(lo)));
        return std::min(hi, std::max(lo, e));
    }
    //! direction on the whole sphere, with poles / near-pole / axis cases
    Real3 direction()
    {
        double r = u01();
        if (r < 0.04)
            return {0, 0, 1};
        if (r < 0.08)
            return {0, 0, -1};
        if (r < 0.10)
            return {1, 0, 0};
        if (r < 0.12)
            return {0, -1, 0};
        if (r < 0.16)
        {
            Real3 d{1e-9 * (u01() - 0.5), 1e-9 * (u01() - 0.5), u01() < 0.5 ? 1.0 : -1.0};
            return make_unit_vector(d);
        }
        if (r < 0.21)
        {
            // polar angle log-uniform around either pole (rotate() switches formula at
            // sin(theta) = 0.005 for double), any azimuth
            double st = std::pow(10.0, -9 + u01() * (std::log10(0.02) + 9));
            double ph = 2 * constants::pi * u01();
            double cz = std::sqrt(1 - st * st) * (u01() < 0.5 ? 1.0 : -1.0);
            return make_unit_vector(Real3{st * std::cos(ph), st * std::sin(ph), cz});
        }
        double c = 2 * u01() - 1;
        double phi = 2 * constants::pi * u01();
        double s = std::sqrt(std::max(0.0, 1 - c * c));
        return make_unit_vector(Real3{s * std::cos(phi), s * std::sin(phi), c});
    }
    ParticleTrackView const& set_particle(ParticleId id, double e)
    {
        ParticleTrackView::Initializer_t init;
        init.particle_id = id;
        init.energy = MevEnergy{e};
        *ptrack = init;
        return *ptrack;
    }
    double mass(ParticleId id) const { return particles->get(id).mass().value(); }
};

void build_world(World& w, unsigned seed)
{
    using namespace constants;
    w.gen.seed(seed * 0x9E3779B97F4A7C15ull + 4);
    constexpr auto zero = zero_quantity();
    ParticleParams::Input pi = {
        {"gamma", pdg::gamma(), zero, zero, stable_decay_constant},
        {"electron", pdg::electron(), MevMass{k_me}, ElementaryCharge{-1}, stable_decay_constant},
        {"positron", pdg::positron(), MevMass{k_me}, ElementaryCharge{1}, stable_decay_constant},
        {"mu_minus", pdg::mu_minus(), MevMass{k_mmu}, ElementaryCharge{-1}, stable_decay_constant},
        {"mu_plus", pdg::mu_plus(), MevMass{k_mmu}, ElementaryCharge{1}, stable_decay_constant},
        {"proton", pdg::proton(), MevMass{k_mp}, ElementaryCharge{1}, stable_decay_constant},
        {"neutron", pdg::neutron(), MevMass{k_mn}, zero, stable_decay_constant},
    };
    w.particles = std::make_shared<ParticleParams>(std::move(pi));
    auto const& P = *w.particles;
    w.gamma = P.find(pdg::gamma());
    w.electron = P.find(pdg::electron());
    w.positron = P.find(pdg::positron());
    w.mu_minus = P.find(pdg::mu_minus());
    w.mu_plus = P.find(pdg::mu_plus());
    w.proton = P.find(pdg::proton());
    w.neutron = P.find(pdg::neutron());
    w.pstate = StateStore<ParticleStateData>(P.host_ref(), 1);
    w.ptrack = std::make_unique<ParticleTrackView>(P.host_ref(), w.pstate.ref(), TrackSlotId{0});

    // production cuts {gamma, electron, positron, proton} [MeV]
    std::vector<CutSet> cuts = {{1e-4, 1e-4, 1e-4, 1e-4},
                                {1e-3, 1e-3, 1e-3, 1e-3},
                                {0.02064384, 0.35, 0.34, 0.07},
                                {0.0945861, 1.28, 1.21, 0.1},
                                {7.0, 40.0, 38.0, 5.0}};
    std::vector<CutSet> cuts_k = cuts;
    cuts_k.insert(cuts_k.begin(), {0, 0, 0, 0});  // "no cuts" (LivermorePE test set-up)
    cuts_k.resize(4);

    w.mix = make_matset(w.particles,
                        {{29, 63.546, "Cu", {}},
                         {82, 207.2, "Pb", {}},
                         {19, 39.0983, "K", {}},
                         {8, 15.999, "O", {}},
                         {74, 183.84, "W", {}}},
                        cuts, false, true);
    w.k = make_matset(w.particles, {{19, 39.0983, "K", {}}}, cuts_k, false, false);
    w.cu = make_matset(w.particles, {{29, 63.546, "Cu", {}}}, cuts, false, false);
    w.cuiso = make_matset(w.particles, {{29, 63.546, "Cu", {2, 3}}}, cuts, true, false);
    w.nmat = make_matset(w.particles, {{2, 4.0026, "He", {0, 1}}, {29, 63.546, "Cu", {2, 3}}},
                         {cuts[1]}, true, true);

    // Klein-Nishina
    w.kn.ids.electron = w.electron;
    w.kn.ids.gamma = w.gamma;
    w.kn.inv_electron_mass = 1 / k_me;

    // Livermore PE (+ atomic relaxation, radiative only / with Auger) on Z = 19
    {
        LivermorePEReader read_pe(k_data.c_str());
        w.livermore = std::make_shared<LivermorePEModel>(ActionId{0}, P, *w.k.mats, read_pe);
        AtomicRelaxationReader read_tr(k_data.c_str(), k_data.c_str());
        AtomicRelaxationParams::Input ri;
        ri.cutoffs = w.k.cuts;
        ri.materials = w.k.mats;
        ri.particles = w.particles;
        ri.load_data = read_tr;
        ri.is_auger_enabled = false;
        w.relax_fluor = std::make_shared<AtomicRelaxationParams>(ri);
        resize(&w.relax_state_fluor, w.relax_fluor->host_ref(), 1);
        w.relax_ref_fluor = w.relax_state_fluor;
        ri.is_auger_enabled = true;
        w.relax_auger = std::make_shared<AtomicRelaxationParams>(ri);
        resize(&w.relax_state_auger, w.relax_auger->host_ref(), 1);
        w.relax_ref_auger = w.relax_state_auger;
    }

    // imported (empty) process data for the models that need an ImportedProcesses
    {
        std::vector<ImportProcess> v;
        v.push_back(make_import_process(*w.mix.mats, pdg::gamma(), {}, ImportProcessClass::rayleigh,
                                        {ImportModelClass::livermore_rayleigh}, 0, 1e12));
        auto e = make_import_process(*w.mix.mats, pdg::electron(), pdg::gamma(), ImportProcessClass::e_brems,
                                     {ImportModelClass::e_brems_sb, ImportModelClass::e_brems_lpm}, 0, 1e12);
        auto p = e;
        p.particle_pdg = pdg::positron().get();
        v.push_back(e);
        v.push_back(p);
        w.imp_mix = std::make_shared<ImportedProcesses>(std::move(v));
    }
    {
        std::vector<ImportProcess> v;
        auto e = make_import_process(*w.cu.mats, pdg::electron(), pdg::gamma(), ImportProcessClass::e_brems,
                                     {ImportModelClass::e_brems_sb, ImportModelClass::e_brems_lpm}, 0, 1e12);
        auto p = e;
        p.particle_pdg = pdg::positron().get();
        v.push_back(e);
        v.push_back(p);
        w.imp_cu = std::make_shared<ImportedProcesses>(std::move(v));
    }
    {
        std::vector<ImportProcess> v;
        auto e = make_import_process(*w.cuiso.mats, pdg::electron(), {}, ImportProcessClass::coulomb_scat,
                                     {ImportModelClass::e_coulomb_scattering}, 1e-4, 1e8);
        auto p = e;
        p.particle_pdg = pdg::positron().get();
        v.push_back(e);
        v.push_back(p);
        w.imp_cuiso = std::make_shared<ImportedProcesses>(std::move(v));
    }
    w.rayleigh = std::make_shared<RayleighModel>(ActionId{0}, P, *w.mix.mats, w.imp_mix);

    w.bh.ids.electron = w.electron;
    w.bh.ids.positron = w.positron;
    w.bh.ids.gamma = w.gamma;
    w.bh.electron_mass = MevMass{k_me};
    w.bh.enable_lpm = false;
    w.bh_lpm = w.bh;
    w.bh_lpm.enable_lpm = true;

    w.epgg.positron = w.positron;
    w.epgg.gamma = w.gamma;
    w.epgg.electron_mass = MevMass{k_me};

    w.mb.ids.electron = w.electron;
    w.mb.ids.positron = w.positron;
    w.mb.electron_mass = MevMass{k_me};

    {
        SeltzerBergerReader read_sb(k_data.c_str());
        w.sb = std::make_shared<SeltzerBergerModel>(ActionId{0}, P, *w.cu.mats, w.imp_cu, read_sb);
        w.cb = std::make_shared<CombinedBremModel>(ActionId{0}, P, *w.cu.mats, w.imp_cu, read_sb, true);
    }
    w.rb = std::make_shared<RelativisticBremModel>(ActionId{0}, P, *w.mix.mats, w.imp_mix, false);
    w.rb_lpm = std::make_shared<RelativisticBremModel>(ActionId{0}, P, *w.mix.mats, w.imp_mix, true);

    w.coulomb = std::make_shared<CoulombScatteringModel>(ActionId{0}, P, *w.cuiso.mats, w.imp_cuiso);
    for (auto ff : {NuclearFormFactorType::none, NuclearFormFactorType::flat,
                    NuclearFormFactorType::exponential, NuclearFormFactorType::gaussian})
    {
        WentzelOKVIParams::Options o;
        o.is_combined = false;
        o.polar_angle_limit = 0;
        o.form_factor = ff;
        w.wentzel.push_back(std::make_shared<WentzelOKVIParams>(w.cuiso.mats, o));
    }

    w.muhad.electron = w.electron;
    w.muhad.electron_mass = MevMass{k_me};
    w.mubrems.gamma = w.gamma;
    w.mubrems.mu_minus = w.mu_minus;
    w.mubrems.mu_plus = w.mu_plus;
    w.mubrems.electron_mass = MevMass{k_me};

    {
        NeutronXsReader read_el(NeutronXsType::el, k_data.c_str());
        w.chips = std::make_shared<ChipsNeutronElasticModel>(ActionId{0}, P, *w.nmat.mats, read_el);
    }
}

//---------------------------------------------------------------------------//
// Oracle helpers (documented definitions, independent of the code under test)
//---------------------------------------------------------------------------//
double momentum_of(double T, double m)
{
    return std::sqrt(T * (T + 2 * m));
}
//! T_max = 2 m_e (gamma^2 - 1) / (1 + 2 gamma m_e/M + (m_e/M)^2)
double tmax_of(double T, double M)
{
    long double r = (long double)k_me / M;
    long double tau = (long double)T / M;
    long double g2m1 = tau * (tau + 2);
    return static_cast<double>(2 * (long double)k_me * g2m1 / (1 + 2 * (tau + 1) * r + r * r));
}

//---------------------------------------------------------------------------//
// Variants
//---------------------------------------------------------------------------//
struct Variant
{
    std::string name;
    Maker make;
};

std::vector<Variant> make_variants()
{
    std::vector<Variant> V;
    double const hi = 1e8;
    double const glo = 1e-6;  // gamma models: applicability [0, inf); driven from 1 eV

    V.push_back({"KleinNishina", [=](World& w) {
        Call c;
        c.model = "KleinNishina";
        c.inc = w.gamma;
        c.E = w.energy(glo, hi);
        c.dir = w.direction();
        c.reserve_hint = 1;
        c.fn = [&w](Call const& c, CountingEngine& rng, StackAllocator<Secondary>& alloc) {
            auto const& p = w.set_particle(c.inc, c.E);
            KleinNishinaInteractor interact(w.kn, p, c.dir, alloc);
            return interact(rng);
        };
        return c;
    }});

    auto livermore = [=](std::string name, int relax) {
        return Variant{name, [=](World& w) {
            Call c;
            c.model = "LivermorePE";
            c.inc = w.gamma;
            c.E = w.energy(glo, hi);
            c.dir = w.direction();
            int cs = w.irand(0, static_cast<int>(w.k.cutsets.size()) - 1);
            MaterialId mid = w.k.mat(0, cs);
            c.cutE = w.k.cutsets[cs].electron;
            c.cutG = w.k.cutsets[cs].gamma;
            c.info = {{"cutset", cs}, {"relax", relax}};
            {
                AtomicRelaxationHelper h(relax == 0   ? w.relax_params_none
                                         : relax == 1 ? w.relax_fluor->host_ref()
                                                      : w.relax_auger->host_ref(),
                                         relax == 0   ? w.relax_state_none
                                         : relax == 1 ? w.relax_ref_fluor
                                                      : w.relax_ref_auger,
                                         ElementId{0}, TrackSlotId{0});
                c.maxsec = h ? static_cast<int>(h.max_secondaries()) : 0;
            }
            c.reserve_hint = 1 + c.maxsec;
            c.fn = [&w, mid, relax](Call const& c, CountingEngine& rng, StackAllocator<Secondary>& alloc) {
                auto const& p = w.set_particle(c.inc, c.E);
                AtomicRelaxationHelper h(relax == 0   ? w.relax_params_none
                                         : relax == 1 ? w.relax_fluor->host_ref()
                                                      : w.relax_auger->host_ref(),
                                         relax == 0   ? w.relax_state_none
                                         : relax == 1 ? w.relax_ref_fluor
                                                      : w.relax_ref_auger,
                                         ElementId{0}, TrackSlotId{0});
                auto cutoffs = w.k.cuts->get(mid);
                LivermorePEInteractor interact(w.livermore->host_ref(), h, ElementId{0}, p, cutoffs, c.dir, alloc);
                return interact(rng);
            };
            return c;
        }};
    };
    V.push_back(livermore("LivermorePE", 0));
    V.push_back(livermore("LivermorePE+fluor", 1));
    V.push_back(livermore("LivermorePE+auger", 2));

    V.push_back({"Rayleigh", [=](World& w) {
        Call c;
        c.model = "Rayleigh";
        c.inc = w.gamma;
        c.E = w.energy(glo, hi);
        c.dir = w.direction();
        int el = w.irand(0, 4);
        c.info = {{"element", w.mix.elnames[el]}};
        c.reserve_hint = 0;
        c.fn = [&w, el](Call const& c, CountingEngine& rng, StackAllocator<Secondary>&) {
            auto const& p = w.set_particle(c.inc, c.E);
            RayleighInteractor interact(w.rayleigh->host_ref(), p, c.dir, ElementId(static_cast<size_type>(el)));
            return interact(rng);
        };
        return c;
    }});

    auto bethe = [=](std::string name, bool lpm) {
        return Variant{name, [=](World& w) {
            Call c;
            c.model = "BetheHeitler";
            c.inc = w.gamma;
            c.E = w.energy(2 * k_me, hi);
            c.dir = w.direction();
            int el = w.irand(0, 4);
            int cs = w.irand(0, 4);
            c.info = {{"element", w.mix.elnames[el]}, {"lpm", lpm}};
            c.reserve_hint = 2;
            MaterialId mid = w.mix.mat(el, cs);
            c.fn = [&w, mid, lpm](Call const& c, CountingEngine& rng, StackAllocator<Secondary>& alloc) {
                auto const& p = w.set_particle(c.inc, c.E);
                MaterialView mat = w.mix.mats->get(mid);
                ElementView elv = mat.make_element_view(ElementComponentId{0});
                BetheHeitlerInteractor interact(lpm ? w.bh_lpm : w.bh, p, c.dir, alloc, mat, elv);
                return interact(rng);
            };
            return c;
        }};
    };
    V.push_back(bethe("BetheHeitler", false));
    V.push_back(bethe("BetheHeitler+lpm", true));

    V.push_back({"EPlusGG", [=](World& w) {
        Call c;
        c.model = "EPlusGG";
        c.inc = w.positron;
        // applicability [0, 1e8]: at rest (E = 0) is the lower end point
        c.E = w.u01() < 0.1 ? 0.0 : w.energy(1e-9, hi);
        c.dir = w.direction();
        c.reserve_hint = 2;
        c.fn = [&w](Call const& c, CountingEngine& rng, StackAllocator<Secondary>& alloc) {
            auto const& p = w.set_particle(c.inc, c.E);
            EPlusGGInteractor interact(w.epgg, p, c.dir, alloc);
            return interact(rng);
        };
        return c;
    }});

    auto mb = [=](std::string name, bool electron) {
        return Variant{name, [=](World& w) {
            Call c;
            c.model = "MollerBhabha";
            c.inc = electron ? w.electron : w.positron;
            int cs = w.irand(0, 4);
            c.cutE = w.mix.cutsets[cs].electron;
            // precondition: E > 2 cut (Moller) / E > cut (Bhabha); up to max_valid_energy
            double lo = std::nextafter((electron ? 2 : 1) * c.cutE, hi);
            c.E = w.energy(lo, MollerBhabhaData::max_valid_energy().value());
            c.dir = w.direction();
            c.info = {{"cutset", cs}};
            MaterialId mid = w.mix.mat(0, cs);
            c.fn = [&w, mid](Call const& c, CountingEngine& rng, StackAllocator<Secondary>& alloc) {
                auto const& p = w.set_particle(c.inc, c.E);
                auto cutoffs = w.mix.cuts->get(mid);
                MollerBhabhaInteractor interact(w.mb, p, cutoffs, c.dir, alloc);
                return interact(rng);
            };
            return c;
        }};
    };
    V.push_back(mb("MollerBhabha/e-", true));
    V.push_back(mb("MollerBhabha/e+", false));

    V.push_back({"SeltzerBerger", [=](World& w) {
        Call c;
        c.model = "SeltzerBerger";
        c.inc = w.u01() < 0.5 ? w.electron : w.positron;
        int cs = w.irand(0, 4);
        c.cutG = w.cu.cutsets[cs].gamma;
        // precondition: cut < E < 1 GeV (both open)
        c.E = w.energy(std::nextafter(c.cutG, hi), std::nextafter(1e3, 0.0));
        c.dir = w.direction();
        c.info = {{"cutset", cs}};
        MaterialId mid = w.cu.mat(0, cs);
        c.fn = [&w, mid](Call const& c, CountingEngine& rng, StackAllocator<Secondary>& alloc) {
            auto const& p = w.set_particle(c.inc, c.E);
            auto cutoffs = w.cu.cuts->get(mid);
            MaterialView mat = w.cu.mats->get(mid);
            SeltzerBergerInteractor interact(w.sb->host_ref(), p, c.dir, cutoffs, alloc, mat, ElementComponentId{0});
            return interact(rng);
        };
        return c;
    }});

    auto relbrem = [=](std::string name, bool lpm) {
        return Variant{name, [=](World& w) {
            Call c;
            c.model = "RelativisticBrem";
            c.inc = w.u01() < 0.5 ? w.electron : w.positron;
            int cs = w.irand(0, 4);
            int el = w.irand(0, 4);
            bool compound = w.u01() < 0.2;
            c.cutG = w.mix.cutsets[cs].gamma;
            c.E = w.energy(1e3, hi);  // [1 GeV, 100 TeV]
            c.dir = w.direction();
            c.info = {{"cutset", cs}, {"element", w.mix.elnames[el]}, {"lpm", lpm}, {"compound", compound}};
            MaterialId mid = compound ? w.mix.compound(cs) : w.mix.mat(el, cs);
            ElementComponentId ec(compound ? static_cast<size_type>(el) : 0);
            c.fn = [&w, mid, ec, lpm](Call const& c, CountingEngine& rng, StackAllocator<Secondary>& alloc) {
                auto const& p = w.set_particle(c.inc, c.E);
                auto cutoffs = w.mix.cuts->get(mid);
                MaterialView mat = w.mix.mats->get(mid);
                RelativisticBremInteractor interact((lpm ? w.rb_lpm : w.rb)->host_ref(), p, c.dir, cutoffs, alloc, mat, ec);
                return interact(rng);
            };
            return c;
        }};
    };
    V.push_back(relbrem("RelativisticBrem", false));
    V.push_back(relbrem("RelativisticBrem+lpm", true));

    V.push_back({"CombinedBrem", [=](World& w) {
        Call c;
        c.model = "CombinedBrem";
        c.inc = w.u01() < 0.5 ? w.electron : w.positron;
        int cs = w.irand(0, 4);
        c.cutG = w.cu.cutsets[cs].gamma;
        // precondition: E > cut; applicability up to 100 TeV; 1 GeV is the internal switch
        double r = w.u01();
        c.E = r < 0.04 ? 1e3 : r < 0.08 ? std::nextafter(1e3, 0.0) : w.energy(std::nextafter(c.cutG, hi), hi);
        c.dir = w.direction();
        c.info = {{"cutset", cs}};
        MaterialId mid = w.cu.mat(0, cs);
        c.fn = [&w, mid](Call const& c, CountingEngine& rng, StackAllocator<Secondary>& alloc) {
            auto const& p = w.set_particle(c.inc, c.E);
            auto cutoffs = w.cu.cuts->get(mid);
            MaterialView mat = w.cu.mats->get(mid);
            CombinedBremInteractor interact(w.cb->host_ref(), p, c.dir, cutoffs, alloc, mat, ElementComponentId{0});
            return interact(rng);
        };
        return c;
    }});

    V.push_back({"CoulombScattering", [=](World& w) {
        Call c;
        c.model = "CoulombScattering";
        c.inc = w.u01() < 0.5 ? w.electron : w.positron;
        int cs = w.irand(0, 4);
        int ff = w.irand(0, 3);
        int iso = w.irand(0, 1);
        // precondition 0 < E < 100 TeV; imported grid [1e-4, 1e8]
        c.E = w.energy(1e-4, std::nextafter(1e8, 0.0));
        c.dir = w.direction();
        c.info = {{"cutset", cs}, {"formfactor", ff}, {"isotope", iso}};
        c.reserve_hint = 0;
        MaterialId mid = w.cuiso.mat(0, cs);
        c.fn = [&w, mid, ff, iso](Call const& c, CountingEngine& rng, StackAllocator<Secondary>&) {
            auto const& p = w.set_particle(c.inc, c.E);
            auto cutoffs = w.cuiso.cuts->get(mid);
            MaterialView mat = w.cuiso.mats->get(mid);
            IsotopeView target = mat.make_element_view(ElementComponentId{0})
                                     .make_isotope_view(IsotopeComponentId(static_cast<size_type>(iso)));
            CoulombScatteringInteractor interact(w.coulomb->host_ref(), w.wentzel[ff]->host_ref(), p, c.dir,
                                                 mat, target, ElementId{0}, cutoffs);
            return interact(rng);
        };
        return c;
    }});

    // mu / hadron ionisation: MuHadIonizationInteractor<Distribution>
    auto muhad = [=](std::string name, std::string model, int kind) {
        return Variant{name, [=](World& w) {
            Call c;
            c.model = model;
            int cs = w.irand(0, 4);
            c.cutE = w.mix.cutsets[cs].electron;
            double lo, up;
            double r = w.u01();
            if (kind == 0)  // MuBetheBloch: mu+- in [200 keV, 100 TeV]
            {
                c.inc = r < 0.5 ? w.mu_minus : w.mu_plus;
                lo = 0.2;
                up = hi;
            }
            else if (kind == 1)  // BetheBloch: mu+- in [200 keV, 1 GeV], proton in [2 MeV, 100 TeV]
            {
                c.inc = r < 0.33 ? w.mu_minus : r < 0.66 ? w.mu_plus : w.proton;
                lo = c.inc == w.proton ? 2.0 : 0.2;
                up = c.inc == w.proton ? hi : 1e3;
            }
            else if (kind == 2)  // Bragg: mu+ up to 200 keV, proton up to 2 MeV
            {
                c.inc = r < 0.6 ? w.mu_plus : w.proton;
                lo = 0;
                up = c.inc == w.proton ? 2.0 : 0.2;
            }
            else  // ICRU73QO: mu- up to 200 keV
            {
                c.inc = w.mu_minus;
                lo = 0;
                up = 0.2;
            }
            double M = w.mass(c.inc);
            if (kind >= 2)
            {
                // documented lower limit of the energy transfer: min(cut, T_lowest M / m_p)
                double lowest = (kind == 3 ? 5e-3 : 2.5e-4);
                c.floor = lowest * M / native_value_to<MevMass>(constants::proton_mass).value();
                // use small cuts more often: the window is only open when T_max > threshold
                if (w.u01() < 0.6)
                {
                    cs = w.irand(0, 1);
                    c.cutE = w.mix.cutsets[cs].electron;
                }
            }
            // precondition: E > min_secondary_energy
            double thr = c.floor > 0 ? std::min(c.floor, c.cutE) : c.cutE;
            lo = std::max(lo, std::nextafter(thr, hi));
            if (!(lo < up))
            {
                cs = 0;
                c.cutE = w.mix.cutsets[cs].electron;
                thr = c.floor > 0 ? std::min(c.floor, c.cutE) : c.cutE;
                lo = std::nextafter(thr, hi);
            }
            c.E = w.energy(lo, up);
            c.dir = w.direction();
            c.tmax = tmax_of(c.E, M);
            c.info = {{"cutset", cs}};
            MaterialId mid = w.mix.mat(0, cs);
            c.fn = [&w, mid, kind](Call const& c, CountingEngine& rng, StackAllocator<Secondary>& alloc) {
                auto const& p = w.set_particle(c.inc, c.E);
                auto cutoffs = w.mix.cuts->get(mid);
                if (kind == 0)
                {
                    MuHadIonizationInteractor<MuBBEnergyDistribution> interact(w.muhad, p, cutoffs, c.dir, alloc);
                    return interact(rng);
                }
                if (kind == 1)
                {
                    MuHadIonizationInteractor<BetheBlochEnergyDistribution> interact(w.muhad, p, cutoffs, c.dir, alloc);
                    return interact(rng);
                }
                MuHadIonizationInteractor<BraggICRU73QOEnergyDistribution> interact(w.muhad, p, cutoffs, c.dir, alloc);
                return interact(rng);
            };
            return c;
        }};
    };
    V.push_back(muhad("MuBetheBloch", "MuBetheBloch", 0));
    V.push_back(muhad("BetheBloch", "BetheBloch", 1));
    V.push_back(muhad("Bragg", "BraggICRU73QO", 2));
    V.push_back(muhad("ICRU73QO", "BraggICRU73QO", 3));

    V.push_back({"MuBremsstrahlung", [=](World& w) {
        Call c;
        c.model = "MuBremsstrahlung";
        c.inc = w.u01() < 0.5 ? w.mu_minus : w.mu_plus;
        int cs = w.irand(0, 4);
        int el = w.irand(0, 4);
        c.cutG = w.mix.cutsets[cs].gamma;
        // precondition: E > gamma cut; applicability up to 100 TeV
        c.E = w.energy(std::nextafter(c.cutG, hi), hi);
        c.dir = w.direction();
        c.info = {{"cutset", cs}, {"element", w.mix.elnames[el]}};
        MaterialId mid = w.mix.mat(el, cs);
        c.fn = [&w, mid](Call const& c, CountingEngine& rng, StackAllocator<Secondary>& alloc) {
            auto const& p = w.set_particle(c.inc, c.E);
            auto cutoffs = w.mix.cuts->get(mid);
            MaterialView mat = w.mix.mats->get(mid);
            MuBremsstrahlungInteractor interact(w.mubrems, p, c.dir, cutoffs, alloc, mat, ElementComponentId{0});
            return interact(rng);
        };
        return c;
    }});

    V.push_back({"ChipsNeutronElastic", [=](World& w) {
        Call c;
        c.model = "ChipsNeutronElastic";
        c.inc = w.neutron;
        auto const& ref = w.chips->host_ref();
        c.E = w.energy(ref.min_valid_energy().value(), ref.max_valid_energy().value());
        c.dir = w.direction();
        int el = w.irand(0, 1);
        int iso = w.irand(0, 1);
        c.info = {{"element", w.nmat.elnames[el]}, {"isotope", iso}};
        c.reserve_hint = 0;
        MaterialId mid = w.nmat.mat(el, 0);
        c.fn = [&w, mid, iso](Call const& c, CountingEngine& rng, StackAllocator<Secondary>&) {
            auto const& p = w.set_particle(c.inc, c.E);
            MaterialView mat = w.nmat.mats->get(mid);
            IsotopeView target = mat.make_element_view(ElementComponentId{0})
                                     .make_isotope_view(IsotopeComponentId(static_cast<size_type>(iso)));
            ChipsNeutronElasticInteractor interact(w.chips->host_ref(), p, c.dir, target);
            return interact(rng);
        };
        return c;
    }});
    return V;
}

//---------------------------------------------------------------------------//
// Recording
//---------------------------------------------------------------------------//
//! doubles for the human reader / replay only (TLC's JSON reader has no reals): as strings
std::string g17(double v)
{
    char buf[40];
    std::snprintf(buf, sizeof(buf), "%.17g", v);
    return buf;
}
bool isfin(double v)
{
    return std::isfinite(v);
}
double norm_residual(Real3 const& d)
{
    double r = std::fabs(std::sqrt(d[0] * d[0] + d[1] * d[1] + d[2] * d[2]) - 1.0);
    return isfin(r) ? r : 1e300;
}
char const* action_name(Interaction::Action a)
{
    switch (a)
    {
        case Interaction::Action::scattered: return "scattered";
        case Interaction::Action::absorbed: return "absorbed";
        case Interaction::Action::unchanged: return "unchanged";
        case Interaction::Action::failed: return "failed";
    }
    return "invalid";
}

std::atomic<long> g_heartbeat{0};
std::atomic<bool> g_done{false};

struct Coverage
{
    std::map<std::string, long> per_variant;
    std::set<std::string> classes;
    std::map<std::string, long> per_action;
    long max_draws{0};
    std::map<std::string, long> max_draws_variant;
};

}  // namespace

int run_samples(int argc, char** argv);
int run_alloc(int argc, char** argv);

int main(int argc, char** argv)
{
    if (argc < 2)
    {
        std::cerr << "usage: vinteract samples|alloc ...\n";
        return 2;
    }
    std::string mode = argv[1];
    try
    {
        if (mode == "samples")
            return run_samples(argc, argv);
        if (mode == "alloc")
            return run_alloc(argc, argv);
    }
    catch (std::exception const& e)
    {
        std::cerr << "vinteract: exception: " << e.what() << std::endl;
        return 3;
    }
    std::cerr << "unknown mode " << mode << "\n";
    return 2;
}

int run_samples(int argc, char** argv)
{
    if (argc < 5)
    {
        std::cerr << "usage: vinteract samples out seed n_per_variant [filter|all] [drawcap]\n";
        return 2;
    }
    std::string const outpath = argv[2];
    unsigned const seed = static_cast<unsigned>(std::strtoull(argv[3], nullptr, 10));
    long const nper = std::atol(argv[4]);
    std::string const filter = argc > 5 ? argv[5] : "all";
    std::size_t const drawcap = argc > 6 ? std::strtoull(argv[6], nullptr, 10) : 200000;
    double const watchdog_s = argc > 7 ? std::atof(argv[7]) : 20.0;

    verif::NdjsonWriter out(outpath);
    World w;
    build_world(w, seed);
    if (char const* ed = std::getenv("VERIF_C04_EDGE"))
        w.edge_delta = std::atof(ed);
    auto variants = make_variants();

    auto xparams = std::make_shared<XorwowRngParams>(seed);
    XorwowStore xstore(xparams->host_ref(), StreamId{0}, 1);
    XorwowRngEngine xeng(xparams->host_ref(), xstore.ref(), TrackSlotId{0});

    double const twom = 2 * w.mass(w.positron);
    double const norm_tol = 1e-10;
    double const mom_tol = 1e-6;
    double const thr_rel = 1e-9;

    {
        json parts = json::array();
        for (auto id : range(ParticleId{w.particles->size()}))
            parts.push_back(w.particles->id_to_label(id));
        out({{"e", "Config"},
             {"seed", seed},
             {"parts", parts},
             {"twom", g17(twom)},
             {"norm_tol", g17(norm_tol)},
             {"mom_tol", g17(mom_tol)},
             {"thr_rel", g17(thr_rel)},
             {"drawcap", drawcap}});
    }

    // stacks: tight capacities 1..24 and an ample one
    std::vector<std::unique_ptr<Stack>> stacks;
    for (int c = 1; c <= 24; ++c)
        stacks.push_back(std::make_unique<Stack>(c));
    Stack ample(64);

    // watchdog: a call that neither returns nor draws is an observed event
    std::thread dog([&] {
        long last = -1;
        auto t_last = std::chrono::steady_clock::now();
        while (!g_done.load())
        {
            std::this_thread::sleep_for(std::chrono::milliseconds(200));
            long hb = g_heartbeat.load();
            auto now = std::chrono::steady_clock::now();
            if (hb != last)
            {
                last = hb;
                t_last = now;
            }
            else if (std::chrono::duration<double>(now - t_last).count() > watchdog_s)
            {
                // the main thread is stuck inside an interactor: it is not writing
                out({{"e", "Hang"}, {"k", hb}});
                out.flush();
                std::_Exit(0);
            }
        }
    });

    Coverage cov;
    long k = 0;
    for (auto const& v : variants)
    {
        if (filter != "all" && v.name.find(filter) == std::string::npos)
            continue;
        for (long s = 0; s < nper; ++s, ++k)
        {
            g_heartbeat.store(k + 1);
            Call c = v.make(w);
            c.var = v.name;

            // ---- allocator state: ample, or a tight capacity (fault enumeration) ----
            bool tight = w.u01() < 0.3;
            int before = w.irand(0, 3);
            Stack* st = &ample;
            std::string capclass = "ample";
            if (tight)
            {
                int free_slots = w.irand(0, c.reserve_hint + 1);
                int cap = before + free_slots;
                if (cap < 1)
                {
                    cap = 1;
                    before = 1;
                    free_slots = 0;
                }
                st = stacks[cap - 1].get();
                capclass = "free" + std::to_string(free_slots);
            }
            st->prepare(before);

            // ---- the call ----
            CountingEngine rng(xeng, drawcap);
            Interaction res;
            bool aborted = false;
            try
            {
                res = c.fn(c, rng, st->allocator());
            }
            catch (verif::DrawCapExceeded const&)
            {
                aborted = true;
                res = Interaction::from_failure();
            }
            long const draws = static_cast<long>(rng.count()) - (aborted ? 1 : 0);

            // ---- observations ----
            std::string act = aborted ? "aborted" : action_name(res.action);
            int const after = st->size();
            Secondary* base = st->base();
            int span_len = aborted ? 0 : static_cast<int>(res.secondaries.size());
            int span_off = (span_len > 0) ? static_cast<int>(res.secondaries.data() - base) : -1;
            bool const changed = (act == "scattered" || act == "absorbed");

            double const Ein = c.E;
            double const m_inc = w.mass(c.inc);
            bool const inc_is_positron = (c.inc == w.positron);
            double const Win = Ein + (inc_is_positron ? twom : 0);
            // quantum: 2^qexp MeV with 2^(qexp+28) >= max(W_in, 1 MeV)
            int qexp;
            {
                int ex;
                std::frexp(std::max(Win, 1.0), &ex);  // max = f * 2^ex, f in [0.5, 1)
                qexp = ex - 28;
            }
            double const q = std::ldexp(1.0, qexp);
            auto quanta = [&](double v) -> long long {
                if (!isfin(v))
                    return 0;
                double r = std::nearbyint(v / q);
                if (std::fabs(r) > 2.0e9)
                    return r > 0 ? 2000000000ll : -2000000000ll;
                return static_cast<long long>(r);
            };

            // outgoing state of the incident particle (only meaningful when scattered)
            double Eout = 0;
            Real3 dout{0, 0, 1};
            if (act == "scattered")
            {
                Eout = res.energy.value();
                dout = res.direction;
            }
            else if (act == "absorbed")
            {
                Eout = res.energy.value();
            }
            double const dep = (changed || act == "unchanged") ? res.energy_deposition.value() : 0;

            struct SecObs
            {
                bool truthy;
                unsigned pid;
                double E;
                Real3 d;
            };
            std::vector<SecObs> secs;
            int nfalse = 0;
            for (int i = 0; i < span_len; ++i)
            {
                Secondary const& s = res.secondaries[i];
                if (!s)
                {
                    ++nfalse;
                    continue;
                }
                secs.push_back({true, s.particle_id.unchecked_get(), s.energy.value(), s.direction});
            }

            // momentum residuals (oracle): r = |p_in - sum p_out| / max(|p_in|, sum |p_out|)
            double mom = 0, momfix = 0;
            {
                double pin = momentum_of(Ein, m_inc);
                Real3 sum{0, 0, 0};
                double scale = pin;
                double sumabs = 0;
                Real3 last{0, 0, 0};
                double plast = 0;
                if (act == "scattered")
                {
                    double po = momentum_of(Eout, m_inc);
                    for (int a = 0; a < 3; ++a)
                        sum[a] += po * dout[a];
                    sumabs += po;
                }
                for (std::size_t i = 0; i < secs.size(); ++i)
                {
                    double ms = secs[i].pid < w.particles->size() ? w.mass(ParticleId{secs[i].pid}) : 0;
                    double ps = momentum_of(secs[i].E, ms);
                    for (int a = 0; a < 3; ++a)
                        sum[a] += ps * secs[i].d[a];
                    sumabs += ps;
                    if (i + 1 == secs.size())
                    {
                        for (int a = 0; a < 3; ++a)
                            last[a] = ps * secs[i].d[a];
                        plast = ps;
                    }
                }
                scale = std::max(scale, sumabs);
                if (scale > 0)
                {
                    double r2 = 0, o2 = 0;
                    for (int a = 0; a < 3; ++a)
                    {
                        double diff = pin * c.dir[a] - sum[a];
                        r2 += diff * diff;
                        // residual if the LAST secondary pointed along p_in - (all others)
                        double others = pin * c.dir[a] - (sum[a] - last[a]);
                        o2 += others * others;
                    }
                    mom = std::sqrt(r2) / scale;
                    momfix = secs.empty() ? mom : std::fabs(std::sqrt(o2) - plast) / scale;
                }
                if (!isfin(mom))
                    mom = 1e300;
                if (!isfin(momfix))
                    momfix = 1e300;
            }

            // ---- ranks ----
            verif::Ranker rk;
            auto safe = [](double v) { return isfin(v) ? v : 1e300; };
            rk.add(0.0);
            rk.add(safe(Ein));
            rk.add(safe(Eout));
            rk.add(safe(dep));
            rk.add(norm_tol);
            rk.add(mom_tol);
            rk.add(mom);
            rk.add(momfix);
            double const rn_out = norm_residual(dout);
            rk.add(rn_out);
            for (auto const& s : secs)
            {
                rk.add(safe(s.E));
                rk.add(norm_residual(s.d));
            }
            double const cutE_lo = c.cutE >= 0 ? c.cutE * (1 - thr_rel) : 0;
            double const cutG_lo = c.cutG >= 0 ? c.cutG * (1 - thr_rel) : 0;
            double const kn_lo = KleinNishinaInteractor::secondary_cutoff().value() * (1 - thr_rel);
            double const floor_lo = c.floor >= 0 ? c.floor * (1 - thr_rel) : 0;
            double thrU = c.cutE >= 0 ? c.cutE : 0;  // threshold of "unchanged": min secondary energy
            if (c.floor >= 0)
                thrU = std::min(thrU, c.floor);
            double const tmax_lo = c.tmax >= 0 ? c.tmax * (1 - thr_rel) : 0;
            // brackets just above the production cuts (scoping of the near-cut findings)
            double const cutE_hi = c.cutE >= 0 ? c.cutE * (1 + 1e-8) : 0;
            double const cutG_hi = c.cutG >= 0 ? c.cutG * (1 + 1e-8) : 0;
            double const cutG_hi3 = c.cutG >= 0 ? c.cutG * (1 + 1e-3) : 0;
            rk.add(cutE_hi);
            rk.add(cutG_hi);
            rk.add(cutG_hi3);
            // incident polar angle w.r.t. the z axis (scoping of the rotate() finding)
            double const sinth_in = std::sqrt(std::max(0.0, 1 - c.dir[2] * c.dir[2]));
            double const sinth_min = 0.005;
            rk.add(sinth_in);
            rk.add(sinth_min);
            rk.add(cutE_lo);
            rk.add(cutG_lo);
            rk.add(kn_lo);
            rk.add(floor_lo);
            rk.add(thrU);
            rk.add(tmax_lo);
            rk.finalize();

            // ---- allocator observations ----
            json granted = json::array();
            for (int i = before; i < after && i < st->capacity(); ++i)
                granted.push_back(static_cast<bool>(base[i]) ? 1 : 0);
            bool const prefix_same = st->same_as_snapshot(0, std::min(before, st->capacity()));
            bool const tail_same = st->same_as_snapshot(
                std::min(std::max(after, before), st->capacity()), st->capacity());
            // on failure nothing at all may have been written
            bool const all_same = st->same_as_snapshot(0, st->capacity());

            json jsecs = json::array();
            for (auto const& s : secs)
            {
                bool known = s.pid < w.particles->size();
                jsecs.push_back({{"pt", known ? w.particles->id_to_label(ParticleId{s.pid}) : std::string("?")},
                                 {"pid", static_cast<int>(std::min<unsigned>(s.pid, 1000000))},
                                 {"Eq", quanta(s.E)},
                                 {"rE", rk(safe(s.E))},
                                 {"fin", isfin(s.E)},
                                 {"dfin", isfin(s.d[0]) && isfin(s.d[1]) && isfin(s.d[2])},
                                 {"rN", rk(norm_residual(s.d))}});
            }

            json xsecs = json::array();
            for (auto const& s : secs)
                xsecs.push_back(g17(s.E));
            json rec = {
                {"e", "Sample"},
                {"k", k},
                {"model", c.model},
                {"var", c.var},
                {"inc", {{"pt", w.particles->id_to_label(c.inc)}, {"Eq", quanta(Ein)}, {"rE", rk(safe(Ein))}}},
                {"qexp", qexp},
                {"twomq", quanta(twom)},
                {"act", act},
                {"out",
                 {{"Eq", quanta(Eout)},
                  {"rE", rk(safe(Eout))},
                  {"fin", isfin(Eout)},
                  {"dfin", isfin(dout[0]) && isfin(dout[1]) && isfin(dout[2])},
                  {"rN", rk(rn_out)}}},
                {"dep", {{"q", quanta(dep)}, {"r", rk(safe(dep))}, {"fin", isfin(dep)}}},
                {"secs", jsecs},
                {"nfalse", nfalse},
                {"np", static_cast<int>(w.particles->size())},
                {"ypos", c.dir[1] >= 0},
                {"draws", draws},
                {"aborted", aborted},
                {"al",
                 {{"cap", st->capacity()},
                  {"before", before},
                  {"after", after},
                  {"off", span_off},
                  {"len", span_len},
                  {"granted", granted},
                  {"prefix_same", prefix_same},
                  {"tail_same", tail_same},
                  {"all_same", all_same}}},
                {"maxsec", c.maxsec},
                {"rk",
                 {{"zero", rk(0.0)},
                  {"ntol", rk(norm_tol)},
                  {"mom", rk(mom)},
                  {"momfix", rk(momfix)},
                  {"momtol", rk(mom_tol)},
                  {"cutE", c.cutE >= 0 ? rk(cutE_lo) : -1},
                  {"cutG", c.cutG >= 0 ? rk(cutG_lo) : -1},
                  {"cutEhi", c.cutE >= 0 ? rk(cutE_hi) : -1},
                  {"cutGhi", c.cutG >= 0 ? rk(cutG_hi) : -1},
                  {"cutGhi3", c.cutG >= 0 ? rk(cutG_hi3) : -1},
                  {"sinth", rk(sinth_in)},
                  {"sinthmin", rk(sinth_min)},
                  {"kn", rk(kn_lo)},
                  {"floor", c.floor >= 0 ? rk(floor_lo) : -1},
                  {"tmaxlo", c.tmax >= 0 ? rk(tmax_lo) : -1},
                  {"thrU", rk(thrU)}}},
                {"x",
                 {{"E", g17(Ein)},
                  {"dir", {g17(c.dir[0]), g17(c.dir[1]), g17(c.dir[2])}},
                  {"Eout", g17(Eout)},
                  {"dep", g17(dep)},
                  {"secE", xsecs},
                  {"mom", g17(mom)},
                  {"info", c.info}}},
            };
            // anomalous residuals: add the outgoing directions for the human reader
            if (mom > mom_tol || rn_out > norm_tol)
            {
                json sd = json::array();
                for (auto const& s : secs)
                    sd.push_back({g17(s.d[0]), g17(s.d[1]), g17(s.d[2])});
                rec["x"]["odir"] = {g17(dout[0]), g17(dout[1]), g17(dout[2])};
                rec["x"]["sdir"] = sd;
                rec["x"]["momfix"] = g17(momfix);
            }
            out(rec);

            // ---- coverage bookkeeping ----
            cov.per_variant[c.var]++;
            cov.per_action[act]++;
            int decade = Ein > 0 ? static_cast<int>(std::floor(std::log10(Ein))) : -99;
            std::string kind = act;
            if (changed)
                kind += "/" + std::to_string(secs.size()) + (nfalse ? "f" : "") + (dep > 0 ? "d" : "");
            cov.classes.insert(c.var + "|" + std::to_string(decade) + "|" + capclass + "|" + kind);
            cov.max_draws = std::max(cov.max_draws, draws);
            cov.max_draws_variant[c.var] = std::max(cov.max_draws_variant[c.var], draws);
        }
    }
    g_done.store(true);
    dog.join();

    json pv = json::object();
    for (auto const& kv : cov.per_variant)
        pv[kv.first] = kv.second;
    json pa = json::object();
    for (auto const& kv : cov.per_action)
        pa[kv.first] = kv.second;
    json md = json::object();
    for (auto const& kv : cov.max_draws_variant)
        md[kv.first] = kv.second;
    json cls = json::array();
    for (auto const& s : cov.classes)
        cls.push_back(s);
    out({{"e", "Close"},
         {"n", k},
         {"per_variant", pv},
         {"per_action", pa},
         {"max_draws", cov.max_draws},
         {"max_draws_variant", md},
         {"classes", cls}});
    out.flush();
    return 0;
}

//---------------------------------------------------------------------------//
// mode alloc: sequential binding of spec/StackAlloc.tla.  In this build configuration
// (CELERITAS_OPENMP=event, host) corecel's atomic_add is a plain read-modify-write and the
// allocator's contract excludes concurrent callers, so the real template is driven from ONE
// thread: random sequences of allocate(count) / clear() on small capacities.  Every call is
// logged with its result; spec/StackAllocTrace.tla replays the PlusCal steps of one thread
// (FetchAdd; Check; Restore|Grant) without overlap and compares start|null and size.
//---------------------------------------------------------------------------//
int run_alloc(int argc, char** argv)
{
    if (argc < 5)
    {
        std::cerr << "usage: vinteract alloc out seed rounds\n";
        return 2;
    }
    verif::NdjsonWriter out(argv[2]);
    unsigned const seed = static_cast<unsigned>(std::strtoull(argv[3], nullptr, 10));
    int const rounds = std::atoi(argv[4]);
    std::mt19937_64 gen(seed * 77 + 5);
    auto irand = [&](int lo, int hi) { return std::uniform_int_distribution<int>(lo, hi)(gen); };
    long ncalls = 0;
    for (int r = 0; r < rounds; ++r)
    {
        int const cap = irand(1, 9);
        Stack st(cap);
        st.prepare(0);
        out({{"e", "AllocInit"}, {"cap", cap}});
        int const nops = irand(3, 14);
        for (int i = 0; i < nops; ++i)
        {
            if (irand(0, 9) == 0)
            {
                st.allocator().clear();
                st.prepare(0);
                out({{"e", "AllocClear"}, {"size", st.size()}});
                continue;
            }
            int const count = irand(1, 4);
            int const before = st.size();
            Secondary* p = st.allocator()(static_cast<size_type>(count));
            int const start = p ? static_cast<int>(p - st.base()) : -1;
            // observed writes: entries outside the granted range must be untouched
            bool untouched = st.same_as_snapshot(0, before)
                             && st.same_as_snapshot(p ? before + count : before, cap);
            bool fresh_false = true;
            if (p)
                for (int j = 0; j < count; ++j)
                    fresh_false = fresh_false && !static_cast<bool>(p[j]);
            out({{"e", "AllocCall"},
                 {"count", count},
                 {"start", start},
                 {"size", st.size()},
                 {"untouched", untouched},
                 {"fresh_false", fresh_false}});
            ++ncalls;
            // mark granted entries so that later calls can detect overwrites
            if (p)
            {
                for (int j = 0; j < count; ++j)
                {
                    p[j].particle_id = ParticleId{0};
                    p[j].energy = MevEnergy{1.0 + j};
                    p[j].direction = {0, 0, 1};
                }
                st.resnap();
            }
        }
    }
    out({{"e", "Close"}, {"n", ncalls}});
    out.flush();
    return 0;
}
