// C12 (involutes): drive the REAL celeritas::Involute (calc_sense, calc_intersections with both
// SurfaceStates, calc_normal) and SurfaceTranslator (through the public apply_transform) on the
// cases of an input script, and log the arguments and the CODE's results as ndjson.
//
//   vinvolute <cases.ndjson> <raw.ndjson>
//
// The script is produced by tools/involute_oracle.py (mode gen); the raw output goes back to the
// same tool (mode facts), which classifies it with an independent implementation of the
// mathematical definition of the involute; spec/InvoluteTrace.tla decides the clauses.
// This program computes NO expected values.  Besides calling the code it only does what the
// tracker does with the results: it moves the point to a reported intersection
// (q = p + dist * d, as a tracker would) to query the surface again with SurfaceState::on,
// and it evaluates calc_sense a little before and after each reported intersection.
//
// Input record:  {id, o[2], rb, a, sign("ccw"|"cw"), tmin, tmax,
//                 pts[[x,y,z]..], rays[{p[3], d[3], eps, d2[[3]..]}], tr[[3]..]}
// Output record: {e:"Inv", id, data[6], sign,
//                 pts[{p, sn, n[3]}],
//                 rays[{p, d, eps, dist[..], hits[{t, q, pb, sb, pa, sa, n, on[..], on2[{d, dist[..]}]}]}],
//                 tr[{t, data[6], sn[..per pts], q[..per pts]}]}
// Distances: finite doubles as JSON numbers (shortest round-trip form), no_intersection as
// "inf", NaN as "nan".
#include <cmath>
#include <exception>
#include <fstream>
#include <string>
#include <variant>

#include "corecel/Assert.hh"
#include "corecel/cont/Array.hh"
#include "corecel/math/ArrayUtils.hh"
#include "orange/OrangeTypes.hh"
#include "orange/surf/Involute.hh"
#include "orange/surf/VariantSurface.hh"
#include "orange/transform/Translation.hh"
#include "orange/transform/VariantTransform.hh"

#include "vjson.hh"

using namespace celeritas;
using verif::json;

namespace
{
json jd(real_type v)
{
    if (std::isnan(v))
        return "nan";
    if (std::isinf(v))
        return v > 0 ? "inf" : "-inf";
    return v;
}

template<class A>
json jarr(A const& a)
{
    json out = json::array();
    for (real_type v : a)
        out.push_back(jd(v));
    return out;
}

Real3 real3(json const& j)
{
    return Real3{j[0].get<double>(), j[1].get<double>(), j[2].get<double>()};
}

Real3 along(Real3 const& p, Real3 const& d, real_type t)
{
    Real3 q = p;
    axpy(t, d, &q);
    return q;
}

json intersections(Involute const& inv, Real3 const& p, Real3 const& d, SurfaceState st)
{
    auto r = inv.calc_intersections(p, d, st);
    return jarr(r);
}

verif::NdjsonWriter* g_writer = nullptr;

void on_terminate()
{
    if (g_writer)
    {
        (*g_writer)(json{{"e", "Abort"}, {"what", "terminate"}});
        g_writer->flush();
    }
    std::_Exit(4);
}
}  // namespace

int main(int argc, char** argv)
{
    if (argc != 3)
    {
        std::cerr << "usage: vinvolute <cases.ndjson> <raw.ndjson>\n";
        return 2;
    }
    std::ifstream in(argv[1]);
    if (!in)
    {
        std::cerr << "cannot open " << argv[1] << std::endl;
        return 3;
    }
    verif::NdjsonWriter w(argv[2]);
    g_writer = &w;
    std::set_terminate(on_terminate);

    std::string line;
    while (std::getline(in, line))
    {
        if (line.empty())
            continue;
        json c = json::parse(line);
        json rec{{"e", "Inv"}, {"id", c["id"]}, {"sign", c["sign"]}};
        try
        {
            Chirality sign = c["sign"].get<std::string>() == "cw" ? Chirality::right
                                                                  : Chirality::left;
            Involute inv{Involute::Real2{c["o"][0].get<double>(), c["o"][1].get<double>()},
                         c["rb"].get<double>(),
                         c["a"].get<double>(),
                         sign,
                         c["tmin"].get<double>(),
                         c["tmax"].get<double>()};
            rec["data"] = jarr(inv.data());
            rec["sign_back"] = inv.sign() == Chirality::right ? "cw" : "ccw";

            // ---- sense and normal at probe points
            json jp = json::array();
            for (auto const& pj : c["pts"])
            {
                Real3 p = real3(pj);
                jp.push_back({{"p", jarr(p)},
                              {"sn", static_cast<int>(inv.calc_sense(p))},
                              {"n", jarr(inv.calc_normal(p))}});
            }
            rec["pts"] = jp;

            // ---- rays
            json jr = json::array();
            for (auto const& rj : c["rays"])
            {
                Real3 p = real3(rj["p"]);
                Real3 d = real3(rj["d"]);
                real_type eps = rj["eps"].get<double>();
                auto dist = inv.calc_intersections(p, d, SurfaceState::off);
                json hits = json::array();
                for (real_type t : dist)
                {
                    if (!(t < no_intersection()) || std::isnan(t))
                        continue;
                    Real3 q = along(p, d, t);
                    Real3 pb = along(p, d, t - eps);
                    Real3 pa = along(p, d, t + eps);
                    json h{{"t", jd(t)},
                           {"q", jarr(q)},
                           {"pb", jarr(pb)},
                           {"sb", static_cast<int>(inv.calc_sense(pb))},
                           {"pa", jarr(pa)},
                           {"sa", static_cast<int>(inv.calc_sense(pa))},
                           {"n", jarr(inv.calc_normal(q))},
                           {"on", intersections(inv, q, d, SurfaceState::on)}};
                    json on2 = json::array();
                    for (auto const& dj : rj["d2"])
                    {
                        Real3 d2 = real3(dj);
                        on2.push_back({{"d", jarr(d2)},
                                       {"dist", intersections(inv, q, d2, SurfaceState::on)}});
                    }
                    h["on2"] = on2;
                    hits.push_back(h);
                }
                jr.push_back({{"p", jarr(p)},
                              {"d", jarr(d)},
                              {"eps", eps},
                              {"dist", jarr(dist)},
                              {"hits", hits}});
            }
            rec["rays"] = jr;

            // ---- translations (SurfaceTranslator through apply_transform)
            json jt = json::array();
            for (auto const& tj : c["tr"])
            {
                Real3 t = real3(tj);
                Translation tr{t};
                VariantSurface out = apply_transform(VariantTransform{tr}, VariantSurface{inv});
                json e{{"t", jarr(t)}};
                if (auto const* oi = std::get_if<Involute>(&out))
                {
                    e["data"] = jarr(oi->data());
                    e["sign_back"] = oi->sign() == Chirality::right ? "cw" : "ccw";
                    json sn = json::array(), qs = json::array();
                    for (auto const& pj : c["pts"])
                    {
                        Real3 q = tr.transform_up(real3(pj));
                        qs.push_back(jarr(q));
                        sn.push_back(static_cast<int>(oi->calc_sense(q)));
                    }
                    e["sn"] = sn;
                    e["q"] = qs;
                    e["inv"] = true;
                }
                else
                {
                    e["inv"] = false;
                }
                jt.push_back(e);
            }
            rec["tr"] = jt;
        }
        catch (std::exception const& ex)
        {
            w(json{{"e", "Abort"}, {"id", c["id"]}, {"what", std::string(ex.what()).substr(0, 300)}});
            continue;
        }
        w(rec);
    }
    w(json{{"e", "Close"}});
    w.flush();
    std::cout << w.count() << std::endl;
    return 0;
}
