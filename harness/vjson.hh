// Shared helpers for the verification harness executables: ndjson output, rank
// abstraction of doubles, bit tokens, seeded RNG.  (DESIGN.md section 2.1/2.2)
#pragma once

#include <algorithm>
#include <cmath>
#include <cstdint>
#include <cstdio>
#include <cstring>
#include <fstream>
#include <iostream>
#include <map>
#include <random>
#include <string>
#include <vector>
#include <nlohmann/json.hpp>

namespace verif
{
using json = nlohmann::json;

//! One JSON object per line
class NdjsonWriter
{
  public:
    explicit NdjsonWriter(std::string const& path) : out_(path)
    {
        if (!out_)
        {
            std::cerr << "cannot open " << path << std::endl;
            std::exit(3);
        }
    }
    void operator()(json const& j)
    {
        out_ << j.dump() << '\n';
        ++count_;
    }
    void flush() { out_.flush(); }
    std::size_t count() const { return count_; }

  private:
    std::ofstream out_;
    std::size_t count_{0};
};

//! Order-preserving rank abstraction: collect doubles, then map each to its dense rank
class Ranker
{
  public:
    void add(double v) { vals_.push_back(v == 0 ? 0.0 : v); }
    void finalize()
    {
        std::sort(vals_.begin(), vals_.end());
        vals_.erase(std::unique(vals_.begin(), vals_.end()), vals_.end());
    }
    int operator()(double v) const
    {
        if (v == 0)
            v = 0.0;
        auto it = std::lower_bound(vals_.begin(), vals_.end(), v);
        if (it == vals_.end() || *it != v)
        {
            std::cerr << "Ranker: value not registered " << v << std::endl;
            std::exit(3);
        }
        return static_cast<int>(it - vals_.begin());
    }
    std::size_t size() const { return vals_.size(); }

  private:
    std::vector<double> vals_;
};

inline std::uint64_t bits_of(double v)
{
    std::uint64_t u;
    std::memcpy(&u, &v, sizeof(u));
    return u;
}

//! 64-bit pattern as four 16-bit limbs (most significant first); TLC ints are 32-bit
inline json limbs64(std::uint64_t u)
{
    return json::array({static_cast<int>((u >> 48) & 0xffff),
                        static_cast<int>((u >> 32) & 0xffff),
                        static_cast<int>((u >> 16) & 0xffff),
                        static_cast<int>(u & 0xffff)});
}
inline json limbs32(std::uint32_t u)
{
    return json::array(
        {static_cast<int>((u >> 16) & 0xffff), static_cast<int>(u & 0xffff)});
}

//! Intern arbitrary 64-bit patterns as small integer tokens (equality only)
class Interner
{
  public:
    int operator()(std::uint64_t u)
    {
        auto it = map_.find(u);
        if (it != map_.end())
            return it->second;
        int t = static_cast<int>(map_.size()) + 1;
        map_.emplace(u, t);
        return t;
    }
    int operator()(double v) { return (*this)(bits_of(v)); }
    std::size_t size() const { return map_.size(); }

  private:
    std::map<std::uint64_t, int> map_;
};

}  // namespace verif
