// vlooping (X02): looping-track bookkeeping of the along-step propagation.
//
// Runs the REAL stepping loop (Stepper<host>) on the hand-built EM problem of vproblem.hh and
// logs, per track and per step, what the bookkeeping contract talks about: the looping counter
// before / after the along-step, the post-step action label, the step length against the
// pre-step limit, the energy against the particle's looping threshold, alive / killed and the
// local energy deposit.  It computes NO expected values: spec/LoopingTrace.tla decides.
//
//   mode "real"      real AlongStepUniformMscAction (uniform field, DormandPrince) with the
//                    run's FieldDriverOptions, or AlongStepGeneralLinearAction when field = 0;
//                    the propagator's `looping` flag is NOT observable here (TLC infers it).
//   mode "scripted"  the public AlongStep<NoMsc, ScriptedFactory, MeanELoss> template, i.e. the
//                    real PropagationApplier / ElossApplier / TrackUpdater over a propagator that
//                    moves linearly and returns the Propagation{distance, boundary, looping} of a
//                    TLC-generated script (spec/LoopingMC.tla); the energy level of every step is
//                    set through ParticleTrackView::energy before the step.
//
// The SimParams looping thresholds and the FieldDriverOptions come from the run description
// through the public inputs (SimParams::Input::looping, UniformFieldParams::options).  The
// problem of vproblem.hh is re-assembled around a fresh ActionRegistry (same processes, new
// PhysicsParams / SimParams / along-step action) because ProblemOptions exposes neither.
//
// usage: vlooping <runs.json> <out.ndjson>
#include <array>
#include <fstream>
#include <map>
#include <set>
#include <sstream>

#include "corecel/io/Logger.hh"
#include "corecel/sys/ActionInterface.hh"
#include "corecel/sys/ActionRegistry.hh"
#include "celeritas/field/FieldDriverOptions.hh"
#include "celeritas/field/LinearPropagator.hh"
#include "celeritas/global/ActionInterface.hh"
#include "celeritas/global/ActionLauncher.hh"
#include "celeritas/global/CoreState.hh"
#include "celeritas/global/CoreTrackView.hh"
#include "celeritas/global/Stepper.hh"
#include "celeritas/global/TrackExecutor.hh"
#include "celeritas/global/alongstep/AlongStep.hh"
#include "celeritas/global/alongstep/detail/AlongStepNeutralImpl.hh"
#include "celeritas/global/alongstep/detail/MeanELoss.hh"
#include "celeritas/phys/Primary.hh"

#include "vjson.hh"
#include "vproblem.hh"

using namespace celeritas;
using verif::json;
using CoreStateHost = CoreState<MemSpace::host>;
using CoreStateDevice = CoreState<MemSpace::device>;

namespace
{
//---------------------------------------------------------------------------//
char const* status_name(TrackStatus s)
{
    switch (s)
    {
        case TrackStatus::inactive: return "inactive";
        case TrackStatus::initializing: return "initializing";
        case TrackStatus::alive: return "alive";
        case TrackStatus::errored: return "errored";
        case TrackStatus::killed: return "killed";
        default: return "?";
    }
}

std::string safe_label(ActionRegistry const& reg, ActionId id)
{
    if (!id)
        return "none";
    if (!(id < reg.num_actions()))
        return "INVALID-ACTION-ID";
    return std::string(reg.id_to_label(id));
}

struct ScriptStep
{
    char kind{'F'};  // L loop, F full, S short, B boundary (= full step that is expected to hit)
    double energy{0};  // MeV, set before the step (0 = leave)
};

struct Shared
{
    ActionRegistry const* actions{nullptr};
    bool scripted{false};
    bool canloop{false};  // scripted: tracks_can_loop() of the scripted propagator
    char tail{'L'};  // scripted: kind once the script is exhausted
    std::map<int, std::vector<ScriptStep>> scripts;  // by event id (primaries only)
    bool has_field{false};
    Real3 bdir{0, 0, 0};  // unit field direction
    double dint{0};  // delta_intersection (chord bracket)
    double epsrel{0};  // epsilon_rel_max of the driver (arc-length oracle bracket)
    double field_T{0};
    int poke_every{0};
    std::vector<int> poke_vals;
    long poke_count{0};
    double quantum{1};
    // per slot
    std::vector<json> pend;
    std::vector<bool> have;
    std::vector<Real3> pos0, dir0;
    std::vector<json> out;  // finished Step records
    long nsteps{0};

    long long Q(double v) const { return std::llround(v / quantum); }
};

ScriptStep script_step(Shared const& sh, int ev, int tid, int index)
{
    ScriptStep def;
    def.kind = sh.tail;
    if (tid != 0)
        return def;
    auto it = sh.scripts.find(ev);
    if (it == sh.scripts.end() || it->second.empty())
        return def;
    auto const& v = it->second;
    if (index < int(v.size()))
        return v[index];
    def.energy = v.back().energy;
    return def;
}

//---------------------------------------------------------------------------//
// Scripted propagator: moves linearly (the geometry state stays consistent) and reports the
// scripted outcome.  What it returned is logged as an ARGUMENT of PropagationApplier ("ret").
struct ScriptedPropagator
{
    GeoTrackView geo;
    ScriptStep st;
    bool canloop;
    json* rec;

    Propagation operator()(real_type step)
    {
        LinearPropagator lin{geo};
        Propagation r;
        switch (st.kind)
        {
            case 'L':
                r = lin(0.5 * step);
                if (!r.boundary)
                    r.looping = true;
                break;
            case 'S': r = lin(0.25 * step); break;
            default: r = lin(step); break;
        }
        if (rec)
        {
            (*rec)["ret"] = {{"loop", r.looping}, {"bnd", r.boundary}, {"rL_dist", r.distance}};
            (*rec)["scr"] = std::string(1, st.kind);
        }
        return r;
    }
    bool tracks_can_loop() const { return canloop; }
};

struct ScriptedFactory
{
    Shared* sh;
    ScriptedPropagator operator()(CoreTrackView const& track) const
    {
        auto sim = track.make_sim_view();
        size_type slot = track.track_slot_id().get();
        ScriptStep st = script_step(*sh, int(sim.event_id().get()), int(sim.track_id().get()), int(sim.num_steps()));
        return ScriptedPropagator{track.make_geo_view(), st, sh->canloop, sh->have[slot] ? &sh->pend[slot] : nullptr};
    }
};

class ScriptedAlongAction final : public CoreStepActionInterface, public ConcreteAction
{
  public:
    ScriptedAlongAction(ActionId id, Shared* sh)
        : ConcreteAction(id, "along-step-scripted", "scripted propagation outcomes through the real appliers"), sh_(sh)
    {
    }
    StepActionOrder order() const final { return StepActionOrder::along; }
    void step(CoreParams const& params, CoreStateHost& state) const final
    {
        auto execute = make_along_step_track_executor(
            params.ptr<MemSpace::native>(),
            state.ptr(),
            this->action_id(),
            AlongStep{celeritas::detail::NoMsc{}, ScriptedFactory{sh_}, celeritas::detail::MeanELoss{}});
        return launch_action(*this, params, state, execute);
    }
    void step(CoreParams const&, CoreStateDevice&) const final {}

  private:
    Shared* sh_;
};

//---------------------------------------------------------------------------//
class Observer final : public CoreStepActionInterface, public ConcreteAction
{
  public:
    Observer(ActionId id, StepActionOrder order, std::string name, Shared* sh)
        : ConcreteAction(id, "verif-x02-" + name, "verification observer"), order_(order), name_(name), sh_(sh)
    {
    }
    StepActionOrder order() const final { return order_; }
    void step(CoreParams const& params, CoreStateHost& state) const final;
    void step(CoreParams const&, CoreStateDevice&) const final {}

  private:
    StepActionOrder order_;
    std::string name_;
    Shared* sh_;
};

constexpr double ARC_TOL = 20.0;  // 10 x 1.76 (largest normalised residual over 200 000 steps, 5 seeds) rounded up

double dot3(Real3 const& a, Real3 const& b)
{
    return a[0] * b[0] + a[1] * b[1] + a[2] * b[2];
}

void Observer::step(CoreParams const& params, CoreStateHost& state) const
{
    Shared& sh = *sh_;
    for (size_type i = 0; i < state.size(); ++i)
    {
        CoreTrackView track(params.host_ref(), state.ref(), TrackSlotId{i});
        auto sim = track.make_sim_view();
        if (name_ == "pre")
        {
            sh.have[i] = false;
            if (sim.status() != TrackStatus::alive)
                continue;
            auto par = track.make_particle_view();
            auto geo = track.make_geo_view();
            auto phys = track.make_physics_view();
            json j;
            j["e"] = "Step";
            j["slot"] = int(i) + 1;
            j["ev"] = int(sim.event_id().get());
            j["tid"] = int(sim.track_id().get());
            j["pt"] = int(par.particle_id().get());
            j["ns0"] = int(sim.num_steps());
            auto& nls = state.ref().sim.num_looping_steps;
            bool has_ctr = !nls.empty();
            j["hasctr"] = has_ctr;
            j["cprev"] = has_ctr ? int(sim.num_looping_steps()) : 0;
            bool poked = false;
            if (sh.scripted)
            {
                ScriptStep st = script_step(sh, int(sim.event_id().get()), int(sim.track_id().get()), int(sim.num_steps()));
                if (st.energy > 0 && sim.track_id().get() == 0 && !par.is_stopped())
                    par.energy(units::MevEnergy{st.energy});
            }
            else if (has_ctr && sh.poke_every > 0 && sim.num_steps() > 0 && !sh.poke_vals.empty())
            {
                if (sh.poke_count % sh.poke_every == 0)
                {
                    nls[TrackSlotId{i}] = size_type(sh.poke_vals[(sh.poke_count / sh.poke_every) % sh.poke_vals.size()]);
                    poked = true;
                }
                ++sh.poke_count;
            }
            j["poked"] = poked;
            j["c0"] = has_ctr ? int(sim.num_looping_steps()) : 0;
            j["rE_E0"] = par.energy().value();
            j["Eq0"] = sh.Q(par.energy().value());
            j["atrest"] = phys.has_at_rest();
            j["stable"] = par.is_stable();
            j["act0"] = safe_label(*sh.actions, sim.post_step_action());
            j["rL_lim"] = sim.step_length();
            j["lim0"] = (sim.step_length() == 0);
            j["onb0"] = geo.is_on_boundary();
            sh.pos0[i] = geo.pos();
            sh.dir0[i] = geo.dir();
            sh.pend[i] = std::move(j);
            sh.have[i] = true;
        }
        else if (name_ == "along")
        {
            if (!sh.have[i])
                continue;
            json& j = sh.pend[i];
            auto par = track.make_particle_view();
            auto geo = track.make_geo_view();
            auto pstep = track.make_physics_step_view();
            j["st1"] = status_name(sim.status());
            j["c1"] = j["hasctr"].get<bool>() ? int(sim.num_looping_steps()) : 0;
            j["act1"] = safe_label(*sh.actions, sim.post_step_action());
            j["rL_len"] = sim.step_length();
            j["rE_E1"] = par.energy().value();
            j["Eq1"] = sh.Q(par.energy().value());
            j["stopped1"] = par.is_stopped();
            j["depq1"] = sh.Q(pstep.energy_deposition().value());
            j["onb1"] = geo.is_on_boundary();
            j["ns1"] = int(sim.num_steps());
            Real3 p1 = geo.pos();
            Real3 const& p0 = sh.pos0[i];
            Real3 d{p1[0] - p0[0], p1[1] - p0[1], p1[2] - p0[2]};
            double chord = std::sqrt(dot3(d, d));
            // bracket: rounding, plus the driver's intercept tolerance when a field moved the track
            j["rL_chordlo"] = chord * (1 - 1e-9) - 1e-12 - sh.dint * 1.001;
            // ORACLE (independent of the steppers): in a uniform field the velocity component along
            // the field is conserved, so the arc length travelled is (displacement . b) / (u0 . b).
            // Usable when the direction is not nearly perpendicular to b and the end point is the
            // integrated state (not moved onto a boundary).  The integrator keeps p.b exactly but lets
            // |p| drift within its error control (per radian turned), and dx/ds = p/|p|: the bracket is
            // ARC_TOL x epsilon_rel_max x (1 + K s) x s, K = curvature (ARC_TOL = 10 x the largest
            // normalised residual measured on the unchanged tree, see tools/checks/x02.py), plus
            // rounding.  Where that bracket exceeds s/4 (many turns at loose tolerance) the oracle says
            // nothing and is not used.
            bool charged = par.charge() != zero_quantity();
            double upar = dot3(sh.dir0[i], sh.bdir);
            bool arc = sh.has_field && charged && !geo.is_on_boundary() && std::fabs(upar) >= 0.05
                       && !j["lim0"].get<bool>();
            if (arc)
            {
                double s = dot3(d, sh.bdir) / upar;
                double e0 = j["rE_E0"].get<double>(), m = par.mass().value();
                double pmev = std::sqrt(e0 * (e0 + 2 * m));
                double K = 2.99792458 * sh.field_T / pmev;  // 1/cm
                double len = sim.step_length();
                double scale = std::max({1.0, std::fabs(p0[0]), std::fabs(p0[1]), std::fabs(p0[2])});
                double tol = ARC_TOL * sh.epsrel * (1 + K * len) * len + 1e-11 * scale / std::fabs(upar) + 1e-10;
                if (tol > 0.25 * len)
                    arc = false;
                else
                {
                    j["rL_arclo"] = s - tol;
                    j["rL_archi"] = s + tol;
                }
                char buf[64];
                std::snprintf(buf, sizeof(buf), "%.17g", s);
                j["dbg_arc"] = buf;
                j["dbg_arcnorm"] = std::fabs(s - len) / (sh.epsrel * (1 + K * len) * len);
            }
            j["arc"] = arc;
            {
                char buf[128];
                std::snprintf(buf, sizeof(buf), "lim=%.17g len=%.17g E0=%.17g", j["rL_lim"].get<double>(),
                              sim.step_length(), j["rE_E0"].get<double>());
                j["dbg"] = buf;  // raw doubles for humans (not used by the spec)
            }
        }
        else if (name_ == "post")
        {
            if (!sh.have[i])
                continue;
            json& j = sh.pend[i];
            auto par = track.make_particle_view();
            auto pstep = track.make_physics_step_view();
            j["st2"] = status_name(sim.status());
            j["c2"] = j["hasctr"].get<bool>() ? int(sim.num_looping_steps()) : 0;
            j["act2"] = safe_label(*sh.actions, sim.post_step_action());
            j["rE_E2"] = par.energy().value();
            j["Eq2"] = sh.Q(par.energy().value());
            j["depq2"] = sh.Q(pstep.energy_deposition().value());
            int nsec = 0;
            for (auto const& s : pstep.secondaries())
                if (s)
                    ++nsec;
            j["nsec"] = nsec;
            sh.out.push_back(std::move(j));
            sh.have[i] = false;
            ++sh.nsteps;
        }
    }
}

//---------------------------------------------------------------------------//
// Replace every "rE_*", "rL_*" raw double by its dense rank within its class (per run)
void rank_and_write(std::vector<json>& events, verif::NdjsonWriter& w)
{
    std::map<std::string, verif::Ranker> rk;
    std::function<void(json&, bool)> walk = [&](json& j, bool collect) {
        if (j.is_object())
        {
            for (auto it = j.begin(); it != j.end(); ++it)
            {
                std::string const& k = it.key();
                if (k.size() > 3 && k[0] == 'r' && k[2] == '_' && (k[1] == 'E' || k[1] == 'L') && it.value().is_number())
                {
                    std::string cls(1, k[1]);
                    if (collect)
                        rk[cls].add(it.value().get<double>());
                    else
                        it.value() = rk[cls](it.value().get<double>());
                }
                else
                    walk(it.value(), collect);
            }
        }
        else if (j.is_array())
            for (auto& e : j)
                walk(e, collect);
    };
    for (auto& e : events)
        walk(e, true);
    for (auto& kv : rk)
        kv.second.finalize();
    for (auto& e : events)
    {
        walk(e, false);
        w(e);
    }
}

template<class T>
T get(json const& j, char const* k, T def)
{
    return j.contains(k) ? j[k].get<T>() : def;
}

//---------------------------------------------------------------------------//
void do_run(json const& run, verif::NdjsonWriter& w)
{
    std::vector<json> events;
    Shared sh;
    int const rid = get<int>(run, "id", 0);
    std::string const mode = get<std::string>(run, "mode", "real");
    sh.scripted = (mode == "scripted");
    double const field_T = sh.scripted ? 0.0 : get<double>(run, "field", 0.0);
    double const fixed_step = get<double>(run, "fixed_step", 0.0);
    size_type const nslots = get<int>(run, "slots", 4);
    long const maxiters = get<int>(run, "maxiters", 2000);
    try
    {
        // ---- primaries
        std::vector<Primary> prims;
        int maxev = 0;
        double total = 0;
        double const me = 0.5109989461;
        for (auto const& pj : run["prims"])
        {
            Primary p;
            p.particle_id = ParticleId(pj["pt"].get<int>());
            p.energy = units::MevEnergy{pj["E"].get<double>()};
            p.position = {pj["pos"][0].get<double>(), pj["pos"][1].get<double>(), pj["pos"][2].get<double>()};
            p.direction = make_unit_vector(
                Real3{pj["dir"][0].get<double>(), pj["dir"][1].get<double>(), pj["dir"][2].get<double>()});
            p.time = 0;
            p.event_id = EventId(pj["ev"].get<int>());
            maxev = std::max(maxev, pj["ev"].get<int>());
            total += p.energy.value() + (pj["pt"].get<int>() == 2 ? 2 * me : 0);
            prims.push_back(p);
        }
        // scripted runs poke energies up to emax per step
        double const emax_poke = get<double>(run, "emax", 0.0);
        total = std::max(total, double(prims.size()) * (emax_poke + 2 * me));
        sh.quantum = total / double(1 << 28);

        // ---- the hand-built problem, re-assembled around a fresh registry
        verif::ProblemOptions po;
        po.max_events = maxev + 1;
        po.rng_seed = get<unsigned>(run, "rng_seed", 2024u);
        po.table_scale = get<double>(run, "table_scale", 1.0);
        po.dedx = get<double>(run, "dedx", 2.0);
        po.init_capacity = 8192;
        verif::Problem prob;
        verif::build_problem(prob, po);
        auto reg = std::make_shared<ActionRegistry>();
        {
            PhysicsParams::Input pin;
            pin.particles = prob.particles;
            pin.materials = prob.mats;
            for (auto pid : range(ProcessId{prob.physics->num_processes()}))
                pin.processes.push_back(prob.physics->process(pid));
            pin.action_registry = reg.get();
            pin.options.secondary_stack_factor = 3.0;
            pin.options.fixed_step_limiter = fixed_step;
            prob.physics = std::make_shared<PhysicsParams>(std::move(pin));
        }
        json thr_in = json::array();
        {
            SimParams::Input si;
            si.particles = prob.particles;
            if (run.contains("thr"))
                for (auto const& t : run["thr"])
                {
                    LoopingThreshold lt;
                    lt.max_subthreshold_steps = t["mss"].get<int>();
                    lt.max_steps = t["ms"].get<int>();
                    lt.threshold_energy = units::MevEnergy{t["E"].get<double>()};
                    si.looping.insert({PDGNumber{t["pdg"].get<int>()}, lt});
                    thr_in.push_back({{"pdg", t["pdg"].get<int>()}, {"mss", t["mss"].get<int>()},
                                      {"ms", t["ms"].get<int>()}, {"rE_thr", t["E"].get<double>()}});
                }
            try
            {
                prob.sim = std::make_shared<SimParams>(si);
            }
            catch (std::exception const& ex)
            {
                // the public constructor refused its input: a legitimate outcome (decided by the spec)
                events.push_back({{"e", "Refused"}, {"run", rid}, {"thr_in", thr_in}, {"rE_zero", 0.0},
                                  {"what", std::string(ex.what()).substr(0, 300)}});
                rank_and_write(events, w);
                return;
            }
        }
        json drv = json::object();
        if (sh.scripted)
        {
            sh.canloop = get<bool>(run, "canloop", true);
            sh.tail = get<std::string>(run, "tail", "L").at(0);
            for (auto const& sj : run["scripts"])
            {
                std::vector<ScriptStep> v;
                for (auto const& st : sj["steps"])
                {
                    ScriptStep s;
                    s.kind = st[0].get<std::string>().at(0);
                    s.energy = st[1].get<double>();
                    v.push_back(s);
                }
                sh.scripts[sj["ev"].get<int>()] = std::move(v);
            }
            reg->insert(std::make_shared<ScriptedAlongAction>(reg->next_id(), &sh));
        }
        else if (field_T != 0)
        {
            UniformFieldParams fp;
            Real3 bd{1, 1, 1};
            if (run.contains("bdir"))
                bd = {run["bdir"][0].get<double>(), run["bdir"][1].get<double>(), run["bdir"][2].get<double>()};
            bd = make_unit_vector(bd);
            sh.bdir = bd;
            sh.has_field = true;
            double const b = field_T * units::tesla;
            fp.field = {b * bd[0], b * bd[1], b * bd[2]};
            if (run.contains("drv"))
            {
                json const& d = run["drv"];
                fp.options.max_substeps = get<int>(d, "max_substeps", fp.options.max_substeps);
                fp.options.minimum_step = get<double>(d, "minimum_step", fp.options.minimum_step);
                fp.options.delta_chord = get<double>(d, "delta_chord", fp.options.delta_chord);
                fp.options.delta_intersection = get<double>(d, "delta_intersection", fp.options.delta_intersection);
                fp.options.epsilon_rel_max = get<double>(d, "epsilon_rel_max", fp.options.epsilon_rel_max);
                fp.options.epsilon_step = get<double>(d, "epsilon_step", fp.options.epsilon_step);
            }
            sh.dint = fp.options.delta_intersection;
            sh.epsrel = fp.options.epsilon_rel_max;
            sh.field_T = field_T;
            drv = {{"max_substeps", int(fp.options.max_substeps)}};
            reg->insert(AlongStepUniformMscAction::from_params(
                reg->next_id(), *prob.mats, *prob.particles, fp, nullptr, false));
        }
        else
        {
            reg->insert(AlongStepGeneralLinearAction::from_params(
                reg->next_id(), *prob.mats, *prob.particles, nullptr, false));
        }
        prob.action_reg = reg;
        prob.inp.physics = prob.physics;
        prob.inp.sim = prob.sim;
        prob.inp.action_reg = reg;
        verif::finalize_problem(prob);
        sh.actions = reg.get();
        reg->insert(std::make_shared<Observer>(reg->next_id(), StepActionOrder::user_pre, "pre", &sh));
        reg->insert(std::make_shared<Observer>(reg->next_id(), StepActionOrder::along, "along", &sh));
        reg->insert(std::make_shared<Observer>(reg->next_id(), StepActionOrder::user_post, "post", &sh));

        if (run.contains("poke"))
        {
            sh.poke_every = get<int>(run["poke"], "every", 0);
            for (auto const& v : run["poke"]["vals"])
                sh.poke_vals.push_back(v.get<int>());
        }

        StepperInput si;
        si.params = prob.core;
        si.stream_id = StreamId{0};
        si.num_track_slots = nslots;
        Stepper<MemSpace::host> stepper(si);
        sh.pend.assign(nslots, json{});
        sh.have.assign(nslots, false);
        sh.pos0.assign(nslots, Real3{0, 0, 0});
        sh.dir0.assign(nslots, Real3{0, 0, 0});

        // ---- Config: the thresholds as READ BACK from the real SimParams, next to the input
        json parts = json::array();
        auto const& simref = prob.sim->host_ref();
        for (auto pid : range(ParticleId{prob.particles->size()}))
        {
            auto pv = prob.particles->get(pid);
            json pj = {{"pt", int(pid.get())},
                       {"pdg", prob.particles->id_to_pdg(pid).get()},
                       {"q", int(pv.charge().value())},
                       {"anti", pv.is_antiparticle()},
                       {"twomq", sh.Q(2 * pv.mass().value())}};
            if (!simref.looping.empty())
            {
                LoopingThreshold const& lt = simref.looping[pid];
                pj["thr"] = {{"mss", int(lt.max_subthreshold_steps)}, {"ms", int(lt.max_steps)},
                             {"rE_thr", lt.threshold_energy.value()}};
            }
            parts.push_back(pj);
        }
        bool const charged_can_loop = sh.scripted ? sh.canloop : (field_T != 0);
        events.push_back({{"e", "Config"}, {"run", rid}, {"mode", mode}, {"canloop", charged_can_loop},
                          {"field", field_T}, {"drv", drv}, {"parts", parts}, {"thr_in", thr_in},
                          {"rE_d250", 250.0}, {"rE_zero", 0.0}, {"rL_zero", 0.0},
                          {"rL_bump", sh.has_field ? 0.1 * sh.dint : 0.0}, {"nslots", int(nslots)},
                          {"quantum", sh.quantum}, {"fixed_step", fixed_step}});

        long iters = 0;
        StepperResult r = stepper(make_span(prims));
        ++iters;
        while (r && iters < maxiters)
        {
            r = stepper();
            ++iters;
        }
        for (auto& j : sh.out)
            events.push_back(std::move(j));
        events.push_back({{"e", "End"}, {"run", rid}, {"iters", int(iters)}, {"unfinished", bool(r)}});
    }
    catch (std::exception const& ex)
    {
        for (auto& j : sh.out)
            events.push_back(std::move(j));
        events.push_back({{"e", "Abort"}, {"run", rid}, {"what", std::string(ex.what()).substr(0, 400)}});
    }
    rank_and_write(events, w);
}
}  // namespace

int main(int argc, char** argv)
{
    if (argc < 3)
    {
        std::cerr << "usage: vlooping <runs.json> <out.ndjson>\n";
        return 2;
    }
    json runs;
    {
        std::ifstream in(argv[1]);
        if (!in)
        {
            std::cerr << "cannot read " << argv[1] << "\n";
            return 2;
        }
        in >> runs;
    }
    verif::NdjsonWriter w(argv[2]);
    long n = 0;
    for (auto const& run : runs["runs"])
    {
        do_run(run, w);
        w.flush();
        ++n;
    }
    w(json{{"e", "Close"}});
    std::cerr << "vlooping: " << n << " runs, " << w.count() << " records\n";
    return 0;
}
