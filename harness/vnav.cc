// C03 / C11 harness: drive the REAL OrangeTrackView and log one ndjson record per call with
// its arguments, returned values and the observable state afterwards.  Expectations live in
// spec/LatticeNav.tla (lattice worlds) and in tools/oracle_geo.py + spec/RayNav*.tla
// (bundled fixtures); this program computes NO expected values.  What it does compute:
//   * the geometry, built from a lattice-world JSON through the PUBLIC orangeinp API
//     (Shape<Box>, Transformed, AnyObjects/AllObjects/NegatedObject, UnitProto, InputBuilder;
//     rectangular arrays through a harness-defined ProtoInterface that emits a RectArrayInput),
//   * protocol legality (DESIGN.md 4.4 table) from the values the navigator itself reported,
//     so that every CELER_EXPECT of OrangeTrackView holds (an illegal call is a harness fault),
//   * projections: integer coordinates with an "exactly integral" flag, ceil/floor of the
//     squared safety, volume names per level from the construction order.
//
//   vnav explore <world.json> <depth> <maxcalls> <out.ndjson>
//        depth-first enumeration of all protocol-respecting op sequences (<= depth ops after
//        Init) from every cell centre x 6 directions, with snapshots of the navigator state
//        and memoisation on the protocol state
//        operations: Find, FindMax(m), MoveI(x), MoveB, Cross, SetDir(d), Safety, SafetyMax(r) = find_safety(r),
//        MoveTo(p) = move_internal(position), Copy(d) = a second track slot initialised from the track through
//        DetailedInitializer, which then continues as the track.  An operation that leads to an already discovered
//        protocol state is followed by one look-ahead call ("la": find_next_step / cross_boundary) on the navigator
//        state IT produced; every second start re-uses a slot left in a turned-back-on-a-boundary state.
//   vnav walk <world.json> <seed> <nwalks> <len> <out.ndjson>     seeded random protocol walks
//   vnav both <world.json> <depth> <maxcalls> <seed> <nwalks> <len> <out.ndjson>   explore, then walk
//   vnav replay <world.json> <script.json> <out.ndjson>           one given op sequence
//   vnav dump <curved.json> <out.org.json>       build a curved world (worlds.py) through orangeinp, write .org.json
//   vnav fixture <file.org.json> <seed> <nrays> <nwalks> <npoints> <nturns> <out.ndjson> [focus.json [plan.json]]
//        straight rays, random protocol walks, safety probes and boundary-turn histories (a fresh
//        direction on every boundary reached before cross_boundary) on a geometry file (raw doubles;
//        tools/oracle_geo.py adds the environment facts before TLC sees the trace)
#include <array>
#include <cmath>
#include <cstdlib>
#include <exception>
#include <fstream>
#include <functional>
#include <map>
#include <memory>
#include <random>
#include <set>
#include <sstream>
#include <string>
#include <vector>

#include "corecel/cont/Array.hh"
#include "corecel/data/CollectionBuilder.hh"
#include "corecel/io/JsonPimpl.hh"
#include "corecel/io/Label.hh"
#include "corecel/math/ArrayUtils.hh"
#include "corecel/sys/ThreadId.hh"
#include "geocel/Types.hh"
#include "orange/BoundingBoxUtils.hh"
#include "orange/OrangeData.hh"
#include "orange/OrangeInput.hh"
#include "orange/OrangeInputIO.json.hh"
#include "orange/OrangeParams.hh"
#include "orange/OrangeTrackView.hh"
#include "orange/OrangeTypes.hh"
#include "orange/orangeinp/CsgObject.hh"
#include "orange/orangeinp/InputBuilder.hh"
#include "orange/orangeinp/ProtoInterface.hh"
#include "orange/orangeinp/Shape.hh"
#include "orange/orangeinp/Transformed.hh"
#include "orange/orangeinp/UnitProto.hh"
#include "orange/orangeinp/detail/ProtoBuilder.hh"
#include "orange/transform/Transformation.hh"
#include "orange/transform/Translation.hh"

#include "vjson.hh"

using namespace celeritas;
using verif::json;
namespace oi = celeritas::orangeinp;

namespace
{
//---------------------------------------------------------------------------//
using I3 = std::array<int, 3>;
using SPConstObject = std::shared_ptr<oi::ObjectInterface const>;
using SPConstProto = std::shared_ptr<oi::ProtoInterface const>;

verif::NdjsonWriter* g_out = nullptr;

void on_terminate()
{
    if (g_out)
    {
        (*g_out)(json{{"e", "Abort"}, {"what", "std::terminate"}});
        g_out->flush();
    }
    std::_Exit(0);
}

I3 get_i3(json const& j)
{
    return I3{j.at(0).get<int>(), j.at(1).get<int>(), j.at(2).get<int>()};
}
json jv(I3 const& v)
{
    return json::array({v[0], v[1], v[2]});
}
Real3 to_real(I3 const& v)
{
    return Real3{real_type(v[0]), real_type(v[1]), real_type(v[2])};
}
I3 add(I3 const& p, I3 const& d, int t)
{
    return I3{p[0] + t * d[0], p[1] + t * d[1], p[2] + t * d[2]};
}
I3 neg(I3 const& d)
{
    return I3{-d[0], -d[1], -d[2]};
}
bool all_odd(I3 const& p)
{
    return (p[0] & 1) && (p[1] & 1) && (p[2] & 1);
}
I3 const dirs6[6] = {{1, 0, 0}, {-1, 0, 0}, {0, 1, 0}, {0, -1, 0}, {0, 0, 1}, {0, 0, -1}};

//---------------------------------------------------------------------------//
// Rectangular array as a proto-universe (the public proto API has none): emits RectArrayInput
class ArrayProto final : public oi::ProtoInterface
{
  public:
    struct Cell
    {
        SPConstProto fill;
        Real3 trans;
    };

    ArrayProto(std::string label, Array<std::vector<double>, 3> grid, std::vector<Cell> cells)
        : label_(std::move(label)), grid_(std::move(grid)), cells_(std::move(cells))
    {
        Real3 hw, c;
        for (int a = 0; a < 3; ++a)
        {
            hw[a] = (grid_[a].back() - grid_[a].front()) / 2;
            c[a] = (grid_[a].back() + grid_[a].front()) / 2;
        }
        SPConstObject box = std::make_shared<oi::BoxShape>(label_ + ":box", oi::Box{hw});
        interior_ = std::make_shared<oi::Transformed>(box, Translation{c});
    }
    std::string_view label() const final { return label_; }
    SPConstObject interior() const final { return interior_; }
    VecProto daughters() const final
    {
        VecProto r;
        for (auto const& c : cells_)
            r.push_back(c.fill.get());
        return r;
    }
    void build(ProtoBuilder& pb) const final
    {
        RectArrayInput inp;
        inp.label = Label{label_};
        inp.grid = grid_;
        std::size_t ny = grid_[1].size() - 1, nz = grid_[2].size() - 1;
        BoundingBoxBumper<real_type> bump{pb.tol()};
        for (std::size_t idx = 0; idx < cells_.size(); ++idx)
        {
            auto const& c = cells_[idx];
            DaughterInput d;
            d.universe_id = pb.find_universe_id(c.fill.get());
            d.transform = Translation{c.trans};
            std::size_t k = idx % nz, j = (idx / nz) % ny, i = idx / (nz * ny);
            Real3 lo{grid_[0][i] - c.trans[0], grid_[1][j] - c.trans[1], grid_[2][k] - c.trans[2]};
            Real3 hi{grid_[0][i + 1] - c.trans[0], grid_[1][j + 1] - c.trans[1], grid_[2][k + 1] - c.trans[2]};
            pb.expand_bbox(d.universe_id, bump(BBox{lo, hi}));
            inp.daughters.push_back(std::move(d));
        }
        pb.insert(std::move(inp));
    }
    void output(JsonPimpl* j) const final { j->obj = json{{"_type", "verif-array"}, {"label", label_}}; }

  private:
    std::string label_;
    Array<std::vector<double>, 3> grid_;
    std::vector<Cell> cells_;
    SPConstObject interior_;
};

//---------------------------------------------------------------------------//
// Geometry + name tables
struct Geo
{
    std::shared_ptr<OrangeParams> params;
    std::vector<std::vector<std::string>> local_names;  // [UniverseId][LocalVolumeId] -> world name
    std::string name;
    I3 lo{}, hi{};  // global box (lattice worlds)
    bool lattice{false};
};

SPConstObject make_box(std::string label, I3 const& lo, I3 const& hi)
{
    Real3 hw, c;
    bool centred = true;
    for (int a = 0; a < 3; ++a)
    {
        hw[a] = real_type(hi[a] - lo[a]) / 2;
        c[a] = real_type(hi[a] + lo[a]) / 2;
        centred = centred && c[a] == 0;
    }
    SPConstObject box = std::make_shared<oi::BoxShape>(std::move(label), oi::Box{hw});
    if (!centred)
        box = std::make_shared<oi::Transformed>(box, Translation{c});
    return box;
}

SPConstObject make_region(json const& vol)
{
    std::string const name = vol.at("name").get<std::string>();
    std::vector<SPConstObject> terms;
    int ti = 0;
    for (auto const& t : vol.at("terms"))
    {
        std::string tn = name + ":t" + std::to_string(ti++);
        auto const& b = t.at("box");
        SPConstObject box = make_box(tn + ":b", get_i3(b.at(0)), get_i3(b.at(1)));
        auto const& cuts = t.at("cut");
        if (cuts.empty())
        {
            terms.push_back(box);
            continue;
        }
        std::vector<SPConstObject> cutobjs;
        int ci = 0;
        for (auto const& c : cuts)
            cutobjs.push_back(make_box(tn + ":c" + std::to_string(ci++), get_i3(c.at(0)), get_i3(c.at(1))));
        std::vector<SPConstObject> parts{box};
        if (cutobjs.size() > 1 && (ti % 2 == 0))
        {
            // box & ~(c1 | c2 | ...): a negated join (exercises De Morgan in the builder)
            parts.push_back(std::make_shared<oi::NegatedObject>(
                tn + ":nc", std::make_shared<oi::AnyObjects>(tn + ":cs", std::move(cutobjs))));
        }
        else
        {
            for (auto& c : cutobjs)
                parts.push_back(std::make_shared<oi::NegatedObject>(c));
        }
        terms.push_back(std::make_shared<oi::AllObjects>(std::move(tn), std::move(parts)));
    }
    if (terms.size() == 1)
        return terms[0];
    return std::make_shared<oi::AnyObjects>(name + ":any", std::move(terms));
}

VariantTransform make_transform(json const& f)
{
    I3 t = get_i3(f.at("t"));
    SquareMatrixReal3 m;
    bool ident = true;
    for (int r = 0; r < 3; ++r)
        for (int c = 0; c < 3; ++c)
        {
            m[r][c] = f.at("m").at(r).at(c).get<int>();
            ident = ident && (m[r][c] == (r == c ? 1 : 0));
        }
    if (ident)
        return Translation{to_real(t)};
    return Transformation{m, to_real(t)};
}

Geo build_world(json const& w)
{
    auto const& us = w.at("universes");
    std::size_t const n = us.size();
    std::vector<SPConstProto> protos(n);
    std::vector<std::vector<std::string>> names(n);  // by world universe index
    for (std::size_t r = 0; r < n; ++r)
    {
        std::size_t ui = n - 1 - r;  // daughters have larger indices: build them first
        auto const& u = us[ui];
        std::string const uname = u.at("name").get<std::string>();
        if (u.at("kind") == "unit")
        {
            oi::UnitProto::Input inp;
            inp.label = uname;
            inp.boundary.interior = make_box(uname + ":bnd", get_i3(u.at("lo")), get_i3(u.at("hi")));
            inp.boundary.zorder = ZOrder::media;
            std::vector<std::string> dn, mn;
            unsigned int mat = 0;
            for (auto const& v : u.at("vols"))
            {
                int du = v.at("u").get<int>();
                std::string vname = v.at("name").get<std::string>();
                if (du >= 0)
                {
                    oi::UnitProto::DaughterInput d;
                    d.fill = protos.at(du);
                    d.transform = make_transform(v);
                    inp.daughters.push_back(std::move(d));
                    dn.push_back(vname);
                }
                else
                {
                    oi::UnitProto::MaterialInput m;
                    m.interior = make_region(v);
                    m.fill = GeoMaterialId{mat++};
                    m.label = Label{vname};
                    inp.materials.push_back(std::move(m));
                    mn.push_back(vname);
                }
            }
            names[ui].push_back("[EXTERIOR]");
            for (auto& s : dn)
                names[ui].push_back(s);
            for (auto& s : mn)
                names[ui].push_back(s);
            std::string bg = u.at("bg").get<std::string>();
            if (!bg.empty())
            {
                inp.background.fill = GeoMaterialId{mat++};
                inp.background.label = Label{bg};
                names[ui].push_back(bg);
            }
            protos[ui] = std::make_shared<oi::UnitProto>(std::move(inp));
        }
        else
        {
            Array<std::vector<double>, 3> grid;
            for (int a = 0; a < 3; ++a)
                for (auto const& g : u.at("grid").at(a))
                    grid[a].push_back(g.get<int>());
            std::vector<ArrayProto::Cell> cells;
            for (auto const& c : u.at("cells"))
            {
                cells.push_back({protos.at(c.at("u").get<int>()), to_real(get_i3(c.at("t")))});
                names[ui].push_back(c.at("name").get<std::string>());
            }
            protos[ui] = std::make_shared<ArrayProto>(uname, std::move(grid), std::move(cells));
        }
    }
    oi::InputBuilder build_input{[] {
        oi::InputBuilder::Options opts;
        opts.tol = Tolerance<>::from_default();
        return opts;
    }()};
    OrangeInput input = build_input(*protos[0]);
    Geo g;
    g.name = w.at("name").get<std::string>();
    g.lattice = true;
    g.lo = get_i3(us[0].at("lo"));
    g.hi = get_i3(us[0].at("hi"));
    g.params = std::make_shared<OrangeParams>(std::move(input));
    // name tables by UniverseId (universe labels are unique in a world)
    std::map<std::string, std::size_t> by_name;
    for (std::size_t ui = 0; ui < n; ++ui)
        by_name[us[ui].at("name").get<std::string>()] = ui;
    g.local_names.resize(g.params->num_universes());
    for (auto uid : range(UniverseId{g.params->num_universes()}))
    {
        auto it = by_name.find(g.params->id_to_label(uid).name);
        if (it == by_name.end())
            throw std::runtime_error("universe label not in world: " + g.params->id_to_label(uid).name);
        g.local_names[uid.get()] = names[it->second];
    }
    return g;
}

//---------------------------------------------------------------------------//
// CURVED WORLDS (tools/worlds.py curved_world): boxes placed with ARBITRARY rotations/reflections and
// translations, holding spheres and cylinders (and possibly a further rotated box universe).  Built
// through orangeinp and written out as an ordinary .org.json, so that the fixture pipeline (and the
// independent oracle, which reads the JSON) treats them like any other geometry file.
//   universe = {"name", "half":[a,b,c], "solids":[{"name","shape":"sphere","c":[..],"r":r} |
//               {"name","shape":"cyl","c":[..],"r":r,"hh":h,"axis":0|1|2} |
//               {"name","shape":"cone","c","r0","r1","hh","R": 3x3 | null} | {"name","shape":"ell","c","radii","R"}],
//               "daughters":[{"u": index, "R":[[..]x3], "t":[..]}], "bg": name}
VariantTransform make_general_transform(json const& f)
{
    SquareMatrixReal3 m;
    Real3 t;
    for (int r = 0; r < 3; ++r)
    {
        t[r] = f.at("t").at(r).get<double>();
        for (int c = 0; c < 3; ++c)
            m[r][c] = f.at("R").at(r).at(c).get<double>();
    }
    return Transformation{m, t};
}

OrangeInput build_curved(json const& w)
{
    auto const& us = w.at("universes");
    std::size_t const n = us.size();
    std::vector<SPConstProto> protos(n);
    for (std::size_t r = 0; r < n; ++r)
    {
        std::size_t ui = n - 1 - r;
        auto const& u = us[ui];
        std::string const uname = u.at("name").get<std::string>();
        oi::UnitProto::Input inp;
        inp.label = uname;
        Real3 hw;
        for (int k = 0; k < 3; ++k)
            hw[k] = u.at("half").at(k).get<double>();
        inp.boundary.interior = std::make_shared<oi::BoxShape>(uname + ":bnd", oi::Box{hw});
        inp.boundary.zorder = ZOrder::media;
        unsigned int mat = 0;
        for (auto const& d : u.at("daughters"))
        {
            oi::UnitProto::DaughterInput di;
            di.fill = protos.at(d.at("u").get<std::size_t>());
            di.transform = make_general_transform(d);
            inp.daughters.push_back(std::move(di));
        }
        for (auto const& sd : u.at("solids"))
        {
            std::string sname = sd.at("name").get<std::string>();
            Real3 c;
            for (int k = 0; k < 3; ++k)
                c[k] = sd.at("c").at(k).get<double>();
            SPConstObject obj;
            if (sd.at("shape") == "sphere")
            {
                obj = std::make_shared<oi::SphereShape>(sname + ":s", oi::Sphere{sd.at("r").get<double>()});
                obj = std::make_shared<oi::Transformed>(obj, Translation{c});
            }
            else if (sd.at("shape") == "cone" || sd.at("shape") == "ell")
            {
                if (sd.at("shape") == "cone")
                    obj = std::make_shared<oi::ConeShape>(
                        sname + ":k",
                        oi::Cone{Real2{sd.at("r0").get<double>(), sd.at("r1").get<double>()}, sd.at("hh").get<double>()});
                else
                    obj = std::make_shared<oi::EllipsoidShape>(
                        sname + ":e",
                        oi::Ellipsoid{Real3{sd.at("radii").at(0).get<double>(), sd.at("radii").at(1).get<double>(),
                                            sd.at("radii").at(2).get<double>()}});
                if (sd.at("R").is_null())
                    obj = std::make_shared<oi::Transformed>(obj, Translation{c});
                else
                {
                    SquareMatrixReal3 m;
                    for (int r2 = 0; r2 < 3; ++r2)
                        for (int c2 = 0; c2 < 3; ++c2)
                            m[r2][c2] = sd.at("R").at(r2).at(c2).get<double>();
                    obj = std::make_shared<oi::Transformed>(obj, Transformation{m, c});
                }
            }
            else
            {
                obj = std::make_shared<oi::CylinderShape>(
                    sname + ":c", oi::Cylinder{sd.at("r").get<double>(), sd.at("hh").get<double>()});
                int ax = sd.at("axis").get<int>();
                // the shape's axis is z: a cyclic permutation of the axes turns it to x or y
                SquareMatrixReal3 m{Real3{1, 0, 0}, Real3{0, 1, 0}, Real3{0, 0, 1}};
                if (ax == 0)
                    m = SquareMatrixReal3{Real3{0, 0, 1}, Real3{1, 0, 0}, Real3{0, 1, 0}};
                else if (ax == 1)
                    m = SquareMatrixReal3{Real3{0, 1, 0}, Real3{0, 0, 1}, Real3{1, 0, 0}};
                obj = std::make_shared<oi::Transformed>(obj, Transformation{m, c});
            }
            oi::UnitProto::MaterialInput mi;
            mi.interior = obj;
            mi.fill = GeoMaterialId{mat++};
            mi.label = Label{sname};
            inp.materials.push_back(std::move(mi));
        }
        inp.background.fill = GeoMaterialId{mat++};
        inp.background.label = Label{u.at("bg").get<std::string>()};
        protos[ui] = std::make_shared<oi::UnitProto>(std::move(inp));
    }
    oi::InputBuilder build_input{[] {
        oi::InputBuilder::Options opts;
        opts.tol = Tolerance<>::from_default();
        return opts;
    }()};
    return build_input(*protos[0]);
}

//---------------------------------------------------------------------------//
// The real navigator + projection of what it reports
struct Snapshot
{
    LevelId level, surface_level, next_level;
    LocalSurfaceId surf, next_surf;
    Sense sense, next_sense;
    BoundaryResult boundary;
    real_type next_step;
    std::vector<Real3> pos, dir;
    std::vector<LocalVolumeId> vol;
    std::vector<UniverseId> universe;
};

class Nav
{
  public:
    explicit Nav(Geo const& g) : geo_(g), host_(g.params->host_ref())
    {
        // slot 0 is the track; slot 1 receives copies (DetailedInitializer) and keeps whatever an
        // earlier copy left behind
        resize(&state_val_, host_, 2);
        state_ref_ = state_val_;
        view_ = std::make_unique<OrangeTrackView>(host_, state_ref_, TrackSlotId{0});
        view1_ = std::make_unique<OrangeTrackView>(host_, state_ref_, TrackSlotId{1});
        depth_ = host_.scalars.max_depth;
    }
    OrangeTrackView& view() { return *view_; }
    OrangeTrackView& view1() { return *view1_; }
    Geo const& geo() const { return geo_; }

    // Initialise slot 1 from the track with a (new) direction through the public DetailedInitializer,
    // then let the copy BE the track (its state is moved to slot 0, level by level, by this harness)
    void copy_track(Real3 const& dir)
    {
        *view1_ = OrangeTrackView::DetailedInitializer{*view_, dir};
        this->restore(this->save(1), 0);
    }

    Snapshot save(size_type slot = 0) const
    {
        TrackSlotId t{slot};
        Snapshot s;
        s.level = state_ref_.level[t];
        s.surface_level = state_ref_.surface_level[t];
        s.next_level = state_ref_.next_level[t];
        s.surf = state_ref_.surf[t];
        s.next_surf = state_ref_.next_surf[t];
        s.sense = state_ref_.sense[t];
        s.next_sense = state_ref_.next_sense[t];
        s.boundary = state_ref_.boundary[t];
        s.next_step = state_ref_.next_step[t];
        for (size_type i = slot * depth_; i < (slot + 1) * depth_; ++i)
        {
            s.pos.push_back(state_ref_.pos[OpaqueId<Real3>{i}]);
            s.dir.push_back(state_ref_.dir[OpaqueId<Real3>{i}]);
            s.vol.push_back(state_ref_.vol[OpaqueId<LocalVolumeId>{i}]);
            s.universe.push_back(state_ref_.universe[OpaqueId<UniverseId>{i}]);
        }
        return s;
    }
    void restore(Snapshot const& s, size_type slot = 0)
    {
        TrackSlotId t{slot};
        state_ref_.level[t] = s.level;
        state_ref_.surface_level[t] = s.surface_level;
        state_ref_.next_level[t] = s.next_level;
        state_ref_.surf[t] = s.surf;
        state_ref_.next_surf[t] = s.next_surf;
        state_ref_.sense[t] = s.sense;
        state_ref_.next_sense[t] = s.next_sense;
        state_ref_.boundary[t] = s.boundary;
        state_ref_.next_step[t] = s.next_step;
        for (size_type i = 0; i < depth_; ++i)
        {
            size_type k = slot * depth_ + i;
            state_ref_.pos[OpaqueId<Real3>{k}] = s.pos[i];
            state_ref_.dir[OpaqueId<Real3>{k}] = s.dir[i];
            state_ref_.vol[OpaqueId<LocalVolumeId>{k}] = s.vol[i];
            state_ref_.universe[OpaqueId<UniverseId>{k}] = s.universe[i];
        }
    }

    // Observable state after a call (public accessors; level data for the Impl layer)
    void observe(json& r) const
    {
        auto const& v = *view_;
        bool out = v.is_outside();
        r["out"] = out;
        r["onb"] = v.is_on_boundary();
        VolumeId vid = v.volume_id();
        std::string label;
        if (vid)
        {
            Label const& l = geo_.params->volumes().at(vid);
            label = geo_.lattice ? l.name : to_string(l);
        }
        r["vol"] = label;
        TrackSlotId t{0};
        int lev = int(state_ref_.level[t].unchecked_get());
        json path = json::array();
        if (geo_.lattice && !out)
        {
            for (int i = 0; i <= lev; ++i)
            {
                auto u = state_ref_.universe[OpaqueId<UniverseId>{size_type(i)}];
                auto lv = state_ref_.vol[OpaqueId<LocalVolumeId>{size_type(i)}];
                if (u < geo_.local_names.size() && lv < geo_.local_names[u.get()].size())
                    path.push_back(geo_.local_names[u.get()][lv.get()]);
                else
                    path.push_back("?");
            }
        }
        r["path"] = path;
        r["lev"] = lev;
        auto sl = state_ref_.surface_level[t];
        r["slev"] = sl ? int(sl.unchecked_get()) : -1;
        r["bres"] = state_ref_.boundary[t] == BoundaryResult::exiting ? "exiting" : "reentrant";
        if (geo_.lattice)
        {
            bool integral = true;
            json jp = json::array(), jd = json::array();
            for (int a = 0; a < 3; ++a)
            {
                double p = v.pos()[a], d = v.dir()[a];
                if (!(std::fabs(p) < 1e6) || p != std::nearbyint(p) || d != std::nearbyint(d))
                    integral = false;
                jp.push_back(std::fabs(p) < 1e6 ? int(std::nearbyint(p)) : 0);
                jd.push_back(std::fabs(d) < 1e6 ? int(std::nearbyint(d)) : 0);
            }
            r["rpos"] = jp;
            r["rdir"] = jd;
            r["pint"] = integral;
        }
        else
        {
            r["rpos"] = json::array({v.pos()[0], v.pos()[1], v.pos()[2]});
            r["rdir"] = json::array({v.dir()[0], v.dir()[1], v.dir()[2]});
        }
    }

  private:
    Geo const& geo_;
    HostCRef<OrangeParamsData> const& host_;
    HostVal<OrangeStateData> state_val_;
    HostRef<OrangeStateData> state_ref_;
    std::unique_ptr<OrangeTrackView> view_;
    std::unique_ptr<OrangeTrackView> view1_;
    size_type depth_{1};
};

//---------------------------------------------------------------------------//
// Protocol state, from the navigator's own answers (DESIGN.md 4.4 table)
struct Proto
{
    char ph{'I'};  // I, m (B-), p (B+), O (outside / failed: terminal)
    I3 pos{}, dir{}, ref{};
    bool has{false}, nb{false};
    int nd{0};
    int ls{-1};
    // a reported safety below 2 admits no MoveTo target, so it does not distinguish protocol states
    auto key() const { return std::make_tuple(ph, pos, dir, ref, has, nb, nd, ls >= 4 ? ls : -1); }
};

struct Op
{
    std::string e;
    int m{0}, x{0};
    I3 v{};  // dir (SetDir/Init), target (MoveTo)
    I3 p{};  // Init position
};

bool legal(Proto const& a, Op const& o)
{
    bool ib = a.ph == 'I' || a.ph == 'p';
    if (o.e == "Find")
        return ib;
    if (o.e == "FindMax")
        return ib && o.m > 0;
    if (o.e == "MoveI")
        return ib && a.has && o.x > 0 && o.x <= a.nd && (o.x < a.nd || !a.nb)
               && (all_odd(add(a.pos, a.dir, o.x)) || std::getenv("VNAV_ALLOW_ONPLANE"));  // (probe only)
    if (o.e == "MoveB")
        return ib && a.has && a.nb;
    if (o.e == "Cross")
        return a.ph == 'm';
    if (o.e == "SetDir")
        return a.ph == 'I' || ((a.ph == 'm' || a.ph == 'p') && (o.v == a.ref || o.v == neg(a.ref)));
    if (o.e == "Safety")
        return a.ph == 'I';
    if (o.e == "SafetyMax")
        return a.ph == 'I' && o.m > 0;
    if (o.e == "Copy")
        // a copy taken on a boundary keeps the direction (the boundary state is copied verbatim)
        return a.ph == 'I' || ((a.ph == 'm' || a.ph == 'p') && o.v == a.dir);
    if (o.e == "MoveTo")
    {
        if (a.ph != 'I' || a.ls < 0 || !all_odd(o.v) || o.v == a.pos)
            return false;
        long d2 = 0;
        for (int k = 0; k < 3; ++k)
            d2 += long(o.v[k] - a.pos[k]) * (o.v[k] - a.pos[k]);
        return d2 <= a.ls;
    }
    return false;
}

// Execute one op on the real navigator; returns the log record (without k/j) and updates a
json execute(Nav& nav, Proto& a, Op const& o)
{
    auto& g = nav.view();
    json r;
    r["e"] = o.e;
    if (o.e == "Init")
    {
        r["pos"] = jv(o.p);
        r["dir"] = jv(o.v);
        g = GeoTrackInitializer{to_real(o.p), to_real(o.v)};
        r["failed"] = g.failed();
        a = Proto{};
        a.pos = o.p;
        a.dir = o.v;
        if (g.failed())
            a.ph = 'O';
    }
    else if (o.e == "Find" || o.e == "FindMax")
    {
        Propagation p;
        if (o.e == "Find")
            p = g.find_next_step();
        else
        {
            r["m"] = o.m;
            p = g.find_next_step(real_type(o.m));
        }
        bool ok = std::isfinite(p.distance) && p.distance == std::nearbyint(p.distance) && p.distance >= 0
                  && p.distance < 1e6;
        r["dok"] = ok;
        r["d"] = ok ? int(p.distance) : -1;
        r["b"] = p.boundary;
        if (ok)
        {
            a.has = p.distance != 0;
            a.nd = int(p.distance);
            a.nb = p.boundary;
        }
        else
        {
            a.ph = 'O';  // cannot continue legally with a non-lattice distance
        }
    }
    else if (o.e == "MoveI")
    {
        r["x"] = o.x;
        g.move_internal(real_type(o.x));
        a.pos = add(a.pos, a.dir, o.x);
        a.ph = 'I';
        a.ref = I3{};
        a.ls = -1;
        a.nd -= o.x;
        a.has = a.nd != 0;
        a.nb = a.nb && a.has;
    }
    else if (o.e == "MoveB")
    {
        g.move_to_boundary();
        a.pos = add(a.pos, a.dir, a.nd);
        a.ph = 'm';
        a.ref = a.dir;
        a.has = false;
        a.nd = 0;
        a.nb = false;
        a.ls = -1;
    }
    else if (o.e == "Cross")
    {
        g.cross_boundary();
        r["failed"] = g.failed();
        a.ph = 'p';
        a.ref = a.dir;
        if (g.failed() || g.is_outside())
            a.ph = 'O';
    }
    else if (o.e == "SetDir")
    {
        r["dir"] = jv(o.v);
        g.set_dir(to_real(o.v));
        a.dir = o.v;
        a.has = false;
        a.nd = 0;
        a.nb = false;
    }
    else if (o.e == "Safety")
    {
        real_type s = g.find_safety();
        double s2 = double(s) * double(s);
        bool big = !(s2 < 1e9);
        r["sneg"] = s < 0;
        r["s2c"] = big ? 1000000000 : int(std::ceil(s2));
        r["s2f"] = big ? 1000000000 : int(std::floor(s2));
        a.ls = (s < 0) ? -1 : (big ? 1000000000 : int(std::floor(s2)));
    }
    else if (o.e == "SafetyMax")
    {
        // the radius-limited overload (the one the multiple-scattering code calls)
        r["m"] = o.m;
        real_type s = g.find_safety(real_type(o.m));
        double s2 = double(s) * double(s);
        bool big = !(s2 < 1e9);
        r["sneg"] = s < 0;
        r["s2c"] = big ? 1000000000 : int(std::ceil(s2));
        r["s2f"] = big ? 1000000000 : int(std::floor(s2));
    }
    else if (o.e == "Copy")
    {
        // a second track initialised from this one with a (new) direction, which then IS the track
        r["dir"] = jv(o.v);
        nav.copy_track(to_real(o.v));
        a.dir = o.v;
        a.has = false;
        a.nd = 0;
        a.nb = false;
    }
    else if (o.e == "MoveTo")
    {
        r["p"] = jv(o.v);
        g.move_internal(to_real(o.v));
        a.pos = o.v;
        a.has = false;
        a.nd = 0;
        a.nb = false;
        a.ls = -1;
    }
    else
    {
        throw std::runtime_error("unknown op " + o.e);
    }
    nav.observe(r);
    if (nav.geo().lattice)
    {
        // a history ends when the navigator's own answers lead out of the closed world box
        for (int k = 0; k < 3; ++k)
            if (a.pos[k] < nav.geo().lo[k] || a.pos[k] > nav.geo().hi[k])
                a.ph = 'O';
    }
    return r;
}

// Legal operations in a protocol state (the exploration alphabet)
std::vector<Op> alphabet(Proto const& a, bool rich)
{
    std::vector<Op> ops;
    auto push = [&](Op o) {
        if (legal(a, o))
            ops.push_back(std::move(o));
    };
    if (a.ph == 'O')
        return ops;
    push(Op{"MoveB"});
    push(Op{"Cross"});
    push(Op{"Find"});
    if (rich || !a.has)
    {
        // exhaustive mode: limited searches only from states without a cached step
        Op o{"FindMax"};
        o.m = 2;
        push(o);
        o.m = 3;
        push(o);
        if (rich)
        {
            o.m = 1;
            push(o);
            o.m = 5;
            push(o);
        }
    }
    for (int x = 1; x <= 7; ++x)
    {
        Op o{"MoveI"};
        o.x = x;
        push(o);
    }
    push(Op{"Safety"});
    {
        // radius-limited safety: a radius below, at and above typical distances
        Op o{"SafetyMax"};
        o.m = 2;
        push(o);
        o.m = 6;
        push(o);
        if (rich)
        {
            o.m = 1;
            push(o);
            o.m = 4;
            push(o);
        }
    }
    {
        // copies: same direction always; in the interior also the reversal and one turn
        Op o{"Copy"};
        o.v = a.dir;
        push(o);
        if (a.ph == 'I')
        {
            o.v = neg(a.dir);
            push(o);
            o.v = I3{a.dir[1], a.dir[2], a.dir[0]};
            push(o);
            if (rich)
                for (auto const& d : dirs6)
                {
                    o.v = d;
                    push(o);
                }
        }
    }
    for (auto const& d : dirs6)
    {
        // exhaustive mode, interior: all five other directions from a fresh state, only the
        // reversal once a step is cached (every (pos, dir) is a start state anyway)
        if (!rich && a.ph == 'I' && (d == a.dir || (a.has && d != neg(a.dir))))
            continue;
        Op o{"SetDir"};
        o.v = d;
        push(o);
    }
    if (a.ph == 'I' && a.ls >= 4)
    {
        // targets inside the reported safety sphere: axis neighbours, a face diagonal, a far one
        std::vector<I3> offs = {{2, 0, 0}, {0, -2, 0}, {0, 0, 2}, {-2, 2, 0}, {2, 0, -2}, {-4, 0, 0}, {2, 2, 2}};
        int n = 0;
        for (auto const& f : offs)
        {
            Op o{"MoveTo"};
            o.v = I3{a.pos[0] + f[0], a.pos[1] + f[1], a.pos[2] + f[2]};
            if (legal(a, o) && (rich || n < 2))
            {
                ops.push_back(o);
                ++n;
            }
        }
    }
    return ops;
}

//---------------------------------------------------------------------------//
// Exhaustive exploration of the protocol-state graph.  Pass 1 (not logged) is a breadth-first
// search over protocol states from ALL start cells x directions: every discovered state keeps a
// snapshot of the navigator taken on its (shortest) discovery path.  Pass 2 (logged) walks the
// BFS spanning tree depth-first and executes EVERY legal operation of every discovered state
// exactly once, so the log's stack depth is the BFS depth and the number of calls is the number
// of edges.  States at BFS depth >= `depth` are not expanded (depth <= 0: unbounded).
struct Explorer
{
    struct Node
    {
        Proto a;
        Snapshot snap;
        int depth{0};
        std::vector<std::pair<std::size_t, std::size_t>> kids;  // (op index in alphabet, node)
    };
    Nav& nav;
    verif::NdjsonWriter& out;
    int depth;
    long maxcalls;
    long calls{0};
    long lookaheads{0};
    bool truncated{false};
    std::vector<Node> nodes;

    // operations that rewrite navigator state wholesale (or leave flags behind) get the look-ahead call
    static bool lookahead(Op const& o)
    {
        return o.e == "SetDir" || o.e == "Copy" || o.e == "MoveTo" || o.e == "Cross" || o.e == "MoveI"
               || o.e == "MoveB";
    }
    std::map<decltype(Proto{}.key()), std::size_t> index;
    std::vector<std::pair<Op, std::size_t>> roots;

    void discover(Geo const& geo)
    {
        std::vector<std::size_t> queue;
        for (int x = geo.lo[0] + 1; x < geo.hi[0]; x += 2)
            for (int y = geo.lo[1] + 1; y < geo.hi[1]; y += 2)
                for (int z = geo.lo[2] + 1; z < geo.hi[2]; z += 2)
                    for (auto const& d : dirs6)
                    {
                        Proto a;
                        Op o{"Init"};
                        o.p = I3{x, y, z};
                        o.v = d;
                        execute(nav, a, o);
                        auto it = index.find(a.key());
                        if (it == index.end())
                        {
                            index[a.key()] = nodes.size();
                            nodes.push_back(Node{a, nav.save(), 0, {}});
                            queue.push_back(nodes.size() - 1);
                            roots.push_back({o, nodes.size() - 1});
                        }
                    }
        for (std::size_t qi = 0; qi < queue.size(); ++qi)
        {
            std::size_t ni = queue[qi];
            if ((depth > 0 && nodes[ni].depth >= depth) || nodes[ni].a.ph == 'O')
                continue;
            auto ops = alphabet(nodes[ni].a, false);
            for (std::size_t oi = 0; oi < ops.size(); ++oi)
            {
                nav.restore(nodes[ni].snap);
                Proto b = nodes[ni].a;
                execute(nav, b, ops[oi]);
                if (index.find(b.key()) == index.end())
                {
                    if (static_cast<long>(nodes.size()) * 8 > maxcalls)
                    {
                        truncated = true;
                        continue;
                    }
                    index[b.key()] = nodes.size();
                    nodes.push_back(Node{b, nav.save(), nodes[ni].depth + 1, {}});
                    nodes[ni].kids.push_back({oi, nodes.size() - 1});
                    queue.push_back(nodes.size() - 1);
                }
            }
        }
    }

    void visit(std::size_t ni, int k)
    {
        Node const& nd = nodes[ni];
        if ((depth > 0 && nd.depth >= depth) || nd.a.ph == 'O')
            return;
        auto ops = alphabet(nd.a, false);
        std::size_t kid = 0;
        for (std::size_t oi = 0; oi < ops.size(); ++oi)
        {
            if (calls >= maxcalls)
            {
                truncated = true;
                return;
            }
            nav.restore(nd.snap);
            Proto b = nd.a;
            json r = execute(nav, b, ops[oi]);
            r["k"] = k;
            r["j"] = k + 1;
            r["n"] = k;  // length of the history (operations since Init)
            out(r);
            ++calls;
            if (kid < nd.kids.size() && nd.kids[kid].first == oi)
            {
                visit(nd.kids[kid].second, k + 1);
                ++kid;
            }
            else if (b.ph != 'O' && lookahead(ops[oi]))
            {
                // The operation led to a protocol state that was discovered along another path: its
                // successors are executed from THAT path's navigator state.  What this operation left
                // behind in the navigator beyond the protocol state (level-local positions and directions,
                // boundary flag, surface sense, cached step) is exposed by one more call right here.
                Op probe{b.ph == 'm' ? "Cross" : "Find"};
                if (legal(b, probe))
                {
                    json r2 = execute(nav, b, probe);
                    r2["k"] = k + 1;
                    r2["j"] = k + 1;
                    r2["n"] = k + 1;
                    r2["la"] = true;
                    out(r2);
                    ++calls;
                    ++lookaheads;
                }
            }
        }
    }
};

int run_explore(Geo const& geo, int depth, long maxcalls, verif::NdjsonWriter& out)
{
    Nav nav(geo);
    Explorer ex{nav, out, depth, maxcalls};
    ex.discover(geo);
    int maxdepth = 0;
    for (auto const& n : ex.nodes)
        maxdepth = std::max(maxdepth, n.depth);
    // A track slot is re-used: before every second start the slot is left in the state of an earlier track that
    // had turned back on a boundary (re-entrant flag set, surface state present), taken from the discovery pass;
    // the initialisation must wipe it, which the look-ahead search right after the Init exposes.
    Snapshot const* turned = nullptr;
    for (auto const& n : ex.nodes)
        if ((n.a.ph == 'm' || n.a.ph == 'p') && n.a.dir == neg(n.a.ref))
        {
            turned = &n.snap;
            break;
        }
    std::size_t ri = 0;
    for (auto const& rt : ex.roots)
    {
        if (turned && (ri++ % 2 == 0))
            nav.restore(*turned);
        Proto a;
        json r = execute(nav, a, rt.first);
        r["k"] = 0;
        r["j"] = 1;
        r["n"] = 0;
        out(r);
        if (a.ph != 'O')
        {
            Proto b = a;
            json r2 = execute(nav, b, Op{"Find"});
            r2["k"] = 1;
            r2["j"] = 2;
            r2["n"] = 1;
            r2["la"] = true;
            out(r2);
            ++ex.calls;
            ++ex.lookaheads;
        }
        ex.visit(rt.second, 1);
    }
    std::cerr << "explore " << geo.name << ": inits " << ex.roots.size() << " calls " << ex.calls << " states "
              << ex.nodes.size() << " bfsdepth " << maxdepth << (ex.truncated ? " TRUNCATED" : "") << std::endl;
    out(json{{"e", "Stats"}, {"inits", ex.roots.size()}, {"calls", ex.calls}, {"lookaheads", ex.lookaheads}, {"states", ex.nodes.size()},
             {"bfsdepth", maxdepth}, {"truncated", ex.truncated}, {"bound", depth}});
    return 0;
}

int run_walk(Geo const& geo, unsigned long seed, int nwalks, int len, verif::NdjsonWriter& out)
{
    Nav nav(geo);
    std::mt19937_64 rng(seed);
    auto pick = [&rng](int n) { return int(rng() % static_cast<unsigned long>(n)); };
    long calls = 0;
    for (int wi = 0; wi < nwalks; ++wi)
    {
        Proto a;
        Op o{"Init"};
        for (int k = 0; k < 3; ++k)
            o.p[k] = geo.lo[k] + 1 + 2 * pick((geo.hi[k] - geo.lo[k]) / 2);
        o.v = dirs6[pick(6)];
        json r = execute(nav, a, o);
        r["k"] = 0;
        r["j"] = 1;
        r["n"] = 0;
        out(r);
        int mode = pick(4);  // 0: straight ray; otherwise random protocol walk
        for (int step = 0; step < len && a.ph != 'O'; ++step)
        {
            std::vector<Op> ops = alphabet(a, true);
            if (ops.empty())
                break;
            Op chosen;
            if (mode == 0)
            {
                // straight ray: Find, MoveB, Cross
                std::string want = (a.ph == 'm') ? "Cross" : (a.has && a.nb ? "MoveB" : "Find");
                for (auto const& c : ops)
                    if (c.e == want)
                        chosen = c;
            }
            else
            {
                // weighted: progress operations are favoured so that walks reach boundaries
                std::vector<int> w;
                for (auto const& c : ops)
                {
                    int wt = 2;
                    if (c.e == "MoveB" || c.e == "Cross")
                        wt = 12;
                    else if (c.e == "Find")
                        wt = a.has ? 1 : 8;
                    else if (c.e == "FindMax")
                        wt = a.has ? 1 : 2;
                    else if (c.e == "SetDir")
                        wt = (a.ph == 'I') ? 1 : 5;
                    else if (c.e == "MoveI")
                        wt = 2;
                    else if (c.e == "Safety")
                        wt = a.ls < 0 ? 3 : 0;
                    else if (c.e == "SafetyMax")
                        wt = 1;
                    else if (c.e == "Copy")
                        wt = (a.ph == 'I') ? 1 : 4;
                    else if (c.e == "MoveTo")
                        wt = 2;
                    w.push_back(wt);
                }
                int tot = 0;
                for (int x : w)
                    tot += x;
                if (tot == 0)
                    break;
                int t = pick(tot);
                std::size_t i = 0;
                while (t >= w[i])
                {
                    t -= w[i];
                    ++i;
                }
                chosen = ops[i];
            }
            if (chosen.e.empty())
                break;
            json rr = execute(nav, a, chosen);
            rr["k"] = 1;
            rr["j"] = 1;
            rr["n"] = step + 1;
            out(rr);
            ++calls;
        }
    }
    std::cerr << "walk " << geo.name << ": walks " << nwalks << " calls " << calls << std::endl;
    return 0;
}

int run_replay(Geo const& geo, json const& script, verif::NdjsonWriter& out)
{
    Nav nav(geo);
    Proto a;
    a.ph = 'O';
    bool started = false;
    int nops = 0;
    for (auto const& s : script)
    {
        Op o;
        o.e = s.at("e").get<std::string>();
        if (o.e == "Init")
        {
            o.p = get_i3(s.at("pos"));
            o.v = get_i3(s.at("dir"));
        }
        else
        {
            if (s.contains("m"))
                o.m = s.at("m").get<int>();
            if (s.contains("x"))
                o.x = s.at("x").get<int>();
            if (s.contains("dir"))
                o.v = get_i3(s.at("dir"));
            if (s.contains("p"))
                o.v = get_i3(s.at("p"));
            if (!started || !legal(a, o))
            {
                std::cerr << "replay: illegal operation " << s.dump() << std::endl;
                return 4;
            }
        }
        json r = execute(nav, a, o);
        r["k"] = started && o.e != "Init" ? 1 : 0;
        r["j"] = 1;
        r["n"] = nops++;
        out(r);
        started = true;
    }
    return 0;
}

//---------------------------------------------------------------------------//
// FIXTURE MODE: general (non-lattice) geometries.  Raw doubles are logged; tools/navfacts.py
// adds the oracle's environment facts before TLC validates the trace (spec/RayNavTrace.tla).
struct FProto
{
    char ph{'I'};
    bool has{false}, nb{false};
    double nd{0};
};

json jr(Real3 const& v)
{
    return json::array({double(v[0]), double(v[1]), double(v[2])});
}

struct FixtureDriver
{
    Nav& nav;
    verif::NdjsonWriter& out;
    std::mt19937_64 rng;
    Real3 lo, hi;
    long calls{0};
    std::vector<std::pair<Real3, Real3>> focus;  // boxes of small top-level features (from the input)

    double u01() { return std::uniform_real_distribution<double>(0, 1)(rng); }
    Real3 random_dir()
    {
        double cz = 2 * u01() - 1, ph = 2 * 3.14159265358979323846 * u01();
        double sz = std::sqrt(1 - cz * cz);
        return make_unit_vector(Real3{sz * std::cos(ph), sz * std::sin(ph), cz});
    }
    Real3 random_pos()
    {
        Real3 p;
        if (!focus.empty() && u01() < 0.6)
        {
            // inside (or just around) the bounding box of a randomly chosen top-level volume
            auto const& b = focus[rng() % focus.size()];
            for (int k = 0; k < 3; ++k)
            {
                double w = b.second[k] - b.first[k];
                p[k] = b.first[k] - 0.15 * w + 1.3 * w * u01();
                p[k] = std::min(std::max(p[k], lo[k] + 1e-3 * (hi[k] - lo[k])), hi[k] - 1e-3 * (hi[k] - lo[k]));
            }
            return p;
        }
        for (int k = 0; k < 3; ++k)
            p[k] = lo[k] + (hi[k] - lo[k]) * (0.02 + 0.96 * u01());
        return p;
    }
    void observe(json& r)
    {
        nav.observe(r);
        ++calls;
    }
    // returns false if the history cannot continue (failed / outside)
    bool init(Real3 const& p, Real3 const& d, FProto& a, int hid, char const* kind)
    {
        auto& g = nav.view();
        json r{{"e", "Init"}, {"h", hid}, {"kind", kind}, {"pos", jr(p)}, {"dir", jr(d)}};
        g = GeoTrackInitializer{p, d};
        r["failed"] = g.failed();
        observe(r);
        out(r);
        a = FProto{};
        if (g.failed() || g.is_outside())
            a.ph = 'O';
        return a.ph != 'O';
    }
    void find(FProto& a, double m)
    {
        auto& g = nav.view();
        json r{{"e", m > 0 ? "FindMax" : "Find"}};
        Propagation p;
        if (m > 0)
        {
            r["m"] = m;
            p = g.find_next_step(real_type(m));
        }
        else
            p = g.find_next_step();
        bool fin = std::isfinite(p.distance);
        r["d"] = fin ? json(double(p.distance)) : json(nullptr);
        r["b"] = p.boundary;
        observe(r);
        out(r);
        a.has = fin && p.distance != 0;
        a.nd = fin ? double(p.distance) : 0;
        a.nb = p.boundary && fin;
        if (!fin)
            a.ph = 'O';  // no boundary at all: nothing legal can follow
    }
    void move_i(FProto& a, double x)
    {
        json r{{"e", "MoveI"}, {"x", x}};
        nav.view().move_internal(real_type(x));
        observe(r);
        out(r);
        a.ph = 'I';
        a.nd -= x;
        a.has = a.nd != 0;
        a.nb = a.nb && a.has;
    }
    void move_b(FProto& a)
    {
        json r{{"e", "MoveB"}};
        nav.view().move_to_boundary();
        observe(r);
        out(r);
        a.ph = 'm';
        a.has = false;
        a.nb = false;
        a.nd = 0;
    }
    void cross(FProto& a)
    {
        auto& g = nav.view();
        json r{{"e", "Cross"}};
        g.cross_boundary();
        r["failed"] = g.failed();
        observe(r);
        out(r);
        a.ph = (g.failed() || g.is_outside()) ? 'O' : 'p';
    }
    void set_dir(FProto& a, Real3 const& d)
    {
        json r{{"e", "SetDir"}, {"dir", jr(d)}};
        nav.view().set_dir(d);
        observe(r);
        out(r);
        a.has = false;
        a.nb = false;
        a.nd = 0;
    }
    double safety()
    {
        json r{{"e", "Safety"}};
        double s = nav.view().find_safety();
        r["s"] = std::isfinite(s) ? json(s) : json(nullptr);
        observe(r);
        out(r);
        return s;
    }
    // the radius-limited overload (the one the multiple-scattering code calls)
    double safety_max(double m)
    {
        json r{{"e", "SafetyMax"}, {"m", m}};
        double s = nav.view().find_safety(real_type(m));
        r["s"] = std::isfinite(s) ? json(s) : json(nullptr);
        observe(r);
        out(r);
        return s;
    }
    // move_internal(position): legal inside the safety sphere reported at this point
    void move_to(FProto& a, Real3 const& p)
    {
        json r{{"e", "MoveTo"}, {"p", jr(p)}};
        nav.view().move_internal(p);
        observe(r);
        out(r);
        a.ph = 'I';
        a.has = false;
        a.nb = false;
        a.nd = 0;
    }
    // a second track initialised from this one (DetailedInitializer), which then is the track
    void copy(FProto& a, Real3 const& d)
    {
        json r{{"e", "Copy"}, {"dir", jr(d)}};
        nav.copy_track(d);
        observe(r);
        out(r);
        a.has = false;
        a.nb = false;
        a.nd = 0;
    }
    Real3 point_within(Real3 const& c, double radius)
    {
        Real3 u = random_dir();
        double f = radius * std::cbrt(u01());
        return Real3{c[0] + f * u[0], c[1] + f * u[1], c[2] + f * u[2]};
    }

    void ray(int hid)
    {
        FProto a;
        if (!init(random_pos(), random_dir(), a, hid, "ray"))
            return;
        for (int seg = 0; seg < 400 && a.ph != 'O'; ++seg)
        {
            find(a, 0);
            if (!(a.has && a.nb))
                break;
            move_b(a);
            cross(a);
        }
        if (a.ph != 'O')
            out(json{{"e", "Stuck"}});
    }

    void walk(int hid, int len)
    {
        FProto a;
        if (!init(random_pos(), random_dir(), a, hid, "walk"))
            return;
        double du = 0;  // last unlimited distance in this protocol state (0: none)
        double ls = 0;  // safety reported at the current position (0: none)
        for (int step = 0; step < len && a.ph != 'O'; ++step)
        {
            double c = u01();
            if (u01() < 0.06)
            {
                // hand the track over to a copy: any direction in the interior, the same one on a boundary
                copy(a, a.ph == 'I' ? random_dir() : nav.view().dir());
                du = 0;
                continue;
            }
            if (a.ph == 'I' && ls > 0 && u01() < 0.5)
            {
                move_to(a, point_within(nav.view().pos(), 0.95 * ls));
                ls = 0;
                du = 0;
                continue;
            }
            if (a.ph != 'I')
                ls = 0;
            if (a.ph == 'm')
            {
                if (c < 0.45)
                    set_dir(a, random_dir());
                else
                    cross(a);
                du = 0;
            }
            else if (!a.has)
            {
                if (du == 0 && c < 0.8)
                {
                    find(a, 0);
                    du = a.has ? a.nd : -1;
                }
                else if (du > 0 && c < 0.5)
                {
                    // limited search right after the unlimited one: truncated or not
                    double f = (c < 0.25) ? 0.1 + 0.8 * u01() : 1.1 + u01();
                    find(a, du * f);
                }
                else if (du > 0 && c < 0.7)
                {
                    find(a, 0);
                }
                else
                {
                    set_dir(a, random_dir());
                    du = 0;
                }
            }
            else
            {
                if (c < 0.35 && a.nb)
                {
                    move_b(a);
                    du = 0;
                }
                else if (c < 0.65)
                {
                    double x = (a.nb || c < 0.55) ? a.nd * (0.05 + 0.9 * u01()) : a.nd;
                    move_i(a, x);
                    du = 0;
                    ls = 0;
                }
                else if (c < 0.8)
                {
                    set_dir(a, random_dir());
                    du = 0;
                }
                else if (c < 0.9 && du > 0)
                {
                    find(a, du * (0.1 + 1.8 * u01()));
                }
                else if (a.ph == 'I')
                {
                    double s = safety();
                    ls = (std::isfinite(s) && s > 0) ? s : 0;
                    if (ls > 0 && u01() < 0.5)
                        safety_max(ls * (0.2 + 3 * u01()));
                }
                else
                {
                    find(a, 0);
                    du = a.has ? a.nd : -1;
                }
            }
        }
    }

    // a fresh direction for a track sitting on a boundary it reached along `arr`: generic, turned
    // back, slightly deflected, or nearly perpendicular to the arrival direction (which is nearly
    // tangent to the surface whenever the arrival was nearly normal) with a small component of
    // either sign along it
    Real3 turn_dir(Real3 const& arr)
    {
        double c = u01();
        Real3 r = random_dir();
        Real3 d;
        if (c < 0.3)
            return r;
        if (c < 0.5)
            for (int k = 0; k < 3; ++k)
                d[k] = -arr[k] + 0.3 * r[k];
        else if (c < 0.65)
            for (int k = 0; k < 3; ++k)
                d[k] = arr[k] + 0.3 * r[k];
        else
        {
            double ra = dot_product(r, arr);
            double deltas[] = {0.003, 0.03, 0.2};
            double delta = deltas[rng() % 3] * ((rng() & 1) ? 1 : -1);
            for (int k = 0; k < 3; ++k)
                d[k] = (r[k] - ra * arr[k]);
            d = make_unit_vector(d);
            for (int k = 0; k < 3; ++k)
                d[k] += delta * arr[k];
        }
        return make_unit_vector(d);
    }

    // boundary-turn history: aim at a feature, and on EVERY boundary reached change direction
    // (with probability 3/4) before cross_boundary; sometimes also on the crossed boundary; then
    // carry on, so that the volume after the crossing and the following segments are judged
    void turn(int hid, int maxb)
    {
        FProto a;
        Real3 p = random_pos();
        Real3 d = random_dir();
        if (!focus.empty())
        {
            auto const& b = focus[rng() % focus.size()];
            Real3 t;
            for (int k = 0; k < 3; ++k)
                t[k] = b.first[k] + (b.second[k] - b.first[k]) * (0.15 + 0.7 * u01()) - p[k];
            if (norm(t) > 0)
                d = make_unit_vector(t);
        }
        if (!init(p, d, a, hid, "turn"))
            return;
        for (int nb = 0; nb < maxb && a.ph != 'O'; ++nb)
        {
            find(a, 0);
            if (a.ph == 'O' || !(a.has && a.nb))
                break;
            if (u01() < 0.25)
            {
                move_i(a, a.nd * (0.2 + 0.6 * u01()));
                find(a, 0);
                if (a.ph == 'O' || !(a.has && a.nb))
                    break;
            }
            Real3 arr = nav.view().dir();
            move_b(a);
            if (u01() < 0.15)
                copy(a, nav.view().dir());
            if (u01() < 0.75)
            {
                set_dir(a, turn_dir(arr));
                if (u01() < 0.3)
                    set_dir(a, turn_dir(arr));
            }
            cross(a);
            if (a.ph == 'O')
                break;
            if (u01() < 0.15)
                copy(a, nav.view().dir());
            if (u01() < 0.3)
            {
                // turn on the crossed boundary; a reversal gives a zero step: turn again
                for (int tries = 0; tries < 3; ++tries)
                {
                    set_dir(a, turn_dir(nav.view().dir()));
                    find(a, 0);
                    if (a.ph == 'O' || a.has)
                        break;
                }
                if (a.ph == 'O')
                    break;
                set_dir(a, nav.view().dir());  // (clears the cached step; same direction)
            }
        }
    }

    void probe(int hid, int ndirs, json const* planned = nullptr)
    {
        // safety at an interior point, then rays in many directions from the same point; a planned
        // probe (tools/navfacts.py plan) comes with its point and with directions aimed at the nearest
        // points of the surrounding surfaces, shot first
        FProto a;
        Real3 p = random_pos();
        if (planned)
            for (int k = 0; k < 3; ++k)
                p[k] = planned->at("p").at(k).get<double>();
        if (!init(p, random_dir(), a, hid, "probe"))
            return;
        double s0 = safety();
        if (std::isfinite(s0) && s0 > 0)
        {
            // radius-limited searches below and above the unlimited answer, and far beyond it
            safety_max(s0 * (0.2 + 0.7 * u01()));
            safety_max(s0 * (1.2 + 3 * u01()));
            safety_max(s0 * 40 + 1);
        }
        else
        {
            safety_max(0.5 + u01());
            safety_max(1e3);
        }
        int n = 0;
        if (planned)
            for (auto const& dj : planned->at("dirs"))
            {
                set_dir(a, make_unit_vector(Real3{dj.at(0).get<double>(), dj.at(1).get<double>(), dj.at(2).get<double>()}));
                find(a, 0);
                ++n;
            }
        for (int i = -1; i <= 1 && n < ndirs; ++i)
            for (int j = -1; j <= 1 && n < ndirs; ++j)
                for (int k = -1; k <= 1 && n < ndirs; ++k)
                {
                    if (!i && !j && !k)
                        continue;
                    set_dir(a, make_unit_vector(Real3{real_type(i), real_type(j), real_type(k)}));
                    find(a, 0);
                    ++n;
                }
        for (; n < ndirs; ++n)
        {
            set_dir(a, random_dir());
            find(a, 0);
        }
        if (std::isfinite(s0) && s0 > 0 && u01() < 0.6)
        {
            // move_internal(position) to a point of the safety sphere, then look around from there
            move_to(a, point_within(p, 0.95 * s0));
            safety();
            for (int i = 0; i < 10; ++i)
            {
                set_dir(a, random_dir());
                find(a, 0);
            }
        }
    }
};

int run_fixture(std::string const& file, unsigned long seed, int nrays, int nwalks, int nprobes, int nturns,
                verif::NdjsonWriter& out, json const& focus, json const& plan)
{
    Geo geo;
    geo.params = std::make_shared<OrangeParams>(file);
    geo.name = file;
    geo.lattice = false;
    Nav nav(geo);
    FixtureDriver fd{nav, out, std::mt19937_64(seed), {}, {}};
    auto const& bb = geo.params->bbox();
    for (int k = 0; k < 3; ++k)
    {
        fd.lo[k] = bb.lower()[k];
        fd.hi[k] = bb.upper()[k];
        if (!std::isfinite(fd.lo[k]) || !std::isfinite(fd.hi[k]))
            throw std::runtime_error("fixture without a finite bounding box");
    }
    for (auto const& b : focus)
    {
        Real3 a, c;
        for (int k = 0; k < 3; ++k)
        {
            a[k] = b.at(0).at(k).get<double>();
            c[k] = b.at(1).at(k).get<double>();
        }
        fd.focus.push_back({a, c});
    }
    out(json{{"e", "World"}, {"name", file}, {"lo", jr(fd.lo)}, {"hi", jr(fd.hi)}});
    int hid = 0;
    for (int i = 0; i < nrays; ++i)
        fd.ray(hid++);
    for (int i = 0; i < nwalks; ++i)
        fd.walk(hid++, 60);
    for (int i = 0; i < nprobes; ++i)
        fd.probe(hid++, 64);
    for (auto const& pl : plan)
        fd.probe(hid++, 64, &pl);
    for (int i = 0; i < nturns; ++i)
        fd.turn(hid++, 10);
    std::cerr << "fixture " << file << ": histories " << hid << " calls " << fd.calls << std::endl;
    return 0;
}

json load_json(std::string const& path)
{
    std::ifstream in(path);
    if (!in)
        throw std::runtime_error("cannot open " + path);
    json j;
    in >> j;
    return j;
}
//---------------------------------------------------------------------------//
}  // namespace

int main(int argc, char** argv)
{
    std::set_terminate(on_terminate);
    if (argc < 3)
    {
        std::cerr << "usage: vnav explore|walk|replay|dump|fixture ..." << std::endl;
        return 2;
    }
    std::string mode = argv[1];
    try
    {
        if (mode == "explore" && argc == 6)
        {
            json w = load_json(argv[2]);
            Geo geo = build_world(w);
            verif::NdjsonWriter out(argv[5]);
            g_out = &out;
            out(json{{"e", "World"}, {"name", geo.name}});
            int rc = run_explore(geo, std::atoi(argv[3]), std::atol(argv[4]), out);
            out(json{{"e", "Close"}});
            return rc;
        }
        if (mode == "both" && argc == 9)
        {
            // explore <depth> <maxcalls> then walk <seed> <nwalks> <len> into one trace
            json w = load_json(argv[2]);
            Geo geo = build_world(w);
            verif::NdjsonWriter out(argv[8]);
            g_out = &out;
            out(json{{"e", "World"}, {"name", geo.name}});
            int rc = run_explore(geo, std::atoi(argv[3]), std::atol(argv[4]), out);
            if (rc == 0)
                rc = run_walk(geo, std::strtoul(argv[5], nullptr, 10), std::atoi(argv[6]), std::atoi(argv[7]), out);
            out(json{{"e", "Close"}});
            return rc;
        }
        if (mode == "walk" && argc == 7)
        {
            json w = load_json(argv[2]);
            Geo geo = build_world(w);
            verif::NdjsonWriter out(argv[6]);
            g_out = &out;
            out(json{{"e", "World"}, {"name", geo.name}});
            int rc = run_walk(geo, std::strtoul(argv[3], nullptr, 10), std::atoi(argv[4]), std::atoi(argv[5]), out);
            out(json{{"e", "Close"}});
            return rc;
        }
        if (mode == "replay" && argc == 5)
        {
            json w = load_json(argv[2]);
            Geo geo = build_world(w);
            verif::NdjsonWriter out(argv[4]);
            g_out = &out;
            out(json{{"e", "World"}, {"name", geo.name}});
            int rc = run_replay(geo, load_json(argv[3]), out);
            out(json{{"e", "Close"}});
            return rc;
        }
        if (mode == "fixture" && argc >= 9 && argc <= 11)
        {
            verif::NdjsonWriter out(argv[8]);
            g_out = &out;
            json focus = argc >= 10 ? load_json(argv[9]) : json::array();
            json plan = argc >= 11 ? load_json(argv[10]) : json::array();
            int rc = run_fixture(argv[2], std::strtoul(argv[3], nullptr, 10), std::atoi(argv[4]), std::atoi(argv[5]),
                                 std::atoi(argv[6]), std::atoi(argv[7]), out, focus, plan);
            out(json{{"e", "Close"}});
            return rc;
        }
        if (mode == "dump" && argc == 4)
        {
            // curved world description -> the OrangeInput orangeinp builds, as .org.json
            json w = load_json(argv[2]);
            OrangeInput input = build_curved(w);
            json out = input;
            std::ofstream(argv[3]) << out.dump() << "\n";
            return 0;
        }
    }
    catch (std::exception const& e)
    {
        // construction or driver failure: a harness fault (exit != 0), never a silent truncation
        std::cerr << "vnav: exception: " << e.what() << std::endl;
        if (g_out)
        {
            (*g_out)(json{{"e", "Abort"}, {"what", e.what()}});
            g_out->flush();
        }
        return 5;
    }
    std::cerr << "vnav: bad arguments" << std::endl;
    return 2;
}
