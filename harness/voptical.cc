// C20 harness: drive the REAL optical pre-generators (CerenkovOffload, ScintillationOffload),
// generators (CerenkovGenerator, ScintillationGenerator), CerenkovDndxCalculator and the
// buffer algorithms of the offload/generator actions (remove_if_invalid, count_num_photons,
// inclusive_scan_photons, find_distribution_index, LocalWorkCalculator, resize of
// OffloadStateData) through their public headers and log one ndjson record per call.
// Expectations live in spec/Optical.tla (+ OpticalTrace.tla); this file computes NO verdicts.
//
// What it does compute besides raw observations:
//   * order-preserving RANKS of all doubles of one record (vjson.hh Ranker) together with the
//     bracket values the spec compares them with (a few-ulp slack on segment end points,
//     1/beta (1 +- 4 eps), n_max (1 - 1e-6), support windows of the Gaussian spectra, ...);
//   * ORACLE-DECIDED facts, written from the documented definitions with plain arithmetic and
//     never calling the code under test: | |d| - 1 |, | |p| - 1 |, |d.p|, the Cerenkov cone
//     residual | d.s - 1/(n(E) beta_mean) | with n(E) from an independent linear interpolation
//     of the table, the distance of the photon position from the line through the step
//     segment, the parent-arrival time bracket, dN/dx from the documented integral, and the
//     support bracket of the sampled photon number.  They enter the trace ONLY as ranks next
//     to the rank of their tolerance.
//
// usage: voptical steps <out.ndjson> <seed> <n_steps> [maxphot=6] [drawcap=400000]
//        voptical book  <out.ndjson> <seed> <n_runs>
//
// Record vocabulary
//   Config   seed, tolerances, materials (names), particles
//   Step     k, proc (cer|scint), var, mat, part, charge, called, lenzero, edepzero, rk{...},
//            in{tokens}, dist{n, valid, tokens}, gen, aborted, draws, seg{lo[3],hi[3]},
//            comps[{elo,ehi,bounded}], phot[{...}], cls, x{raw values as text}
//   BConfig / BOffload / BGenerate / BEmptyGenerate / BLaunch / BError / BAbort / BEnd
//            bookkeeping state machine (mode book)
//   Close    n, classes (coverage tuples measured by the harness), nontrivial
//
// The per-track glue of detail/{Cerenkov,Scint}OffloadExecutor.hh, *GeneratorExecutor.hh and
// the step_impl of the four actions needs a CoreTrackView (a full CoreParams/CoreState); it is
// TRANSCRIBED here (marked GLUE) around the real building blocks.  Stated in the evidence.
#include <cmath>
#include <cstdlib>
#include <limits>
#include <memory>
#include <random>
#include <set>
#include <sstream>

#include "corecel/cont/Range.hh"
#include "corecel/data/CollectionBuilder.hh"
#include "corecel/data/CollectionStateStore.hh"
#include "corecel/math/Algorithms.hh"
#include "corecel/math/ArrayOperators.hh"
#include "corecel/math/ArrayUtils.hh"
#include "celeritas/Constants.hh"
#include "celeritas/Quantities.hh"
#include "celeritas/Units.hh"
#include "celeritas/io/ImportOpticalMaterial.hh"
#include "celeritas/optical/CerenkovDndxCalculator.hh"
#include "celeritas/optical/CerenkovGenerator.hh"
#include "celeritas/optical/CerenkovOffload.hh"
#include "celeritas/optical/CerenkovParams.hh"
#include "celeritas/optical/GeneratorDistributionData.hh"
#include "celeritas/optical/MaterialParams.hh"
#include "celeritas/optical/MaterialView.hh"
#include "celeritas/optical/OffloadData.hh"
#include "celeritas/optical/ScintillationGenerator.hh"
#include "celeritas/optical/ScintillationOffload.hh"
#include "celeritas/optical/ScintillationParams.hh"
#include "celeritas/optical/TrackInitializer.hh"
#include "celeritas/optical/detail/OpticalGenAlgorithms.hh"
#include "celeritas/optical/detail/OpticalUtils.hh"
#include "celeritas/phys/PDGNumber.hh"
#include "celeritas/phys/ParticleParams.hh"
#include "celeritas/phys/ParticleTrackView.hh"
#include "celeritas/random/XorwowRngEngine.hh"
#include "celeritas/random/XorwowRngParams.hh"
#include "celeritas/random/detail/GenerateCanonical32.hh"
#include "celeritas/random/distribution/GenerateCanonical.hh"
#include "celeritas/track/SimParams.hh"
#include "celeritas/track/SimTrackView.hh"

#include "vjson.hh"

namespace verif
{
struct DrawCapExceeded
{
};

//! Counting engine around the real xorwow engine; throws once the cap is exceeded so that
//! an unbounded rejection loop is an observed event instead of a hang.
class CountingEngine
{
  public:
    using result_type = unsigned int;
    CountingEngine(celeritas::XorwowRngEngine e, std::size_t cap)
        : eng_(e), cap_(cap)
    {
    }
    result_type operator()()
    {
        if (++count_ > cap_)
            throw DrawCapExceeded{};
        return eng_();
    }
    static constexpr result_type min() { return 0u; }
    static constexpr result_type max() { return 0xffffffffu; }
    std::size_t count() const { return count_; }

  private:
    celeritas::XorwowRngEngine eng_;
    std::size_t cap_;
    std::size_t count_{0};
};
}  // namespace verif

namespace celeritas
{
template<class RealType>
class GenerateCanonical<verif::CountingEngine, RealType>
{
  public:
    using real_type = RealType;
    using result_type = RealType;
    result_type operator()(verif::CountingEngine& rng)
    {
        return detail::GenerateCanonical32<RealType>()(rng);
    }
};
}  // namespace celeritas

namespace
{
using namespace celeritas;
using verif::CountingEngine;
using verif::json;
using XorwowStore = CollectionStateStore<XorwowRngStateData, MemSpace::host>;
template<template<Ownership, MemSpace> class S>
using StateStore = CollectionStateStore<S, MemSpace::host>;

constexpr double k_eps = std::numeric_limits<double>::epsilon();
constexpr double k_norm_tol = 1e-10;
constexpr double k_perp_tol = 1e-10;
constexpr double k_cone_tol = 1e-9;
constexpr double k_maxdev = 8.6;  // > sqrt(2*53*ln 2) = 8.572: largest Box-Muller deviate

std::string g17(double v)
{
    char buf[64];
    std::snprintf(buf, sizeof(buf), "%.17g", v);
    return buf;
}
json g17v(Real3 const& v)
{
    return json::array({g17(v[0]), g17(v[1]), g17(v[2])});
}

//---------------------------------------------------------------------------//
// rank placeholders: {"$": v} objects are replaced by the dense rank of v within the record
//---------------------------------------------------------------------------//
json R(double v)
{
    if (!std::isfinite(v))
    {
        std::cerr << "voptical: non-finite value offered for ranking\n";
        std::exit(3);
    }
    return json{{"$", v}};
}
bool is_ph(json const& j)
{
    return j.is_object() && j.size() == 1 && j.contains("$");
}
void collect(json const& j, verif::Ranker& rk)
{
    if (is_ph(j))
        rk.add(j["$"].get<double>());
    else if (j.is_object() || j.is_array())
        for (auto const& c : j)
            collect(c, rk);
}
void replace(json& j, verif::Ranker const& rk)
{
    if (is_ph(j))
        j = rk(j["$"].get<double>());
    else if (j.is_object() || j.is_array())
        for (auto& c : j)
            replace(c, rk);
}
void rankify(json& rec)
{
    verif::Ranker rk;
    // the raw-value block "x" is text only
    collect(rec, rk);
    rk.finalize();
    replace(rec, rk);
}

//---------------------------------------------------------------------------//
// Problem data
//---------------------------------------------------------------------------//
struct Table
{
    std::string name;
    std::vector<double> x, y;  // photon energy [MeV], refractive index
};

struct Comp
{
    double frac, mean, sigma, rise, fall;  // native units (cm, s)
};
struct Scint
{
    std::string name;
    double yield;  // photons per MeV
    double res;  // resolution scale
    std::vector<Comp> comps;
};

struct PartSpec
{
    std::string name;
    PDGNumber pdg;
    double mass;
    int charge;
};

struct World
{
    std::mt19937_64 gen;
    std::vector<Table> tables;
    std::vector<Scint> scints;
    std::vector<PartSpec> parts;
    std::shared_ptr<optical::MaterialParams> omat;
    std::shared_ptr<optical::CerenkovParams> cer;
    std::shared_ptr<optical::ScintillationParams> sci;
    std::shared_ptr<ParticleParams> particles;
    std::shared_ptr<SimParams> sim;
    std::unique_ptr<StateStore<ParticleStateData>> pstate;
    std::unique_ptr<StateStore<SimStateData>> sstate;

    double u01() { return std::uniform_real_distribution<double>(0, 1)(gen); }
    double uni(double a, double b) { return a + (b - a) * u01(); }
    double logu(double a, double b)
    {
        return std::pow(10.0, uni(std::log10(a), std::log10(b)));
    }
    int irand(int a, int b)
    {
        return std::uniform_int_distribution<int>(a, b)(gen);
    }
};

// photon energy [MeV] of a wavelength in nm
double nm_to_mev(double nm)
{
    double const lambda = nm * 1e-9 * units::meter;
    return (constants::h_planck * constants::c_light / lambda)
           / native_value_from(units::MevEnergy{1});
}

void build_world(World& w, unsigned seed)
{
    w.gen.seed(seed * 2654435761ULL + 12345);
    constexpr double nm = 1e-9 * units::meter;
    constexpr double ns = units::nanosecond;

    // ---- refractive-index tables (strictly increasing x and y are REQUIRED by
    //      optical::MaterialParams: an exactly constant n is rejected at construction) ----
    double const e_ir = nm_to_mev(1100), e_uv = nm_to_mev(180);
    {
        // water-like: n grows slowly in the visible, steeply towards the UV
        Table t{"waterlike", {}, {}};
        int const np = 41;
        for (int i = 0; i < np; ++i)
        {
            double f = double(i) / (np - 1);
            t.x.push_back(e_ir + (e_uv - e_ir) * f);
            t.y.push_back(1.3235 + 0.025 * f + 0.12 * std::pow(f, 6));
        }
        w.tables.push_back(t);
    }
    {
        // as flat as the constructor accepts: n rises by 1e-10 over the table
        Table t{"flat", {}, {}};
        for (int i = 0; i < 5; ++i)
        {
            t.x.push_back(e_ir * (1 + 1.3 * i));
            t.y.push_back(1.33 + 2.5e-11 * i);
        }
        w.tables.push_back(t);
    }
    {
        // steeply rising, non-uniform grid
        Table t{"rising", {}, {}};
        double xs[] = {1.0, 1.2, 1.25, 2.0, 2.1, 3.7, 5.0, 6.5};
        double ys[] = {1.2, 1.22, 1.3, 1.31, 1.5, 1.55, 1.7, 1.8};
        for (int i = 0; i < 8; ++i)
        {
            t.x.push_back(xs[i] * 1e-6);
            t.y.push_back(ys[i]);
        }
        w.tables.push_back(t);
    }
    {
        // gas radiator: threshold at beta = 0.9988
        Table t{"gas", {}, {}};
        for (int i = 0; i < 6; ++i)
        {
            t.x.push_back(2e-6 + 1e-6 * i);
            t.y.push_back(1.0003 + 0.00018 * i);
        }
        w.tables.push_back(t);
    }
    {
        // refractive index below unity at the low end (warning in MaterialParams): that part
        // of the table can never radiate
        Table t{"subunity", {}, {}};
        double ys[] = {0.95, 0.99, 1.0, 1.05, 1.3, 1.5};
        for (int i = 0; i < 6; ++i)
        {
            t.x.push_back(1.5e-6 + 0.9e-6 * i);
            t.y.push_back(ys[i]);
        }
        w.tables.push_back(t);
    }
    {
        Table t{"twopoint", {2e-6, 8e-6}, {1.4, 1.6}};
        w.tables.push_back(t);
    }
    for (int r = 0; r < 2; ++r)
    {
        // seeded random tables
        Table t{"random" + std::to_string(r), {}, {}};
        int const np = w.irand(3, 14);
        double x = w.logu(0.5e-6, 3e-6);
        double y = w.uni(1.01, 1.6);
        for (int i = 0; i < np; ++i)
        {
            t.x.push_back(x);
            t.y.push_back(y);
            x *= 1 + w.logu(1e-3, 1.0);
            y += w.logu(1e-6, 0.15);
        }
        w.tables.push_back(t);
    }

    // ---- scintillation spectra, one per optical material ----
    w.scints.push_back({"narrow1", 5, 1, {{1.0, 420 * nm, 5 * nm, 0, 6 * ns}}});
    w.scints.push_back({"three",
                        100,
                        1,
                        {{0.5, 100 * nm, 5 * nm, 10 * ns, 6 * ns},
                         {0.3, 200 * nm, 10 * nm, 0, 1500 * ns},
                         {0.2, 400 * nm, 20 * nm, 10 * ns, 3000 * ns}}});
    w.scints.push_back({"overlap2",
                        1e4,
                        2.5,
                        {{0.7, 400 * nm, 40 * nm, 1 * ns, 10 * ns},
                         {0.3, 450 * nm, 45 * nm, 0, 100 * ns}}});
    // wide Gaussians: mean - 8.6 sigma <= 0, the sampled wavelength can be <= 0
    w.scints.push_back({"wide3", 40000, 0, {{1.0, 300 * nm, 100 * nm, 0, 10 * ns}}});
    w.scints.push_back({"wide25", 0.5, 1, {{1.0, 300 * nm, 120 * nm, 2 * ns, 10 * ns}}});
    w.scints.push_back({"slowrise", 1000, 1, {{1.0, 420 * nm, 10 * nm, 50 * ns, 5 * ns}}});
    for (int r = 0; r < 2; ++r)
    {
        Scint s{"random" + std::to_string(r), w.logu(0.5, 5e4), w.uni(0, 3), {}};
        int const nc = w.irand(1, 3);
        for (int i = 0; i < nc; ++i)
        {
            double mean = w.uni(120, 700) * nm;
            double sigma = mean * w.logu(1e-3, 0.11);
            double fall = w.logu(0.5, 3000) * ns;
            double rise = w.u01() < 0.4 ? 0.0 : fall * w.logu(1e-2, 8);
            s.comps.push_back({w.uni(0.05, 1), mean, sigma, rise, fall});
        }
        w.scints.push_back(s);
    }
    if (w.scints.size() != w.tables.size())
    {
        std::cerr << "voptical: table/spectrum count mismatch\n";
        std::exit(3);
    }

    // ---- real params ----
    optical::MaterialParams::Input minp;
    for (auto const& t : w.tables)
    {
        ImportOpticalProperty p;
        p.refractive_index.vector_type = ImportPhysicsVectorType::free;
        p.refractive_index.x = t.x;
        p.refractive_index.y = t.y;
        minp.properties.push_back(p);
    }
    minp.volume_to_mat = {OpticalMaterialId{0}};
    w.omat = std::make_shared<optical::MaterialParams>(minp);
    w.cer = std::make_shared<optical::CerenkovParams>(w.omat);

    optical::ScintillationParams::Input sinp;
    for (auto const& s : w.scints)
    {
        sinp.resolution_scale.push_back(s.res);
        ImportMaterialScintSpectrum ms;
        ms.yield_per_energy = s.yield;
        for (auto const& c : s.comps)
            ms.components.push_back({c.frac, c.mean, c.sigma, c.rise, c.fall});
        sinp.materials.push_back(ms);
    }
    w.sci = std::make_shared<optical::ScintillationParams>(sinp);

    w.parts = {{"electron", pdg::electron(), 0.5109989461, -1},
               {"positron", pdg::positron(), 0.5109989461, 1},
               {"mu_minus", pdg::mu_minus(), 105.6583745, -1},
               {"mu_plus", pdg::mu_plus(), 105.6583745, 1},
               {"neutron", pdg::neutron(), 939.5654133, 0}};
    ParticleParams::Input pinp;
    for (auto const& p : w.parts)
        pinp.push_back({p.name,
                        p.pdg,
                        units::MevMass{p.mass},
                        units::ElementaryCharge{double(p.charge)},
                        constants::stable_decay_constant});
    w.particles = std::make_shared<ParticleParams>(std::move(pinp));
    w.pstate = std::make_unique<StateStore<ParticleStateData>>(
        w.particles->host_ref(), 1);
    w.sim = std::make_shared<SimParams>();
    w.sstate = std::make_unique<StateStore<SimStateData>>(w.sim->host_ref(), 1);
}

ParticleTrackView make_particle(World& w, int pidx, double energy)
{
    ParticleTrackView::Initializer_t init;
    init.particle_id = w.particles->find(w.parts[pidx].pdg);
    init.energy = units::MevEnergy{energy};
    ParticleTrackView v(w.particles->host_ref(), w.pstate->ref(), TrackSlotId{0});
    v = init;
    return v;
}

SimTrackView make_sim(World& w, double step)
{
    SimTrackView::Initializer_t init;
    init.event_id = EventId{0};
    init.parent_id = TrackId{0};
    SimTrackView v(w.sim->host_ref(), w.sstate->ref(), TrackSlotId{0});
    v = init;
    v.step_length(step);
    v.status(TrackStatus::alive);
    return v;
}

// kinetic energy [MeV] of a particle of mass m moving with speed beta (stable for small beta)
double energy_for_beta(double m, double beta)
{
    if (beta <= 0)
        return 0;
    double s = std::sqrt((1 - beta) * (1 + beta));
    return m * beta * beta / (s * (1 + s));
}

//---------------------------------------------------------------------------//
// Independent oracles (documented definitions, plain arithmetic)
//---------------------------------------------------------------------------//
// n(E): linear interpolation, constant extrapolation
double interp(Table const& t, double e)
{
    if (e <= t.x.front())
        return t.y.front();
    if (e >= t.x.back())
        return t.y.back();
    std::size_t hi = std::upper_bound(t.x.begin(), t.x.end(), e) - t.x.begin();
    std::size_t lo = hi - 1;
    double f = (e - t.x[lo]) / (t.x[hi] - t.x[lo]);
    return t.y[lo] + f * (t.y[hi] - t.y[lo]);
}

// dN/dx = alpha z^2/(hbar c) * Int_{n beta > 1} (1 - 1/(n beta)^2) dE, with 1/n^2 integrated
// by the trapezoid rule between the knots and linearly inside a bin (CerenkovParams doc)
double dndx_oracle(Table const& t, double beta, double z)
{
    double const invb = 1 / beta;
    std::size_t const n = t.x.size();
    if (invb > t.y.back())
        return 0;
    std::vector<double> cum(n, 0.0);
    for (std::size_t i = 1; i < n; ++i)
        cum[i] = cum[i - 1]
                 + 0.5 * (t.x[i] - t.x[i - 1])
                       * (1 / (t.y[i - 1] * t.y[i - 1]) + 1 / (t.y[i] * t.y[i]));
    double emin = t.x.front(), imin = 0;
    if (!(invb < t.y.front()))
    {
        // energy where n(E) = 1/beta
        if (invb >= t.y.back())
        {
            emin = t.x.back();
            imin = cum.back();
        }
        else
        {
            std::size_t hi = std::upper_bound(t.y.begin(), t.y.end(), invb)
                             - t.y.begin();
            std::size_t lo = hi - 1;
            double f = (invb - t.y[lo]) / (t.y[hi] - t.y[lo]);
            emin = t.x[lo] + f * (t.x[hi] - t.x[lo]);
            double g = (emin - t.x[lo]) / (t.x[hi] - t.x[lo]);
            imin = cum[lo] + g * (cum[hi] - cum[lo]);
        }
    }
    double e = (t.x.back() - emin) - (cum.back() - imin) * invb * invb;
    double k = z * z * constants::alpha_fine_structure
               / (constants::hbar_planck * constants::c_light)
               * native_value_from(units::MevEnergy{1});
    return std::max(0.0, k * e);
}

double dot3(Real3 const& a, Real3 const& b)
{
    return a[0] * b[0] + a[1] * b[1] + a[2] * b[2];
}
double norm3(Real3 const& a)
{
    return std::sqrt(dot3(a, a));
}
bool fin3(Real3 const& a)
{
    return std::isfinite(a[0]) && std::isfinite(a[1]) && std::isfinite(a[2]);
}
double maxabs3(Real3 const& a)
{
    return std::max({std::fabs(a[0]), std::fabs(a[1]), std::fabs(a[2])});
}

//---------------------------------------------------------------------------//
// One step (pre/post data) and its logging
//---------------------------------------------------------------------------//
struct StepIn
{
    int mat{0};
    int part{0};
    double bpre{0}, epost{0}, bpost{0};
    Real3 pre{0, 0, 0}, post{0, 0, 0};
    double t0{0}, len{0}, edep{0};
    std::string bcls, losscls, lencls, dircls;
};

Real3 random_dir(World& w, std::string& cls)
{
    double u = w.u01();
    if (u < 0.2)
    {
        cls = "axis";
        Real3 d{0, 0, 0};
        d[w.irand(0, 2)] = w.u01() < 0.5 ? 1.0 : -1.0;
        return d;
    }
    if (u < 0.4)
    {
        cls = "nearpole";
        double s = w.logu(1e-9, 5e-3);
        double ph = w.uni(0, 2 * constants::pi);
        double c = std::sqrt((1 - s) * (1 + s)) * (w.u01() < 0.5 ? 1 : -1);
        return Real3{s * std::cos(ph), s * std::sin(ph), c};
    }
    cls = "generic";
    double c = w.uni(-1, 1);
    double ph = w.uni(0, 2 * constants::pi);
    double s = std::sqrt(1 - c * c);
    Real3 d{s * std::cos(ph), s * std::sin(ph), c};
    double nn = norm3(d);
    return Real3{d[0] / nn, d[1] / nn, d[2] / nn};
}

// choose a step: material, particle, mean speed class relative to the Cerenkov threshold,
// loss class, geometry
StepIn make_step(World& w, bool want_scint)
{
    StepIn s;
    s.mat = w.irand(0, int(w.tables.size()) - 1);
    Table const& t = w.tables[s.mat];
    double const nmax = t.y.back(), nmin = t.y.front();
    double const bthr = 1 / nmax;
    double const bfull = nmin > 1 ? 1 / nmin : 2.0;

    // particle: charged mostly; neutral for scintillation (collision site) and the guard
    double up = w.u01();
    s.part = up < 0.08 ? 4 : w.irand(0, 3);
    double const m = w.parts[s.part].mass;

    // ---- mean speed ----
    double bm;
    static int const bsel_tab[] = {0, 1, 2, 3, 3, 4, 4, 4, 5, 5, 5};
    int bsel = bsel_tab[w.irand(0, 10)];
    int ulp_off = 0;
    switch (bsel)
    {
        case 0:
            bm = bthr * w.uni(0.05, 0.9);
            break;
        case 1:
            bm = bthr * (1 - w.logu(1e-13, 1e-2));
            break;
        case 2:
            bm = bthr;
            ulp_off = w.irand(-2, 2);
            break;
        case 3:
            bm = bthr * (1 + w.logu(1e-13, 1e-2));
            break;
        case 4:
            bm = w.uni(bthr, std::min(bfull, 1.0));
            break;
        default:
            bm = bfull < 1 ? bfull + (1 - bfull) * std::pow(w.u01(), 2)
                           : w.uni(bthr, 1.0);
            break;
    }
    bm = std::min(bm, 1 - 1e-13);

    // ---- loss along the step ----
    double ul = w.u01();
    double ratio;  // beta_post / beta_pre
    if (ul < 0.2)
    {
        s.losscls = "none";
        ratio = 1;
    }
    else if (ul < 0.45)
    {
        s.losscls = "small";
        ratio = 1 - w.logu(1e-7, 1e-3);
    }
    else if (ul < 0.8)
    {
        s.losscls = "large";
        ratio = w.uni(0.3, 0.99);
    }
    else if (ul < 0.9)
    {
        s.losscls = "stop";
        ratio = 0;
    }
    else
    {
        s.losscls = "accel";
        ratio = 1 / w.uni(0.5, 0.99);
    }
    double bpre = 2 * bm / (1 + ratio);
    double bpost = ratio * bpre;
    if (bpre >= 1 || bpost >= 1)
    {
        // not reachable with this loss: fall back to a tiny loss
        s.losscls = "none";
        bpre = bpost = bm;
    }
    s.epost = energy_for_beta(m, bpost);
    {
        auto p = make_particle(w, s.part, s.epost);
        s.bpost = p.speed().value();
    }
    // the pre-step speed is stored directly: re-centre it on the wanted mean
    s.bpre = 2 * bm - s.bpost;
    if (!(s.bpre > 0) || s.bpre > 1)
        s.bpre = std::min(std::max(bpre, 1e-6), 1.0);
    if (bsel == 2)
    {
        // land 1/beta_mean within a few ulp of n_max (offset ulp_off)
        double target = nmax;
        for (int i = 0; i < std::abs(ulp_off); ++i)
            target = std::nextafter(target, ulp_off > 0 ? 10.0 : 0.0);
        double best = s.bpre;
        double besterr = std::fabs(1 / (0.5 * (best + s.bpost)) - target);
        for (int dir = -1; dir <= 1; dir += 2)
        {
            double b = s.bpre;
            for (int i = 0; i < 12; ++i)
            {
                b = std::nextafter(b, dir > 0 ? 2.0 : 0.0);
                if (!(b > 0 && b <= 1))
                    break;
                double err = std::fabs(1 / (0.5 * (b + s.bpost)) - target);
                if (err < besterr)
                {
                    besterr = err;
                    best = b;
                }
            }
        }
        s.bpre = best;
    }

    // ---- geometry ----
    double ug = w.u01();
    if (ug < 0.06)
    {
        s.lencls = "zero";
        s.len = 0;
    }
    else
    {
        s.len = w.u01() < 0.5 ? w.logu(1e-6, 10.0) : w.logu(1e-2, 10.0);
        s.lencls = s.len < 1e-3 ? "short" : (s.len < 0.3 ? "medium" : "long");
    }
    for (int c = 0; c < 3; ++c)
    {
        double u = w.u01();
        s.pre[c] = u < 0.25 ? 0.0 : (w.u01() < 0.5 ? -1 : 1) * w.logu(1e-3, 100.0);
    }
    Real3 d = random_dir(w, s.dircls);
    double chord = s.len * (w.u01() < 0.7 ? 1.0 : w.uni(0.5, 1.0));
    for (int c = 0; c < 3; ++c)
        s.post[c] = s.pre[c] + d[c] * chord;
    s.t0 = w.u01() < 0.5 ? 0.0 : w.logu(1e-12, 1e-6);

    if (want_scint)
        s.edep = w.u01() < 0.1 ? 0.0 : w.logu(1e-6, 10.0);
    return s;
}

// class of 1/beta_mean relative to the table, measured on the actual doubles
std::string beta_class(Table const& t, double invb)
{
    double const nmax = t.y.back(), nmin = t.y.front();
    if (std::fabs(invb - nmax) <= 4 * k_eps * nmax)
        return "ulp";
    if (invb > nmax * 1.1)
        return "farbelow";
    if (invb > nmax)
        return "below";
    if (invb > nmax * (1 - 1e-2) && invb > nmin)
        return "above";
    if (invb > nmin)
        return "partial";
    return "full";
}

struct Tokens
{
    verif::Interner in;
    json operator()(double t,
                    double len,
                    double charge,
                    unsigned mat,
                    double bpre,
                    Real3 const& pre,
                    double bpost,
                    Real3 const& post)
    {
        return json{{"time", in(t)},
                    {"len", in(len)},
                    {"charge", in(charge)},
                    {"mat", in(static_cast<std::uint64_t>(mat) + static_cast<std::uint64_t>(0x7000000000000000ULL))},
                    {"bpre", in(bpre)},
                    {"pre", json::array({in(pre[0]), in(pre[1]), in(pre[2])})},
                    {"bpost", in(bpost)},
                    {"post", json::array({in(post[0]), in(post[1]), in(post[2])})}};
    }
};

json dist_tokens(Tokens& tk, optical::GeneratorDistributionData const& d)
{
    return tk(d.time,
              d.step_length,
              d.charge.value(),
              d.material ? d.material.unchecked_get() : 0xfffffffu,
              d.points[StepPoint::pre].speed.value(),
              d.points[StepPoint::pre].pos,
              d.points[StepPoint::post].speed.value(),
              d.points[StepPoint::post].pos);
}

struct Coverage
{
    std::set<std::string> classes, nontrivial;
    std::map<std::string, long> per_proc, per_bcls, photons_proc;
    long photons{0}, steps{0};
};

//---------------------------------------------------------------------------//
// mode steps
//---------------------------------------------------------------------------//
int run_steps(int argc, char** argv)
{
    if (argc < 5)
    {
        std::cerr << "usage: voptical steps out seed n [maxphot] [drawcap]\n";
        return 2;
    }
    std::string const outpath = argv[2];
    unsigned const seed = static_cast<unsigned>(std::strtoull(argv[3], nullptr, 10));
    long const nsteps = std::atol(argv[4]);
    int const maxphot = argc > 5 ? std::atoi(argv[5]) : 6;
    std::size_t const drawcap = argc > 6 ? std::strtoull(argv[6], nullptr, 10) : 400000;

    verif::NdjsonWriter out(outpath);
    World w;
    build_world(w, seed);

    auto xparams = std::make_shared<XorwowRngParams>(seed);
    XorwowStore xstore(xparams->host_ref(), StreamId{0}, 1);
    XorwowRngEngine xeng(xparams->host_ref(), xstore.ref(), TrackSlotId{0});

    {
        json mats = json::array(), parts = json::array(), sc = json::array();
        for (auto const& t : w.tables)
            mats.push_back({{"name", t.name},
                            {"n", t.x.size()},
                            {"emin", g17(t.x.front())},
                            {"emax", g17(t.x.back())},
                            {"nmin", g17(t.y.front())},
                            {"nmax", g17(t.y.back())}});
        for (auto const& s : w.scints)
            sc.push_back({{"name", s.name},
                          {"yield", g17(s.yield)},
                          {"res", g17(s.res)},
                          {"ncomp", s.comps.size()}});
        for (auto const& p : w.parts)
            parts.push_back(p.name);
        out({{"e", "Config"},
             {"seed", seed},
             {"mats", mats},
             {"scints", sc},
             {"parts", parts},
             {"maxphot", maxphot},
             {"drawcap", drawcap},
             {"norm_tol", g17(k_norm_tol)},
             {"perp_tol", g17(k_perp_tol)},
             {"cone_tol", g17(k_cone_tol)}});
    }

    double const c = constants::c_light;
    Coverage cov;
    for (long k = 0; k < nsteps; ++k)
    {
        bool const scint = (k % 2) == 1;
        StepIn s = make_step(w, scint);
        Table const& t = w.tables[s.mat];
        Scint const& sp = w.scints[s.mat];
        PartSpec const& ps = w.parts[s.part];
        OpticalMaterialId const mid{static_cast<size_type>(s.mat)};

        OffloadPreStepData pre;
        pre.speed = units::LightSpeed{s.bpre};
        pre.pos = s.pre;
        pre.time = s.t0;
        pre.material = mid;

        auto particle = make_particle(w, s.part, s.epost);
        auto sim = make_sim(w, s.len);
        double const bmean = 0.5 * (s.bpre + s.bpost);
        double const invb = 1 / bmean;
        double const nmax = t.y.back();
        double const z = ps.charge;

        Tokens tk;
        json rec{{"e", "Step"},
                 {"k", k},
                 {"proc", scint ? "scint" : "cer"},
                 {"mat", s.mat},
                 {"part", ps.name},
                 {"charge", ps.charge},
                 {"lenzero", s.len == 0},
                 {"maxphot", maxphot}};
        rec["var"] = std::string(scint ? "scint:" : "cer:")
                     + (scint ? sp.name : t.name);
        rec["in"] = tk(s.t0, s.len, z, mid.unchecked_get(), s.bpre, s.pre, s.bpost, s.post);

        json rk{{"zero", R(0.0)},
                {"ntol", R(k_norm_tol)},
                {"dptol", R(k_perp_tol)},
                {"conetol", R(k_cone_tol)},
                {"t0", R(s.t0)},
                {"len", R(s.len)}};

        // ---- the pre-generator (GLUE: the executors' guards) ----
        CountingEngine rng(xeng, drawcap);
        optical::GeneratorDistributionData dist;
        bool called = false;
        bool aborted = false;
        double mean_or = 0, sigma_or = 0;
        std::string bcls = beta_class(t, invb);
        try
        {
            if (!scint)
            {
                rk["invblo"] = R(invb * (1 - 4 * k_eps));
                rk["invbhi"] = R(invb * (1 + 4 * k_eps));
                rk["nmax"] = R(nmax);
                rk["nmaxlo"] = R(nmax * (1 - 1e-6));
                rk["emin"] = R(t.x.front());
                rk["emax"] = R(t.x.back());
                if (ps.charge != 0)
                {
                    called = true;
                    optical::MaterialView mv(w.omat->host_ref(), mid);
                    // the real dN/dx at the mean speed
                    optical::CerenkovDndxCalculator calc(
                        mv, w.cer->host_ref(), units::ElementaryCharge{z});
                    double dndx = calc(units::LightSpeed{bmean});
                    double dor = dndx_oracle(t, bmean, z);
                    double kmax = dndx_oracle(t, 1.0, z);
                    rec["dndxfin"] = std::isfinite(dndx);
                    rk["dndx"] = R(std::isfinite(dndx) ? dndx : 0.0);
                    rk["dres"] = R(std::isfinite(dndx) ? std::fabs(dndx - dor) : 0.0);
                    rk["dtol"] = R(1e-9 * kmax);
                    mean_or = dor * s.len;
                    sigma_or = std::sqrt(mean_or);
                    CerenkovOffload offload(
                        particle, sim, mv, s.post, w.cer->host_ref(), pre);
                    dist = offload(rng);
                    rec["x"]["dndx"] = g17(dndx);
                    rec["x"]["dndx_oracle"] = g17(dor);
                }
            }
            else
            {
                called = true;
                rec["edepzero"] = s.edep == 0;
                mean_or = sp.yield * s.edep;
                sigma_or = mean_or > 10 ? sp.res * std::sqrt(mean_or)
                                        : std::sqrt(mean_or);
                ScintillationOffload offload(particle,
                                             sim,
                                             s.post,
                                             units::MevEnergy{s.edep},
                                             w.sci->host_ref(),
                                             pre);
                dist = offload(rng);
            }
        }
        catch (verif::DrawCapExceeded const&)
        {
            aborted = true;
        }
        rec["called"] = called;

        // support bracket of the sampled number (documented laws: Poisson(mean), Gaussian
        // approximation for mean > 16 (Poisson) / N(mean, res sqrt(mean)) for mean > 10
        // (scintillation); Box-Muller deviates are bounded by 8.572)
        {
            double const mean = mean_or;
            double loud = scint ? std::max(50.0, 100 * sp.res * sp.res) : 50.0;
            double lo = mean - 9 * sigma_or - 1;
            double hi = mean + 9 * std::max(sigma_or, std::sqrt(mean)) + 12;
            rk["mean"] = R(mean);
            rk["loud"] = R(loud);
            rk["nlo"] = R(lo);
            rk["nhi"] = R(hi);
            double nd = static_cast<double>(dist.num_photons);
            rk["n"] = R(nd);
            rec["x"]["mean"] = g17(mean);
        }

        bool const valid = static_cast<bool>(dist);
        json jd = dist_tokens(tk, dist);
        jd["n"] = static_cast<long>(
            std::min<size_type>(dist.num_photons, size_type(1) << 30));
        jd["nbig"] = dist.num_photons > (size_type(1) << 30);
        jd["valid"] = valid;
        rec["dist"] = jd;

        // ---- segment brackets (few-ulp slack per coordinate) ----
        {
            json lo = json::array(), hi = json::array();
            for (int cc = 0; cc < 3; ++cc)
            {
                double a = std::min(s.pre[cc], s.post[cc]);
                double b = std::max(s.pre[cc], s.post[cc]);
                double slack = 4 * k_eps * std::max(std::fabs(a), std::fabs(b));
                lo.push_back(R(a - slack));
                hi.push_back(R(b + slack));
            }
            rec["seg"] = {{"lo", lo}, {"hi", hi}};
        }

        // ---- scintillation components: support windows of the photon energy ----
        json comps = json::array();
        if (scint)
        {
            double const hc = constants::h_planck * constants::c_light
                              / native_value_from(units::MevEnergy{1});
            for (auto const& cp : sp.comps)
            {
                double llo = cp.mean - k_maxdev * cp.sigma;
                double lhi = cp.mean + k_maxdev * cp.sigma;
                bool bounded = llo > 0;
                comps.push_back({{"elo", R(hc / lhi * (1 - 1e-12))},
                                 {"ehi", R(bounded ? hc / llo * (1 + 1e-12) : 0.0)},
                                 {"bounded", bounded}});
            }
        }
        rec["comps"] = comps;

        // ---- generate ----
        Real3 delta{s.post[0] - s.pre[0], s.post[1] - s.pre[1], s.post[2] - s.pre[2]};
        double const chord = norm3(delta);
        Real3 sdir{0, 0, 0};
        if (chord > 0)
            sdir = Real3{delta[0] / chord, delta[1] / chord, delta[2] / chord};
        double const scale
            = std::max({maxabs3(s.pre), maxabs3(s.post), chord, 1e-300});
        rk["coltol"] = R(64 * k_eps * scale);
        {
            // corecel rotate() takes sin(theta) of the reference direction as sqrt(1 - z^2):
            // within 1e-6 of the z axis that is only accurate to ~1.5e-8 (documented loss of
            // precision near the pole), so the cone bracket is widened there.  That includes a
            // step EXACTLY along z: the generator's own make_unit_vector may round the z
            // component to +-(1 - eps/2), for which rotate() takes sin(theta) = sqrt(eps) = 1.5e-8
            // (before the F-OPT-2 repair that case was 0/0 = NaN).
            double const sin_axis = std::sqrt(sdir[0] * sdir[0] + sdir[1] * sdir[1]);
            rk["conetol"] = R(sin_axis < 1e-6 ? 3e-8 : k_cone_tol);
            // scope facts of the named deviation RotateNearPoleNegativeY (F-ROT-1)
            rec["axis"] = {{"near", sin_axis > 0 && sin_axis < 0.005 * (1 + 1e-9)},
                           {"yneg", sdir[1] < 0}};
            rec["x"]["sin_axis"] = g17(sin_axis);
        }
        double const bmaxv = std::max(s.bpre, s.bpost);
        double const bminv = std::min(s.bpre, s.bpost);
        double const uslack = chord > 0 ? 8 * k_eps * scale / chord : 0;

        json phot = json::array();
        long gen = 0;
        if (valid && !aborted)
        {
            long const want = static_cast<long>(
                std::min<size_type>(dist.num_photons, size_type(maxphot)));
            try
            {
                optical::MaterialView mv(w.omat->host_ref(), mid);
                std::unique_ptr<optical::CerenkovGenerator> cgen;
                std::unique_ptr<optical::ScintillationGenerator> sgen;
                if (scint)
                    sgen = std::make_unique<optical::ScintillationGenerator>(
                        w.sci->host_ref(), dist);
                else
                    cgen = std::make_unique<optical::CerenkovGenerator>(
                        mv, w.cer->host_ref(), dist);
                for (long j = 0; j < want; ++j)
                {
                    optical::TrackInitializer p = scint ? (*sgen)(rng)
                                                        : (*cgen)(rng);
                    ++gen;
                    double const e = p.energy.value();
                    bool const efin = std::isfinite(e);
                    bool const tfin = std::isfinite(p.time);
                    bool const pfin = fin3(p.position);
                    bool const dfin = fin3(p.direction);
                    bool const polfin = fin3(p.polarization);
                    json jp{{"Efin", efin},
                            {"E", R(efin ? e : 0.0)},
                            {"tfin", tfin},
                            {"t", R(tfin ? p.time : 0.0)},
                            {"pfin", pfin},
                            {"dfin", dfin},
                            {"polfin", polfin}};
                    json pos = json::array();
                    for (int cc = 0; cc < 3; ++cc)
                        pos.push_back(R(pfin ? p.position[cc] : 0.0));
                    jp["pos"] = pos;
                    // oracle residuals
                    jp["rN"] = R(dfin ? std::fabs(norm3(p.direction) - 1) : 0.0);
                    jp["rP"] = R(polfin ? std::fabs(norm3(p.polarization) - 1) : 0.0);
                    jp["rDP"] = R(dfin && polfin
                                      ? std::fabs(dot3(p.direction, p.polarization))
                                      : 0.0);
                    double cone = 0;
                    if (!scint && dfin && efin)
                    {
                        double ne = interp(t, e);
                        cone = std::fabs(dot3(p.direction, sdir) - 1 / (ne * bmean));
                        if (!std::isfinite(cone))
                            cone = 1;
                    }
                    jp["cone"] = R(cone);
                    double col = 0, upos = 0;
                    if (pfin)
                    {
                        Real3 wv{p.position[0] - s.pre[0],
                                 p.position[1] - s.pre[1],
                                 p.position[2] - s.pre[2]};
                        Real3 cr{wv[1] * sdir[2] - wv[2] * sdir[1],
                                 wv[2] * sdir[0] - wv[0] * sdir[2],
                                 wv[0] * sdir[1] - wv[1] * sdir[0]};
                        col = norm3(cr);
                        upos = chord > 0 ? dot3(wv, sdir) / chord : 0;
                    }
                    jp["col"] = R(col);
                    // parent-arrival bracket: the parent's speed along the step lies between
                    // the pre- and post-step speeds, so it reaches path length u L not before
                    // u L / v_max and not after u L / v_min
                    double ulo = std::min(1.0, std::max(0.0, upos - uslack));
                    double uhi = std::min(1.0, std::max(0.0, upos + uslack));
                    double dtlo = ulo * s.len / (c * bmaxv) * (1 - 1e-9);
                    double tslack = 16 * k_eps * (std::fabs(s.t0) + s.len / (c * bmaxv));
                    jp["tlo"] = R(s.t0 + dtlo - tslack);
                    bool hasup = bminv > 0;
                    double thi = 0;
                    if (hasup)
                    {
                        double dthi = uhi * s.len / (c * bminv) * (1 + 1e-9);
                        thi = s.t0 + dthi
                              + 16 * k_eps * (std::fabs(s.t0) + s.len / (c * bminv));
                        if (!std::isfinite(thi))
                        {
                            hasup = false;
                            thi = 0;
                        }
                    }
                    jp["hasup"] = hasup;
                    jp["thi"] = R(thi);
                    jp["x"] = {{"E", g17(e)},
                               {"t", g17(p.time)},
                               {"pos", g17v(p.position)},
                               {"dir", g17v(p.direction)},
                               {"pol", g17v(p.polarization)},
                               {"u", g17(upos)}};
                    phot.push_back(jp);
                }
            }
            catch (verif::DrawCapExceeded const&)
            {
                aborted = true;
            }
        }
        rec["phot"] = phot;
        rec["gen"] = gen;
        rec["aborted"] = aborted;
        rec["draws"] = rng.count();
        rec["rk"] = rk;

        std::string lencls = s.lencls;
        std::string cls = std::string(scint ? "scint" : "cer") + "|"
                          + (scint ? sp.name : t.name) + "|"
                          + (scint ? (s.edep == 0 ? "nodeposit"
                                                  : (mean_or > 10 ? "gauss" : "poisson"))
                                   : bcls)
                          + "|" + s.losscls + "|" + lencls + "|"
                          + (ps.charge == 0 ? "neutral" : "charged");
        rec["cls"] = cls;
        rec["x"]["bpre"] = g17(s.bpre);
        rec["x"]["bpost"] = g17(s.bpost);
        rec["x"]["epost"] = g17(s.epost);
        rec["x"]["invb"] = g17(invb);
        rec["x"]["nmax"] = g17(nmax);
        rec["x"]["len"] = g17(s.len);
        rec["x"]["t0"] = g17(s.t0);
        rec["x"]["edep"] = g17(s.edep);
        rec["x"]["pre"] = g17v(s.pre);
        rec["x"]["post"] = g17v(s.post);
        rec["x"]["n"] = std::to_string(dist.num_photons);

        // move the raw text out of the way of the ranker, rank, put it back
        json xraw = rec["x"];
        rec.erase("x");
        std::vector<json> px;
        for (auto& jp : rec["phot"])
        {
            px.push_back(jp["x"]);
            jp.erase("x");
        }
        rankify(rec);
        rec["x"] = xraw;
        for (std::size_t i = 0; i < px.size(); ++i)
            rec["phot"][i]["x"] = px[i];
        out(rec);

        // coverage bookkeeping (no expectations)
        ++cov.steps;
        cov.classes.insert(cls);
        bool below_or_nosource
            = (!scint
               && (ps.charge == 0 || s.len == 0 || invb * (1 - 4 * k_eps) > nmax))
              || (scint && (s.edep == 0 || s.len == 0));
        if (gen > 0 || below_or_nosource)
            cov.nontrivial.insert(cls);
        cov.per_proc[scint ? "scint" : "cer"] += 1;
        cov.photons_proc[scint ? "scint" : "cer"] += gen;
        if (!scint)
            cov.per_bcls[bcls] += 1;
        cov.photons += gen;
    }
    out({{"e", "Close"}, {"n", cov.steps}, {"photons", cov.photons}});
    {
        // coverage side file (not part of the trace): class tuples measured by the harness
        std::ofstream cf(outpath + ".cov.json");
        cf << json{{"steps", cov.steps},
                   {"photons", cov.photons},
                   {"classes", std::vector<std::string>(cov.classes.begin(),
                                                        cov.classes.end())},
                   {"nontrivial", std::vector<std::string>(cov.nontrivial.begin(),
                                                           cov.nontrivial.end())},
                   {"per_proc", cov.per_proc},
                   {"photons_proc", cov.photons_proc},
                   {"per_bcls", cov.per_bcls}}
                  .dump()
           << std::endl;
    }
    return 0;
}

//---------------------------------------------------------------------------//
// mode book: the offload / generator bookkeeping as a small state machine
//---------------------------------------------------------------------------//
using DistData = optical::GeneratorDistributionData;
using DistId = ItemId<DistData>;

int run_book(int argc, char** argv)
{
    if (argc < 5)
    {
        std::cerr << "usage: voptical book out seed n_runs\n";
        return 2;
    }
    std::string const outpath = argv[2];
    unsigned const seed = static_cast<unsigned>(std::strtoull(argv[3], nullptr, 10));
    long const nruns = std::atol(argv[4]);

    verif::NdjsonWriter out(outpath);
    World w;
    build_world(w, seed);
    auto xparams = std::make_shared<XorwowRngParams>(seed + 17);
    XorwowStore xstore(xparams->host_ref(), StreamId{0}, 1);
    XorwowRngEngine xeng(xparams->host_ref(), xstore.ref(), TrackSlotId{0});
    CountingEngine rng(xeng, std::size_t(1) << 40);

    out({{"e", "Config"}, {"seed", seed}, {"mode", "book"}});

    long nrec = 0;
    long sid_next = 1;
    for (long r = 0; r < nruns; ++r)
    {
        size_type const S = w.irand(1, 4);
        bool cer_on = w.u01() < 0.8, sci_on = w.u01() < 0.8;
        if (!cer_on && !sci_on)
            cer_on = true;
        size_type const cap = S + w.irand(0, 2 * int(S) + 1);
        size_type const initcap = w.irand(4, 60);
        size_type const autoflush = w.u01() < 0.3 ? 1 : w.irand(2, 25);
        int const nstep = w.irand(1, 5);

        // real state: resize() of OffloadStateData
        HostCRef<OffloadParamsData> params;
        params.setup.cerenkov = cer_on;
        params.setup.scintillation = sci_on;
        params.setup.capacity = cap;
        OffloadStateData<Ownership::value, MemSpace::host> store;
        resize(&store, params, StreamId{0}, S);
        OffloadStateData<Ownership::reference, MemSpace::host> st;
        st = store;

        OffloadBufferSize bs;  // cerenkov, scintillation, num_photons
        size_type ninit = 0;
        out({{"e", "BConfig"},
             {"run", r},
             {"slots", S},
             {"cap", cap},
             {"initcap", initcap},
             {"autoflush", autoflush},
             {"cer", cer_on},
             {"scint", sci_on},
             {"bufsizes",
              {st.cerenkov.size(), st.scintillation.size(), st.offsets.size(), st.step.size()}}});
        ++nrec;

        bool dead = false;
        for (int stp = 0; stp < nstep && !dead; ++stp)
        {
            // ---- the tracks of this step ----
            struct Slot
            {
                StepIn s;
                bool inactive, nostep;
                long sid;
            };
            std::vector<Slot> slots(S);
            for (size_type tsl = 0; tsl < S; ++tsl)
            {
                Slot& sl = slots[tsl];
                sl.s = make_step(w, true);
                // keep the photon numbers small: short steps, small deposits
                Table const& t = w.tables[sl.s.mat];
                double dmax = dndx_oracle(t, 1.0, 1.0);
                if (sl.s.len > 0)
                    sl.s.len = w.uni(0.2, 4.0) / dmax;
                Real3 d{0, 0, 1};
                for (int cc = 0; cc < 3; ++cc)
                    sl.s.post[cc] = sl.s.pre[cc] + d[cc] * sl.s.len;
                double u = w.u01();
                sl.s.edep = u < 0.2 ? 0.0
                                    : (u < 0.85 ? w.uni(0.2, 3.0) : w.uni(11, 20))
                                          / w.scints[sl.s.mat].yield;
                sl.inactive = w.u01() < 0.15;
                sl.nostep = w.u01() < 0.1;  // no optical material / zero pre-step speed
                sl.sid = sid_next++;
                sl.s.t0 = static_cast<double>(sl.sid);  // the tag travels in the time field

                // GLUE OffloadGatherExecutor: store the pre-step data
                OffloadPreStepData& pre = st.step[TrackSlotId{tsl}];
                pre.speed = units::LightSpeed{sl.s.bpre};
                pre.pos = sl.s.pre;
                pre.time = sl.s.t0;
                pre.material = sl.nostep ? OpticalMaterialId{}
                                         : OpticalMaterialId{size_type(sl.s.mat)};
            }

            for (int proc = 0; proc < 2 && !dead; ++proc)
            {
                bool const scint = proc == 1;
                if ((scint && !sci_on) || (!scint && !cer_on))
                    continue;
                auto& buffer = scint ? st.scintillation : st.cerenkov;
                size_type& bsize = scint ? bs.scintillation : bs.cerenkov;
                // GLUE *OffloadAction::step_impl: capacity check
                if (bsize + S > buffer.size())
                {
                    out({{"e", "BError"},
                         {"run", r},
                         {"kind", "capacity"},
                         {"proc", scint ? "scint" : "cer"},
                         {"size", bsize},
                         {"slots", S},
                         {"cap", buffer.size()}});
                    ++nrec;
                    dead = true;
                    break;
                }
                json jslots = json::array();
                for (size_type tsl = 0; tsl < S; ++tsl)
                {
                    Slot& sl = slots[tsl];
                    // GLUE *OffloadExecutor: clear, guards, call the real pre-generator
                    DistData& dd = buffer[DistId(bsize + tsl)];
                    dd = {};
                    OffloadPreStepData const& pre = st.step[TrackSlotId{tsl}];
                    bool skip = !pre || sl.inactive;
                    bool called = false;
                    if (!skip)
                    {
                        auto particle = make_particle(w, sl.s.part, sl.s.epost);
                        auto sim = make_sim(w, sl.s.len);
                        if (scint)
                        {
                            called = true;
                            ScintillationOffload off(particle,
                                                     sim,
                                                     sl.s.post,
                                                     units::MevEnergy{sl.s.edep},
                                                     w.sci->host_ref(),
                                                     pre);
                            dd = off(rng);
                        }
                        else if (particle.charge() != zero_quantity())
                        {
                            called = true;
                            optical::MaterialView mv(w.omat->host_ref(), pre.material);
                            CerenkovOffload off(
                                particle, sim, mv, sl.s.post, w.cer->host_ref(), pre);
                            dd = off(rng);
                        }
                    }
                    jslots.push_back({{"sid", sl.sid},
                                      {"n", static_cast<long>(dd.num_photons)},
                                      {"valid", static_cast<bool>(dd)},
                                      {"called", called}});
                }
                size_type const start = bsize;
                // REAL: compaction and count
                bsize = detail::remove_if_invalid(buffer, start, start + S, StreamId{0});
                size_type counted
                    = detail::count_num_photons(buffer, start, bsize, StreamId{0});
                bs.num_photons += counted;
                json jbuf = json::array();
                for (size_type i = 0; i < bsize; ++i)
                {
                    DistData const& dd = buffer[DistId(i)];
                    jbuf.push_back({{"sid", static_cast<long>(dd.time)},
                                    {"n", static_cast<long>(dd.num_photons)},
                                    {"valid", static_cast<bool>(dd)}});
                }
                out({{"e", "BOffload"},
                     {"run", r},
                     {"step", stp},
                     {"proc", scint ? "scint" : "cer"},
                     {"slots", jslots},
                     {"size_before", start},
                     {"size_after", bsize},
                     {"counted", counted},
                     {"pending_after", bs.num_photons},
                     {"buf", jbuf}});
                ++nrec;
            }
            if (dead)
                break;

            // ---- generator actions (cerenkov first, then scintillation) ----
            for (int proc = 0; proc < 2 && !dead; ++proc)
            {
                bool const scint = proc == 1;
                if ((scint && !sci_on) || (!scint && !cer_on))
                    continue;
                auto& buffer = scint ? st.scintillation : st.cerenkov;
                size_type& bsize = scint ? bs.scintillation : bs.cerenkov;
                json rec{{"e", "BGenerate"},
                         {"run", r},
                         {"step", stp},
                         {"proc", scint ? "scint" : "cer"},
                         {"ninit_before", ninit},
                         {"pending_before", bs.num_photons},
                         {"size", bsize}};
                // GLUE *GeneratorAction::step_impl
                if (ninit + bs.num_photons < autoflush)
                {
                    rec["flushed"] = false;
                    rec["offsets"] = json::array();
                    rec["count"] = 0;
                    rec["work"] = json::array();
                    rec["ninit_after"] = ninit;
                    rec["pending_after"] = bs.num_photons;
                    out(rec);
                    ++nrec;
                    continue;
                }
                if (ninit + bs.num_photons > initcap)
                {
                    out({{"e", "BError"},
                         {"run", r},
                         {"kind", "initcap"},
                         {"proc", scint ? "scint" : "cer"},
                         {"need", ninit + bs.num_photons},
                         {"cap", initcap}});
                    ++nrec;
                    dead = true;
                    break;
                }
                if (bsize == 0)
                {
                    // as coded: CELER_ASSERT(buffer_size > 0), then offsets.back() of an
                    // empty span.  Not driven (undefined behaviour); logged as an event.
                    out({{"e", "BEmptyGenerate"},
                         {"run", r},
                         {"proc", scint ? "scint" : "cer"},
                         {"ninit", ninit},
                         {"pending", bs.num_photons},
                         {"autoflush", autoflush}});
                    ++nrec;
                    continue;
                }
                rec["flushed"] = true;
                CountingEngine grng(xeng, 2000000);  // draw cap of one flush
                try
                {
                // REAL: prefix sums
                size_type count = detail::inclusive_scan_photons(
                    buffer, st.offsets, bsize, StreamId{0});
                auto offsets = st.offsets[ItemRange<size_type>(
                    ItemId<size_type>(0), ItemId<size_type>(bsize))];
                json joff = json::array();
                for (size_type o : offsets)
                    joff.push_back(static_cast<long>(o));
                rec["offsets"] = joff;
                rec["count"] = count;
                // GLUE *GeneratorExecutor (one thread per track slot), REAL
                // LocalWorkCalculator, find_distribution_index and generators
                size_type const total_work = offsets.back();
                json work = json::array();
                for (size_type tid = 0; tid < S; ++tid)
                {
                    size_type local
                        = LocalWorkCalculator<size_type>{total_work, S}(tid);
                    json items = json::array();
                    for (size_type i = 0; i < local; ++i)
                    {
                        size_type idx = i * S + tid;
                        size_type didx = detail::find_distribution_index(offsets, idx);
                        json it{{"idx", idx}, {"dist", didx}, {"init", ninit + idx}};
                        if (didx < bsize)
                        {
                            DistData const& dd = buffer[DistId(didx)];
                            it["sid"] = static_cast<long>(dd.time);
                            bool ok = false;
                            if (dd)
                            {
                                optical::TrackInitializer p;
                                if (scint)
                                {
                                    optical::ScintillationGenerator g(w.sci->host_ref(), dd);
                                    p = g(grng);
                                }
                                else
                                {
                                    optical::MaterialView mv(w.omat->host_ref(), dd.material);
                                    optical::CerenkovGenerator g(mv, w.cer->host_ref(), dd);
                                    p = g(grng);
                                }
                                // the photon belongs to the tagged step: its time starts at
                                // the tag (tags are integers, delays are << 1 s)
                                ok = std::isfinite(p.time)
                                     && static_cast<long>(std::floor(p.time))
                                            == static_cast<long>(dd.time);
                            }
                            it["ok"] = ok;
                        }
                        else
                        {
                            it["sid"] = -1;
                            it["ok"] = false;
                        }
                        items.push_back(it);
                    }
                    work.push_back({{"tid", tid}, {"local", local}, {"items", items}});
                }
                rec["work"] = work;
                ninit += count;
                bs.num_photons -= count;
                bsize = 0;
                rec["ninit_after"] = ninit;
                rec["pending_after"] = bs.num_photons;
                out(rec);
                ++nrec;
                }
                catch (verif::DrawCapExceeded const&)
                {
                    // a generator did not return within the draw cap: observed event
                    out({{"e", "BAbort"}, {"run", r}, {"proc", scint ? "scint" : "cer"}});
                    ++nrec;
                    dead = true;
                }
            }
            // ---- launch: the optical loop consumes the initializers ----
            if (!dead && ninit > 0)
            {
                out({{"e", "BLaunch"}, {"run", r}, {"ninit", ninit}});
                ++nrec;
                ninit = 0;
            }
        }
        out({{"e", "BEnd"}, {"run", r}});
        ++nrec;
    }
    out({{"e", "Close"}, {"n", nrec}});
    return 0;
}
}  // namespace

int main(int argc, char** argv)
{
    if (argc < 2)
    {
        std::cerr << "usage: voptical steps|book ...\n";
        return 2;
    }
    std::string mode = argv[1];
    try
    {
        if (mode == "steps")
            return run_steps(argc, argv);
        if (mode == "book")
            return run_book(argc, argv);
    }
    catch (std::exception const& e)
    {
        std::cerr << "voptical: exception: " << e.what() << std::endl;
        return 3;
    }
    std::cerr << "unknown mode " << mode << "\n";
    return 2;
}
