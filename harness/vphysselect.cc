// vphysselect (X07): discrete-process and model selection of the physics step.
//
// Drives the REAL PhysicsParams / PhysicsTrackView / PhysicsStepView / calc_physics_step_limit /
// select_discrete_interaction (and, in loop mode, the real stepping loop with its PreStepExecutor,
// TrackUpdater and DiscreteSelectExecutor) through public headers and logs ndjson with arguments
// and results.  It computes NO expected values: spec/PhysSelectTrace.tla decides.
//
//   api  <in.json> <out.ndjson>
//        in.json = {"D": 8, "LS": 2, "cfgs": [cfg...], "scen": [...]}.  Every cfg describes hand-made
//        Process / Model classes (TabProcess / TabModel below, registered through the public
//        Process / Model API).  All tables are PLATEAU tables on the log grid 1, 2, 4, ... MeV:
//        grid points 2k-2 and 2k-1 carry the value of "level" k, the level energy 1.5 * 4^(k-1) MeV
//        lies inside the flat bin, so XsCalculator / RangeCalculator return the tabulated small
//        integer exactly; with min_eprime_over_e = 4^-d the scaled energy xi*E is again a level
//        energy.  Energies are named by integer POSITIONS on that axis (0 = stopped, 2k = grid point
//        4^(k-1) MeV, 2k+1 = level k); lengths and mean free paths are multiples of 1/LS; uniforms
//        are a/D (a = D stands for the largest double below one) fed through a scripted 32-bit
//        engine into the production GenerateCanonical32.  Every logged quantity is therefore an
//        exact small integer (the record counts the values that were not: "inexact").
//        Records: Config (input + construction outcome + read-back through the track view),
//        Pre (initialise, set MFP, calc_physics_step_limit; then for every scripted post-step
//        energy and uniforms: reset MFP, select_discrete_interaction), Close.
//   loop <runs.json> <out.ndjson>
//        real Stepper on the hand-built EM problem of vproblem.hh (Klein-Nishina, Bethe-Heitler,
//        Moller-Bhabha [integral approach], e+ annihilation [hardwired, at rest]); observers after
//        pre-step, along-step, discrete-select and post-step log the MFP bookkeeping, the
//        per-process cross sections, the limits and the selected actions per track and step
//        (doubles as dense ranks per run, the candidates mfp/xs and mfp - step*xs as brackets).
#include <cmath>
#include <fstream>
#include <functional>
#include <map>
#include <set>
#include <sstream>

#include "corecel/data/CollectionStateStore.hh"
#include "corecel/io/Logger.hh"
#include "corecel/sys/ActionInterface.hh"
#include "corecel/sys/ActionRegistry.hh"
#include "celeritas/global/ActionInterface.hh"
#include "celeritas/global/CoreState.hh"
#include "celeritas/global/CoreTrackView.hh"
#include "celeritas/global/Stepper.hh"
#include "celeritas/grid/ValueGridBuilder.hh"
#include "celeritas/mat/MaterialParams.hh"
#include "celeritas/mat/MaterialTrackView.hh"
#include "celeritas/phys/Model.hh"
#include "celeritas/phys/ParticleParams.hh"
#include "celeritas/phys/ParticleTrackView.hh"
#include "celeritas/phys/PhysicsParams.hh"
#include "celeritas/phys/PhysicsStepUtils.hh"
#include "celeritas/phys/PhysicsStepView.hh"
#include "celeritas/phys/PhysicsTrackView.hh"
#include "celeritas/phys/Primary.hh"
#include "celeritas/phys/Process.hh"
#include "celeritas/random/detail/GenerateCanonical32.hh"
#include "celeritas/random/distribution/GenerateCanonical.hh"

#include "vjson.hh"
#include "vproblem.hh"

namespace verif
{
//! Engine returning a scripted sequence of 32-bit words (same shape as the production engine)
struct ScriptedEngine
{
    using result_type = unsigned int;
    static constexpr result_type min() { return 0u; }
    static constexpr result_type max() { return 0xffffffffu; }
    result_type operator()()
    {
        ++draws;
        if (pos >= words.size())
        {
            ++overdrawn;
            return 0u;
        }
        return words[pos++];
    }
    std::vector<unsigned int> words;
    std::size_t pos{0};
    std::size_t draws{0};
    std::size_t overdrawn{0};
};
}  // namespace verif

namespace celeritas
{
//! Same canonical generation as the production engine (two 32-bit words per double)
template<class RealType>
class GenerateCanonical<verif::ScriptedEngine, RealType>
{
  public:
    using real_type = RealType;
    using result_type = RealType;
    result_type operator()(verif::ScriptedEngine& rng) { return detail::GenerateCanonical32<RealType>()(rng); }
};
}  // namespace celeritas

using namespace celeritas;
using verif::json;
using CoreStateHost = CoreState<MemSpace::host>;
using CoreStateDevice = CoreState<MemSpace::device>;

namespace
{
//---------------------------------------------------------------------------//
template<class T>
T get(json const& j, char const* k, T def)
{
    return j.contains(k) ? j[k].get<T>() : def;
}

//! Energy [MeV] of an integer position on the log axis (0 = stopped)
double energy_of(int pos)
{
    if (pos <= 0)
        return 0.0;
    double base = std::ldexp(1.0, 2 * (pos / 2 - 1));  // 4^(pos/2 - 1)
    return (pos % 2) ? 1.5 * base : base;
}

//! Plateau table: grid 1, 2, 4, ... (2 nl points), value of level k at points 2k-2, 2k-1
std::unique_ptr<ValueGridLogBuilder> plateau(std::vector<double> const& lev)
{
    std::vector<double> v;
    for (double x : lev)
    {
        v.push_back(x);
        v.push_back(x);
    }
    return std::make_unique<ValueGridLogBuilder>(1.0, std::ldexp(1.0, int(v.size()) - 1), std::move(v));
}

std::vector<double> to_doubles(json const& a, double scale = 1.0)
{
    std::vector<double> r;
    for (auto const& x : a)
        r.push_back(x.get<double>() * scale);
    return r;
}

//---------------------------------------------------------------------------//
// Hand-made model / process (public Model / Process API)
struct ModelDef
{
    std::string label;
    struct App
    {
        int pt, lo, hi;
    };
    std::vector<App> apps;
    json micro;  // [] or [[a_1..a_nl], [b_1..b_nl]] micro xs of the two elements of material 1
};

class TabModel final : public Model, public ConcreteAction
{
  public:
    TabModel(ActionId id, ModelDef def, int nl)
        : ConcreteAction(id, def.label, "hand-made model (verification harness)"), def_(std::move(def)), nl_(nl)
    {
    }
    SetApplicability applicability() const final
    {
        SetApplicability result;
        for (auto const& a : def_.apps)
        {
            Applicability ap;
            ap.particle = ParticleId(a.pt);
            ap.lower = units::MevEnergy{energy_of(a.lo)};
            ap.upper = units::MevEnergy{energy_of(a.hi)};
            result.insert(ap);
        }
        return result;
    }
    MicroXsBuilders micro_xs(Applicability applic) const final
    {
        MicroXsBuilders b;
        if (def_.micro.empty())
            return b;
        if (applic.material.get() == 0)
        {
            // single-element material: one builder (never stored)
            b.push_back(plateau(std::vector<double>(nl_, 1.0)));
            return b;
        }
        for (auto const& el : def_.micro)
            b.push_back(plateau(to_doubles(el)));
        return b;
    }
    void step(CoreParams const&, CoreStateHost&) const final {}
    void step(CoreParams const&, CoreStateDevice&) const final {}

  private:
    ModelDef def_;
    int nl_;
};

struct ProcDef
{
    std::string label;
    bool integral{false};
    std::vector<ModelDef> models;
    json xs;  // [pt][mat] -> [] | [v_1..v_nl]
    json eloss;  // [pt][mat] -> [] | [R_1..R_nl] (range in units of 1/LS)
};

class TabProcess final : public Process
{
  public:
    TabProcess(ProcDef def, int nl, int ls) : def_(std::move(def)), nl_(nl), ls_(ls) {}
    VecModel build_models(ActionIdIter start_id) const final
    {
        VecModel r;
        for (auto const& m : def_.models)
            r.push_back(std::make_shared<TabModel>(*start_id++, m, nl_));
        return r;
    }
    StepLimitBuilders step_limits(Applicability applic) const final
    {
        StepLimitBuilders b;
        int pt = applic.particle.get(), mat = applic.material.get();
        auto pick = [&](json const& t) -> json {
            if (!t.is_array() || pt >= int(t.size()) || !t[pt].is_array() || mat >= int(t[pt].size()))
                return json::array();
            return t[pt][mat];
        };
        json x = pick(def_.xs);
        if (!x.empty())
            b[ValueGridType::macro_xs] = plateau(to_doubles(x));
        json r = pick(def_.eloss);
        if (!r.empty())
        {
            b[ValueGridType::range] = plateau(to_doubles(r, 1.0 / ls_));
            b[ValueGridType::energy_loss] = plateau(std::vector<double>(nl_, 1.0));
        }
        return b;
    }
    bool use_integral_xs() const final { return def_.integral; }
    std::string_view label() const final { return def_.label; }

  private:
    ProcDef def_;
    int nl_;
    int ls_;
};

//---------------------------------------------------------------------------//
struct ApiWorld
{
    std::shared_ptr<MaterialParams> mats;
    std::shared_ptr<ParticleParams> particles;
    int D{8};
    int LS{2};
    long inexact{0};

    //! v * scale as an integer; counts values that are not exactly representable that way
    long exact(double v, double scale)
    {
        double s = v * scale;
        double r = std::nearbyint(s);
        if (!(s == r) || std::fabs(r) > 1e9)
        {
            ++inexact;
            if (!(std::fabs(r) <= 1e9))
                return -999999;
        }
        return long(r);
    }
};

void build_world(ApiWorld& w)
{
    using namespace units;
    MaterialParams::Input minp;
    minp.elements = {{AtomicNumber{13}, AmuMass{26.98}, {}, "Al"}, {AtomicNumber{29}, AmuMass{63.55}, {}, "Cu"}};
    minp.materials = {{native_value_from(MolCcDensity{0.1}), 293.0, MatterState::solid, {{ElementId{0}, 1.0}}, "one"},
                      {native_value_from(MolCcDensity{0.1}),
                       293.0,
                       MatterState::solid,
                       {{ElementId{0}, 0.25}, {ElementId{1}, 0.75}},
                       "two"}};
    w.mats = std::make_shared<MaterialParams>(std::move(minp));
    ParticleParams::Input defs;
    defs.push_back({"gamma", pdg::gamma(), zero_quantity(), zero_quantity(), constants::stable_decay_constant});
    defs.push_back({"electron", pdg::electron(), MevMass{0.5}, ElementaryCharge{-1}, constants::stable_decay_constant});
    defs.push_back({"positron", pdg::positron(), MevMass{0.5}, ElementaryCharge{1}, constants::stable_decay_constant});
    w.particles = std::make_shared<ParticleParams>(std::move(defs));
}

std::string safe_label(ActionRegistry const& reg, ActionId id)
{
    if (!id)
        return "none";
    if (!(id < reg.num_actions()))
        return "INVALID-ACTION-ID";
    return std::string(reg.id_to_label(id));
}

struct Built
{
    std::shared_ptr<ActionRegistry> reg;
    std::shared_ptr<PhysicsParams> phys;
    int nl{0};
    int d{1};
};

using MatStore = CollectionStateStore<MaterialStateData, MemSpace::host>;
using ParStore = CollectionStateStore<ParticleStateData, MemSpace::host>;
using PhysStore = CollectionStateStore<PhysicsStateData, MemSpace::host>;

//! Construct the real PhysicsParams from a configuration; log the outcome and the read-back
json build_config(ApiWorld& w, json const& cfg, Built& out)
{
    json rec;
    rec["e"] = "Config";
    rec["cfg"] = cfg;
    int const nl = cfg["nl"].get<int>();
    int const d = cfg["d"].get<int>();
    out.nl = nl;
    out.d = d;
    out.reg = std::make_shared<ActionRegistry>();
    PhysicsParams::Input pin;
    pin.particles = w.particles;
    pin.materials = w.mats;
    for (auto const& pj : cfg["procs"])
    {
        ProcDef pd;
        pd.label = pj["label"].get<std::string>();
        pd.integral = pj["integral"].get<bool>();
        pd.xs = pj["xs"];
        pd.eloss = pj["eloss"];
        for (auto const& mj : pj["models"])
        {
            ModelDef md;
            md.label = mj["label"].get<std::string>();
            md.micro = mj["micro"];
            for (auto const& aj : mj["apps"])
                md.apps.push_back({aj["pt"].get<int>(), aj["lo"].get<int>(), aj["hi"].get<int>()});
            pd.models.push_back(std::move(md));
        }
        pin.processes.push_back(std::make_shared<TabProcess>(std::move(pd), nl, w.LS));
    }
    pin.action_registry = out.reg.get();
    pin.options.min_eprime_over_e = std::ldexp(1.0, -2 * d);
    if (get<bool>(cfg, "alpha1", false))
    {
        pin.options.max_step_over_range = 1.0;
        pin.options.min_range = 0.25;
    }
    else
    {
        pin.options.min_range = 1e6;
    }
    pin.options.fixed_step_limiter = double(cfg["fixed"].get<int>()) / w.LS;
    pin.options.disable_integral_xs = get<bool>(cfg, "disable_integral", false);
    try
    {
        out.phys = std::make_shared<PhysicsParams>(std::move(pin));
    }
    catch (RuntimeError const& ex)
    {
        rec["built"] = false;
        rec["what"] = std::string(ex.what()).substr(0, 300);
        out.phys = nullptr;
        return rec;
    }
    rec["built"] = true;
    // ---- read-back through the public views
    auto const& pref = out.phys->host_ref();
    PhysStore pstate(pref, 1);
    json parts = json::array();
    for (int pt = 0; pt < int(w.particles->size()); ++pt)
    {
        json pj;
        json mats = json::array();
        for (int mat = 0; mat < int(w.mats->size()); ++mat)
        {
            PhysicsTrackView phys(pref, pstate.ref(), ParticleId(pt), MaterialId(mat), TrackSlotId{0});
            json mj;
            int np = phys.num_particle_processes();
            mj["np"] = np;
            mj["atrest"] = phys.has_at_rest();
            mj["elossp"] = phys.eloss_ppid() ? int(phys.eloss_ppid().get()) + 1 : 0;
            json procs = json::array();
            for (int pp = 0; pp < np; ++pp)
            {
                ParticleProcessId ppid(pp);
                json qj;
                qj["proc"] = int(phys.process(ppid).get()) + 1;
                auto const& ix = phys.integral_xs_process(ppid);
                qj["integral"] = bool(ix);
                int emaxpos = -1;
                if (ix)
                {
                    double emax = pref.reals[ix.energy_max_xs[mat]];
                    // position on the energy axis: number of level energies below it (abstraction)
                    int c = 0;
                    for (int k = 0; k <= nl + 2; ++k)
                        if (energy_of(2 * k + 1) < emax)
                            ++c;
                    emaxpos = (emax > 0) ? 2 * c : 0;
                }
                qj["emaxpos"] = emaxpos;
                qj["hasxs"] = bool(phys.value_grid(ValueGridType::macro_xs, ppid));
                qj["hasrange"] = bool(phys.value_grid(ValueGridType::range, ppid));
                // model lookup at every position of the axis
                json fm = json::array();
                auto find_model = phys.make_model_finder(ppid);
                for (int pos = 0; pos <= 2 * nl + 5; ++pos)
                {
                    auto pmid = find_model(units::MevEnergy{energy_of(pos)});
                    if (!pmid)
                    {
                        fm.push_back({{"m", "none"}, {"t", false}, {"rt", true}});
                        continue;
                    }
                    ModelId mid = phys.model_id(pmid);
                    std::string lab = safe_label(*out.reg, phys.model_to_action(mid));
                    bool roundtrip = (phys.action_to_model(phys.model_to_action(mid)) == mid);
                    bool hastab = bool(phys.value_table(pmid));
                    fm.push_back({{"m", lab}, {"t", hastab}, {"rt", roundtrip}});
                }
                qj["fm"] = fm;
                procs.push_back(qj);
            }
            mj["procs"] = procs;
            mats.push_back(mj);
        }
        pj["mats"] = mats;
        parts.push_back(pj);
    }
    rec["rb"] = parts;
    auto const& sc = pref.scalars;
    rec["acts"] = {{"discrete", safe_label(*out.reg, sc.discrete_action())},
                   {"range", safe_label(*out.reg, sc.range_action())},
                   {"reject", safe_label(*out.reg, sc.integral_rejection_action())},
                   {"failure", safe_label(*out.reg, sc.failure_action())},
                   {"fixed", safe_label(*out.reg, sc.fixed_step_action)},
                   {"nmodels", int(sc.num_models)},
                   {"maxpp", int(sc.max_particle_processes)}};
    return rec;
}

//! words of the scripted engine for the uniform a/D (a = D: largest double below one)
void push_uniform(verif::ScriptedEngine& eng, int a, int D)
{
    if (a >= D)
    {
        eng.words.push_back(0xffffffffu);
        eng.words.push_back(0x1fffffu);
    }
    else
    {
        // a/D = upper / 2^32
        std::uint64_t upper = (std::uint64_t(a) << 32) / std::uint64_t(D);
        eng.words.push_back(static_cast<unsigned int>(upper));
        eng.words.push_back(0u);
    }
}

json run_scenario(ApiWorld& w, Built& b, json const& sc)
{
    auto const& pref = b.phys->host_ref();
    int const pt = sc["pt"].get<int>();
    int const mat = sc["mat"].get<int>();
    int const e0 = sc["e0"].get<int>();
    long const m = sc["m"].get<long>();
    // three track slots; the scenario runs in one of them, the others must stay untouched
    size_type const nslot = 3;
    TrackSlotId const slot{size_type((e0 + m) % 3)};
    MatStore mstate(w.mats->host_ref(), nslot);
    ParStore pstate(w.particles->host_ref(), nslot);
    PhysStore phstate(pref, nslot);
    MaterialTrackView material(w.mats->host_ref(), mstate.ref(), slot);
    ParticleTrackView particle(w.particles->host_ref(), pstate.ref(), slot);
    material = MaterialTrackView::Initializer_t{MaterialId(mat)};
    auto set_energy = [&](int pos) {
        ParticleTrackView::Initializer_t pi;
        pi.particle_id = ParticleId(pt);
        pi.energy = units::MevEnergy{energy_of(pos)};
        particle = pi;
    };
    set_energy(e0);
    PhysicsTrackView phys(pref, phstate.ref(), ParticleId(pt), MaterialId(mat), slot);
    PhysicsStepView pstep(pref, phstate.ref(), slot);
    // poison every slot's scratch and state
    for (size_type i = 0; i < phstate.ref().per_process_xs.size(); ++i)
        phstate.ref().per_process_xs[ItemId<real_type>(i)] = 123.0;
    for (size_type t = 0; t < nslot; ++t)
    {
        phstate.ref().state[TrackSlotId{t}].interaction_mfp = 7.0;
        phstate.ref().state[TrackSlotId{t}].macro_xs = 77.0;
    }
    auto others_untouched = [&] {
        size_type const mpp = pref.scalars.max_particle_processes;
        for (size_type t = 0; t < nslot; ++t)
        {
            if (t == slot.get())
                continue;
            if (phstate.ref().state[TrackSlotId{t}].interaction_mfp != 7.0
                || phstate.ref().state[TrackSlotId{t}].macro_xs != 77.0)
                return false;
            for (size_type p = 0; p < mpp; ++p)
                if (phstate.ref().per_process_xs[ItemId<real_type>(t * mpp + p)] != 123.0)
                    return false;
        }
        // the unused tail of the scenario's own scratch row
        for (size_type p = phys.num_particle_processes(); p < mpp; ++p)
            if (phstate.ref().per_process_xs[ItemId<real_type>(slot.get() * mpp + p)] != 123.0)
                return false;
        return true;
    };
    long const inexact0 = w.inexact;
    json rec;
    rec["e"] = "Pre";
    rec["c"] = sc["c"];
    rec["pt"] = pt;
    rec["mat"] = mat;
    rec["e0"] = e0;
    rec["m"] = m;
    rec["slot"] = int(slot.get());
    // (the state was poisoned) initialise through the public initializer
    phys = PhysicsTrackView::Initializer_t{};
    rec["hm0"] = phys.has_interaction_mfp();
    phys.interaction_mfp(double(m) / w.LS);
    rec["hm1"] = phys.has_interaction_mfp();
    int const np = phys.num_particle_processes();
    StepLimit lim = calc_physics_step_limit(material, particle, phys, pstep);
    rec["others"] = others_untouched();
    json pp = json::array();
    for (int p = 0; p < np; ++p)
        pp.push_back(w.exact(pstep.per_process_xs(ParticleProcessId(p)), 1.0));
    rec["pp"] = pp;
    rec["tot"] = w.exact(pstep.macro_xs(), 1.0);
    bool const inf = std::isinf(lim.step);
    rec["stepinf"] = inf;
    rec["step"] = inf ? 0 : w.exact(lim.step, w.LS);
    rec["act"] = safe_label(*b.reg, lim.action);
    rec["m1"] = w.exact(phys.interaction_mfp(), w.LS);
    rec["rng"] = (phys.eloss_ppid() && e0 > 0) ? w.exact(phstate.ref().state[slot].dedx_range, w.LS) : -1;
    json sels = json::array();
    for (auto const& sj : sc["sel"])
    {
        int const e1 = sj[0].get<int>();
        set_energy(e1);
        // what DiscreteSelectExecutor does first
        phys.reset_interaction_mfp();
        verif::ScriptedEngine eng;
        for (int k = 1; k <= 3; ++k)
            push_uniform(eng, sj[k].get<int>(), w.D);
        pstep.element({});
        ActionId act = select_discrete_interaction(material.make_material_view(), particle, phys, pstep, eng);
        json oj;
        oj["e1"] = e1;
        oj["a"] = {sj[1], sj[2], sj[3]};
        oj["act"] = safe_label(*b.reg, act);
        oj["el"] = pstep.element() ? int(pstep.element().get()) : -1;
        oj["used"] = int(eng.draws);
        oj["over"] = int(eng.overdrawn);
        oj["hm2"] = phys.has_interaction_mfp();
        // unchanged: scratch, total, energy
        bool same = (w.exact(pstep.macro_xs(), 1.0) == rec["tot"].get<long>());
        for (int p = 0; p < np; ++p)
            same = same && (w.exact(pstep.per_process_xs(ParticleProcessId(p)), 1.0) == pp[p].get<long>());
        same = same && (particle.energy().value() == energy_of(e1)) && others_untouched();
        oj["same"] = same;
        sels.push_back(oj);
    }
    rec["sel"] = sels;
    rec["inexact"] = w.inexact - inexact0;
    return rec;
}

int mode_api(std::string const& in, std::string const& out)
{
    json inp;
    {
        std::ifstream f(in);
        if (!f)
        {
            std::cerr << "cannot read " << in << "\n";
            return 2;
        }
        f >> inp;
    }
    verif::NdjsonWriter wr(out);
    ApiWorld w;
    w.D = inp["D"].get<int>();
    w.LS = inp["LS"].get<int>();
    build_world(w);
    // scenarios by configuration id
    std::map<int, std::vector<json const*>> byc;
    for (auto const& sc : inp["scen"])
        byc[sc["c"].get<int>()].push_back(&sc);
    long nscen = 0, nsel = 0;
    wr(json{{"e", "Open"}, {"D", w.D}, {"LS", w.LS}});
    for (auto const& cfg : inp["cfgs"])
    {
        Built b;
        json rec = build_config(w, cfg, b);
        wr(rec);
        if (!b.phys)
            continue;
        for (json const* sc : byc[cfg["id"].get<int>()])
        {
            json r = run_scenario(w, b, *sc);
            nsel += r["sel"].size();
            wr(r);
            ++nscen;
        }
        wr.flush();
    }
    wr(json{{"e", "Close"}});
    std::cerr << "vphysselect api: " << inp["cfgs"].size() << " configurations, " << nscen << " pre-steps, " << nsel
              << " selections, " << w.inexact << " inexact values\n";
    return 0;
}

//---------------------------------------------------------------------------//
// LOOP MODE: the real stepping loop on the hand-built EM problem
//---------------------------------------------------------------------------//
char const* status_name(TrackStatus s)
{
    switch (s)
    {
        case TrackStatus::inactive: return "inactive";
        case TrackStatus::initializing: return "initializing";
        case TrackStatus::alive: return "alive";
        case TrackStatus::errored: return "errored";
        case TrackStatus::killed: return "killed";
        default: return "?";
    }
}

struct LoopShared
{
    ActionRegistry const* actions{nullptr};
    std::vector<json> pend;
    std::vector<bool> have;
    std::vector<Real3> dir1;
    // end-of-step MFP of the track last seen in the slot
    struct Last
    {
        int ev{-1}, tid{-1};
        double mfp{0};
    };
    std::vector<Last> last;
    std::vector<json> out;
    long nsteps{0};
};

//! q-units of a set of non-negative values: 2^-24 of the largest
struct Quanta
{
    double q{1};
    explicit Quanta(double vmax) : q(vmax > 0 ? vmax / double(1 << 24) : 1.0) {}
    long long operator()(double v) const { return std::llround(v / q); }
};

class LoopObserver final : public CoreStepActionInterface, public ConcreteAction
{
  public:
    LoopObserver(ActionId id, StepActionOrder order, std::string name, LoopShared* sh)
        : ConcreteAction(id, "verif-x07-" + name, "verification observer"), order_(order), name_(name), sh_(sh)
    {
    }
    StepActionOrder order() const final { return order_; }
    void step(CoreParams const& params, CoreStateHost& state) const final;
    void step(CoreParams const&, CoreStateDevice&) const final {}

  private:
    StepActionOrder order_;
    std::string name_;
    LoopShared* sh_;
};

void LoopObserver::step(CoreParams const& params, CoreStateHost& state) const
{
    LoopShared& sh = *sh_;
    for (size_type i = 0; i < state.size(); ++i)
    {
        CoreTrackView track(params.host_ref(), state.ref(), TrackSlotId{i});
        auto sim = track.make_sim_view();
        if (name_ == "pre")
        {
            sh.have[i] = false;
            if (sim.status() != TrackStatus::alive)
                continue;
            auto par = track.make_particle_view();
            auto phys = track.make_physics_view();
            auto pstep = track.make_physics_step_view();
            auto matv = track.make_material_view().make_material_view();
            auto const& pref = params.physics()->host_ref();
            json j;
            j["e"] = "LStep";
            j["slot"] = int(i) + 1;
            j["ev"] = int(sim.event_id().get());
            j["tid"] = int(sim.track_id().get());
            j["pt"] = int(par.particle_id().get());
            j["mat"] = int(track.make_material_view().material_id().get());
            j["ns0"] = int(sim.num_steps());
            auto const& la = sh.last[i];
            bool const cont = (la.ev == int(sim.event_id().get()) && la.tid == int(sim.track_id().get())
                               && sim.num_steps() > 0);
            j["cont"] = cont;
            j["rM_prev"] = cont ? la.mfp : 0.0;
            double const e0 = par.energy().value();
            double const xi = e0 * pref.scalars.min_eprime_over_e;
            j["rE_E0"] = e0;
            j["rE_xi"] = xi;
            j["stopped0"] = par.is_stopped();
            j["rM_mfp0"] = phys.interaction_mfp();
            int const np = phys.num_particle_processes();
            double vmax = pstep.macro_xs();
            for (int p = 0; p < np; ++p)
                vmax = std::max(vmax, double(pstep.per_process_xs(ParticleProcessId(p))));
            Quanta Q(vmax);
            json pp = json::array(), ppq = json::array(), x0 = json::array(), xxi = json::array(),
                 xem = json::array(), emax = json::array();
            for (int p = 0; p < np; ++p)
            {
                ParticleProcessId ppid(p);
                double v = pstep.per_process_xs(ppid);
                pp.push_back({{"rX_v", v}});
                ppq.push_back(Q(v));
                // environment facts: the cross section function of the process, probed through the public view
                x0.push_back({{"rX_v", phys.calc_xs(ppid, matv, units::MevEnergy{e0})}});
                xxi.push_back({{"rX_v", phys.calc_xs(ppid, matv, units::MevEnergy{xi})}});
                auto const& ix = phys.integral_xs_process(ppid);
                double em = ix ? double(pref.reals[ix.energy_max_xs[phys.material_id().get()]]) : 0.0;
                emax.push_back({{"rE_v", em}});
                xem.push_back({{"rX_v", ix ? phys.calc_xs(ppid, matv, units::MevEnergy{em}) : 0.0}});
            }
            j["pp"] = pp;
            j["ppq"] = ppq;
            j["x0"] = x0;
            j["xxi"] = xxi;
            j["xem"] = xem;
            j["emax"] = emax;
            j["rX_tot"] = pstep.macro_xs();
            j["totq"] = Q(pstep.macro_xs());
            j["rL_lim"] = sim.step_length();
            j["act0"] = safe_label(*sh.actions, sim.post_step_action());
            // candidates for the limit (each is one public call / one division of logged values)
            bool const hasel = bool(phys.eloss_ppid()) && !par.is_stopped();
            j["haseloss"] = bool(phys.eloss_ppid());
            j["rL_disc"] = pstep.macro_xs() > 0 ? phys.interaction_mfp() / pstep.macro_xs()
                                                : std::numeric_limits<double>::infinity();
            j["rL_rstep"] = hasel ? phys.range_to_step(phys.dedx_range()) : std::numeric_limits<double>::infinity();
            j["rL_fixed"] = pref.scalars.fixed_step_limiter > 0 ? double(pref.scalars.fixed_step_limiter)
                                                               : std::numeric_limits<double>::infinity();
            sh.pend[i] = std::move(j);
            sh.have[i] = true;
        }
        else if (name_ == "along")
        {
            if (!sh.have[i])
                continue;
            json& j = sh.pend[i];
            auto par = track.make_particle_view();
            auto phys = track.make_physics_view();
            auto pstep = track.make_physics_step_view();
            auto matv = track.make_material_view().make_material_view();
            j["st1"] = status_name(sim.status());
            j["act1"] = safe_label(*sh.actions, sim.post_step_action());
            j["rL_len"] = sim.step_length();
            double const e1 = par.energy().value();
            j["rE_E1"] = e1;
            j["stopped1"] = par.is_stopped();
            double const mfp1 = track.make_physics_view().interaction_mfp();
            j["rM_mfp1"] = mfp1;
            // bracket of the decrement mfp0 - len * total (both factors are logged)
            double const mfp0 = j["rM_mfp0"].get<double>();
            double const used = sim.step_length() * pstep.macro_xs();
            double const dec = mfp0 - used;
            double const tol = 1e-12 * (std::fabs(mfp0) + std::fabs(used)) + 1e-300;
            j["rM_declo"] = dec - tol;
            j["rM_dechi"] = dec + tol;
            json x1 = json::array();
            int const np = phys.num_particle_processes();
            for (int p = 0; p < np; ++p)
                x1.push_back({{"rX_v", phys.calc_xs(ParticleProcessId(p), matv, units::MevEnergy{e1})}});
            j["x1"] = x1;
            j["depq1"] = 0;
            j["rD_dep1"] = pstep.energy_deposition().value();
            sh.dir1[i] = track.make_geo_view().dir();
        }
        else if (name_ == "sel")
        {
            if (!sh.have[i])
                continue;
            json& j = sh.pend[i];
            auto pstep = track.make_physics_step_view();
            j["act2"] = safe_label(*sh.actions, sim.post_step_action());
            j["rM_mfp2"] = track.make_physics_view().interaction_mfp();
            j["el2"] = pstep.element() ? int(pstep.element().get()) : -1;
            j["rE_E2"] = track.make_particle_view().energy().value();
            j["st2"] = status_name(sim.status());
        }
        else if (name_ == "post")
        {
            if (!sh.have[i])
                continue;
            json& j = sh.pend[i];
            auto par = track.make_particle_view();
            auto pstep = track.make_physics_step_view();
            j["act3"] = safe_label(*sh.actions, sim.post_step_action());
            j["st3"] = status_name(sim.status());
            j["rE_E3"] = par.energy().value();
            j["rM_mfp3"] = track.make_physics_view().interaction_mfp();
            j["rD_dep3"] = pstep.energy_deposition().value();
            int nsec = 0;
            for (auto const& s : pstep.secondaries())
                if (s)
                    ++nsec;
            j["nsec"] = nsec;
            Real3 d = track.make_geo_view().dir();
            j["dirsame"] = (d[0] == sh.dir1[i][0] && d[1] == sh.dir1[i][1] && d[2] == sh.dir1[i][2]);
            sh.last[i].ev = j["ev"].get<int>();
            sh.last[i].tid = j["tid"].get<int>();
            sh.last[i].mfp = (sim.status() == TrackStatus::alive) ? track.make_physics_view().interaction_mfp() : 0.0;
            sh.out.push_back(std::move(j));
            sh.have[i] = false;
            ++sh.nsteps;
        }
    }
}

// Replace every "r?_*" raw double by its dense rank within its class ? (per run); +-inf keep their order
void rank_and_write(std::vector<json>& events, verif::NdjsonWriter& w)
{
    std::map<std::string, verif::Ranker> rk;
    std::function<void(json&, bool)> walk = [&](json& j, bool collect) {
        if (j.is_object())
        {
            for (auto it = j.begin(); it != j.end(); ++it)
            {
                std::string const& k = it.key();
                if (k.size() > 3 && k[0] == 'r' && k[2] == '_' && it.value().is_number())
                {
                    std::string cls(1, k[1]);
                    if (collect)
                        rk[cls].add(it.value().get<double>());
                    else
                        it.value() = rk[cls](it.value().get<double>());
                }
                else
                    walk(it.value(), collect);
            }
        }
        else if (j.is_array())
            for (auto& e : j)
                walk(e, collect);
    };
    for (auto& e : events)
        walk(e, true);
    for (auto& kv : rk)
        kv.second.finalize();
    for (auto& e : events)
    {
        walk(e, false);
        w(e);
    }
}

void do_loop_run(json const& run, verif::NdjsonWriter& w)
{
    std::vector<json> events;
    LoopShared sh;
    int const rid = get<int>(run, "id", 0);
    size_type const nslots = get<int>(run, "slots", 4);
    long const maxiters = get<int>(run, "maxiters", 2000);
    try
    {
        std::vector<Primary> prims;
        int maxev = 0;
        for (auto const& pj : run["prims"])
        {
            Primary p;
            p.particle_id = ParticleId(pj["pt"].get<int>());
            p.energy = units::MevEnergy{pj["E"].get<double>()};
            p.position = {pj["pos"][0].get<double>(), pj["pos"][1].get<double>(), pj["pos"][2].get<double>()};
            p.direction = make_unit_vector(
                Real3{pj["dir"][0].get<double>(), pj["dir"][1].get<double>(), pj["dir"][2].get<double>()});
            p.time = 0;
            p.event_id = EventId(pj["ev"].get<int>());
            maxev = std::max(maxev, pj["ev"].get<int>());
            prims.push_back(p);
        }
        verif::ProblemOptions po;
        po.max_events = maxev + 1;
        po.rng_seed = get<unsigned>(run, "rng_seed", 2024u);
        po.table_scale = get<double>(run, "table_scale", 1.0);
        po.dedx = get<double>(run, "dedx", 2.0);
        po.fixed_step = get<double>(run, "fixed_step", 0.0);
        po.fluct = get<bool>(run, "fluct", false);
        po.init_capacity = 8192;
        verif::Problem prob;
        verif::build_problem(prob, po);
        verif::finalize_problem(prob);
        auto reg = prob.action_reg;
        sh.actions = reg.get();
        reg->insert(std::make_shared<LoopObserver>(reg->next_id(), StepActionOrder::user_pre, "pre", &sh));
        reg->insert(std::make_shared<LoopObserver>(reg->next_id(), StepActionOrder::along, "along", &sh));
        reg->insert(std::make_shared<LoopObserver>(reg->next_id(), StepActionOrder::pre_post, "sel", &sh));
        reg->insert(std::make_shared<LoopObserver>(reg->next_id(), StepActionOrder::user_post, "post", &sh));

        StepperInput si;
        si.params = prob.core;
        si.stream_id = StreamId{0};
        si.num_track_slots = nslots;
        Stepper<MemSpace::host> stepper(si);
        sh.pend.assign(nslots, json{});
        sh.have.assign(nslots, false);
        sh.dir1.assign(nslots, Real3{0, 0, 0});
        sh.last.assign(nslots, LoopShared::Last{});

        // ---- LConfig: processes per particle in ParticleProcessId order; model ranges from
        // Model::applicability() (independent of the model finder)
        auto const& physp = *prob.physics;
        auto const& pref = physp.host_ref();
        json parts = json::array();
        for (auto pid : range(ParticleId{prob.particles->size()}))
        {
            json procs = json::array();
            for (ProcessId prid : physp.processes(pid))
            {
                json pj;
                pj["label"] = std::string(physp.process(prid)->label());
                pj["integral"] = physp.process(prid)->use_integral_xs() ;
                json models = json::array();
                for (auto mid : range(ModelId{physp.num_models()}))
                {
                    if (physp.process_id(mid) != prid)
                        continue;
                    for (Applicability const& a : physp.model(mid)->applicability())
                    {
                        if (a.particle != pid)
                            continue;
                        models.push_back({{"label", std::string(physp.model(mid)->label())},
                                          {"rE_lo", a.lower.value()},
                                          {"rE_hi", a.upper.value()}});
                    }
                }
                pj["models"] = models;
                procs.push_back(pj);
            }
            parts.push_back({{"pt", int(pid.get())}, {"procs", procs}});
        }
        json nel = json::array();
        for (auto mid : range(MaterialId{prob.mats->size()}))
            nel.push_back(int(prob.mats->get(mid).num_elements()));
        events.push_back({{"e", "LConfig"}, {"run", rid}, {"parts", parts}, {"nel", nel},
                          {"rE_zero", 0.0}, {"rM_zero", 0.0}, {"rX_zero", 0.0}, {"rL_zero", 0.0}, {"rD_zero", 0.0},
                          {"hasfixed", po.fixed_step > 0},
                          {"acts", {{"discrete", safe_label(*reg, pref.scalars.discrete_action())},
                                    {"range", safe_label(*reg, pref.scalars.range_action())},
                                    {"reject", safe_label(*reg, pref.scalars.integral_rejection_action())},
                                    {"fixed", safe_label(*reg, pref.scalars.fixed_step_action)}}}});

        long iters = 0;
        StepperResult r = stepper(make_span(prims));
        ++iters;
        while (r && iters < maxiters)
        {
            r = stepper();
            ++iters;
        }
        for (auto& j : sh.out)
            events.push_back(std::move(j));
        events.push_back({{"e", "LEnd"}, {"run", rid}, {"iters", int(iters)}, {"unfinished", bool(r)}});
    }
    catch (std::exception const& ex)
    {
        for (auto& j : sh.out)
            events.push_back(std::move(j));
        events.push_back({{"e", "Abort"}, {"run", rid}, {"what", std::string(ex.what()).substr(0, 400)}});
    }
    rank_and_write(events, w);
}

int mode_loop(std::string const& in, std::string const& out)
{
    json runs;
    {
        std::ifstream f(in);
        if (!f)
        {
            std::cerr << "cannot read " << in << "\n";
            return 2;
        }
        f >> runs;
    }
    verif::NdjsonWriter w(out);
    long n = 0;
    for (auto const& run : runs["runs"])
    {
        do_loop_run(run, w);
        w.flush();
        ++n;
    }
    w(json{{"e", "Close"}});
    std::cerr << "vphysselect loop: " << n << " runs, " << w.count() << " records\n";
    return 0;
}
}  // namespace

int main(int argc, char** argv)
{
    std::set_terminate([] {
        std::cerr << "vphysselect: terminate called\n";
        std::_Exit(3);
    });
    if (argc < 4)
    {
        std::cerr << "usage: vphysselect api|loop <in.json> <out.ndjson>\n";
        return 2;
    }
    std::string mode = argv[1];
    if (mode == "api")
        return mode_api(argv[2], argv[3]);
    if (mode == "loop")
        return mode_loop(argv[2], argv[3]);
    std::cerr << "unknown mode " << mode << "\n";
    return 2;
}
