// Hand-built e-/e+/gamma transport problem without Geant4 data (DESIGN.md 1, 3.3):
// Klein-Nishina, Bethe-Heitler conversion, Moller-Bhabha ionisation (e-, e+), e+
// annihilation, general linear along-step with mean or fluctuating loss, production
// cuts applied post-interaction, on test/geocel/data/two-boxes.org.json with a dense
// and a thin material.  Tables are synthetic but self-consistent (constant dE/dx so the
// range table is exactly its integral) and scaled by a seed-dependent factor: C01
// quantifies over "all tables".
#pragma once

#include <memory>
#include <string>
#include <vector>

#include "corecel/io/OutputRegistry.hh"
#include "corecel/math/Quantity.hh"
#include "corecel/sys/ActionRegistry.hh"
#include "corecel/data/AuxParamsRegistry.hh"
#include "celeritas/Constants.hh"
#include "celeritas/Quantities.hh"
#include "celeritas/Units.hh"
#include "celeritas/em/params/UrbanMscParams.hh"
#include "celeritas/em/process/ComptonProcess.hh"
#include "celeritas/em/process/EIonizationProcess.hh"
#include "celeritas/em/process/EPlusAnnihilationProcess.hh"
#include "celeritas/em/process/GammaConversionProcess.hh"
#include "celeritas/geo/GeoMaterialParams.hh"
#include "celeritas/geo/GeoParams.hh"
#include "celeritas/global/CoreParams.hh"
#include "celeritas/field/UniformFieldData.hh"
#include "celeritas/global/alongstep/AlongStepGeneralLinearAction.hh"
#include "celeritas/global/alongstep/AlongStepUniformMscAction.hh"
#include "celeritas/io/ImportProcess.hh"
#include "celeritas/io/detail/ImportDataConverter.hh"
#include "celeritas/mat/MaterialParams.hh"
#include "celeritas/phys/CutoffParams.hh"
#include "celeritas/phys/ImportedProcessAdapter.hh"
#include "celeritas/phys/PDGNumber.hh"
#include "celeritas/phys/ParticleParams.hh"
#include "celeritas/phys/PhysicsParams.hh"
#include "celeritas/random/RngParams.hh"
#include "celeritas/track/SimParams.hh"
#include "celeritas/track/TrackInitParams.hh"

#include "vscripted.hh"

namespace verif
{
using namespace celeritas;

struct ProblemOptions
{
    std::string geometry{"/repo/test/geocel/data/two-boxes.org.json"};
    bool fluct{false};
    double secondary_stack_factor{3.0};
    size_type init_capacity{4096};
    size_type max_events{64};
    TrackOrder track_order{TrackOrder::none};
    unsigned rng_seed{2024};
    double table_scale{1.0};  //!< seed-dependent scaling of all cross sections
    double dedx{2.0};  //!< MeV/cm in the dense material
    size_type max_streams{1};
    bool msc{false};  //!< Urban multiple scattering for e-/e+ with a synthetic transport cross section
    double fixed_step{0};  //!< PhysicsParamsOptions::fixed_step_limiter (charged particles), 0 = off
    double field_tesla{0};  //!< uniform magnetic field along (1,1,1)/sqrt(3) * value; 0 = linear propagation
    Script* script{nullptr};  //!< scripted physics instead of the EM processes
    double electron_mass{0.5109989461};
};

inline ImportPhysicsVector logvec(std::vector<double> x, std::vector<double> y)
{
    ImportPhysicsVector v;
    v.vector_type = ImportPhysicsVectorType::log;
    v.x = std::move(x);
    v.y = std::move(y);
    return v;
}

inline std::vector<double> loggrid(double lo, double hi, int n)
{
    std::vector<double> r(n);
    for (int i = 0; i < n; ++i)
        r[i] = lo * std::pow(hi / lo, double(i) / (n - 1));
    return r;
}

struct Problem
{
    std::shared_ptr<GeoParams> geo;
    std::shared_ptr<MaterialParams> mats;
    std::shared_ptr<GeoMaterialParams> geomat;
    std::shared_ptr<ParticleParams> particles;
    std::shared_ptr<CutoffParams> cutoff;
    std::shared_ptr<PhysicsParams> physics;
    std::shared_ptr<SimParams> sim;
    std::shared_ptr<TrackInitParams> init;
    std::shared_ptr<ActionRegistry> action_reg;
    std::shared_ptr<CoreParams> core;
    double electron_mass{0.5109989461};

    //! Everything up to (but excluding) CoreParams, so that the caller can still
    //! register actions / step collectors; call finalize() afterwards.
    CoreParams::Input inp;
};

inline void build_problem(Problem& p, ProblemOptions const& o)
{
    using namespace units;
    p.electron_mass = o.electron_mass;
    double const me = p.electron_mass;
    p.geo = std::make_shared<GeoParams>(o.geometry);
    MaterialParams::Input minp;
    minp.elements = {{AtomicNumber{13}, AmuMass{26.98}, {}, "Al"}};
    minp.materials
        = {{native_value_from(MolCcDensity{0.1}), 293.0, MatterState::solid, {{ElementId{0}, 1.0}}, "Al"},
           {native_value_from(MolCcDensity{1e-8}), 293.0, MatterState::gas, {{ElementId{0}, 1.0}}, "thin"}};
    p.mats = std::make_shared<MaterialParams>(std::move(minp));
    GeoMaterialParams::Input gm;
    gm.geometry = p.geo;
    gm.materials = p.mats;
    gm.volume_to_mat = {MaterialId{0}, MaterialId{1}, MaterialId{}};
    gm.volume_labels = {Label{"inner"}, Label{"world"}, Label{"[EXTERIOR]"}};
    p.geomat = std::make_shared<GeoMaterialParams>(std::move(gm));
    ParticleParams::Input defs;
    defs.push_back({"gamma", pdg::gamma(), zero_quantity(), zero_quantity(), constants::stable_decay_constant});
    defs.push_back({"electron", pdg::electron(), MevMass{me}, ElementaryCharge{-1}, constants::stable_decay_constant});
    defs.push_back({"positron", pdg::positron(), MevMass{me}, ElementaryCharge{1}, constants::stable_decay_constant});
    p.particles = std::make_shared<ParticleParams>(std::move(defs));
    CutoffParams::Input ci;
    ci.materials = p.mats;
    ci.particles = p.particles;
    ci.cutoffs = {{pdg::gamma(), {{MevEnergy{0.01}, 0.1}, {MevEnergy{0.01}, 0.1}}},
                  {pdg::electron(), {{MevEnergy{0.1}, 0.1}, {MevEnergy{0.1}, 0.1}}},
                  {pdg::positron(), {{MevEnergy{0.1}, 0.1}, {MevEnergy{0.1}, 0.1}}}};
    if (o.script)
    {
        // scripted secondaries of 1/4 MeV are below every production cut, those >= 1 MeV above
        ci.cutoffs = {{pdg::gamma(), {{MevEnergy{0.5}, 0.1}, {MevEnergy{0.5}, 0.1}}},
                      {pdg::electron(), {{MevEnergy{0.5}, 0.1}, {MevEnergy{0.5}, 0.1}}},
                      {pdg::positron(), {{MevEnergy{0.5}, 0.1}, {MevEnergy{0.5}, 0.1}}}};
    }
    ci.apply_post_interaction = true;
    p.cutoff = std::make_shared<CutoffParams>(std::move(ci));
    p.action_reg = std::make_shared<ActionRegistry>();
    // scale factors per material: [dense, thin]
    std::vector<double> scale = {1.0 * o.table_scale, 1e-7 * o.table_scale};
    std::vector<ImportProcess> procs;
    {  // Compton
        ImportProcess pr;
        pr.particle_pdg = pdg::gamma().get();
        pr.secondary_pdg = pdg::electron().get();
        pr.process_type = ImportProcessType::electromagnetic;
        pr.process_class = ImportProcessClass::compton;
        ImportModel m;
        m.model_class = ImportModelClass::klein_nishina;
        m.materials.resize(2);
        for (auto& imm : m.materials)
            imm.energy = {1e-4, 1e8};
        pr.models.push_back(m);
        ImportPhysicsTable l;
        l.table_type = ImportTableType::lambda;
        l.x_units = ImportUnits::mev;
        l.y_units = ImportUnits::len_inv;
        ImportPhysicsTable lp;
        lp.table_type = ImportTableType::lambda_prim;
        lp.x_units = ImportUnits::mev;
        lp.y_units = ImportUnits::len_mev_inv;
        for (double s : scale)
        {
            // zero at the model's lower limit: below it nothing is selected (no applicable model)
            l.physics_vectors.push_back(logvec({1e-6, 1e-4, 1e-2, 1.0}, {0.0, 0.0, 0.4 * s, 0.15 * s}));
            lp.physics_vectors.push_back(
                logvec({1.0, 1e2, 1e4, 1e6, 1e8}, {0.15 * s, 2.0 * s, 30 * s, 400 * s, 3e4 * s}));
        }
        pr.tables = {l, lp};
        procs.push_back(pr);
    }
    {  // conversion
        ImportProcess pr;
        pr.particle_pdg = pdg::gamma().get();
        pr.secondary_pdg = pdg::electron().get();
        pr.process_type = ImportProcessType::electromagnetic;
        pr.process_class = ImportProcessClass::conversion;
        ImportModel m;
        m.model_class = ImportModelClass::bethe_heitler_lpm;
        m.materials.resize(2);
        for (auto& imm : m.materials)
        {
            imm.energy = {2 * me, 1e8};
            imm.micro_xs = {{1e-26, 1e-24}};
        }
        pr.models.push_back(m);
        ImportPhysicsTable lp;
        lp.table_type = ImportTableType::lambda_prim;
        lp.x_units = ImportUnits::mev;
        lp.y_units = ImportUnits::len_mev_inv;
        {
            auto cg = loggrid(2 * me, 1e8, 9);
            for (double s : scale)
            {
                std::vector<double> y(cg.size());
                for (size_t i = 0; i < cg.size(); ++i)
                    y[i] = (i == 0 ? 0.0 : 0.12 * cg[i]) * s;  // zero at threshold: never selected below it
                lp.physics_vectors.push_back(logvec(cg, y));
            }
        }
        pr.tables = {lp};
        procs.push_back(pr);
    }
    for (auto pdgn : {pdg::electron(), pdg::positron()})
    {  // ionisation: constant dedx, range = E/dedx, lambda for delta rays
        ImportProcess pr;
        pr.particle_pdg = pdgn.get();
        pr.secondary_pdg = pdg::electron().get();
        pr.process_type = ImportProcessType::electromagnetic;
        pr.process_class = ImportProcessClass::e_ioni;
        ImportModel m;
        m.model_class = ImportModelClass::moller_bhabha;
        m.materials.resize(2);
        for (auto& imm : m.materials)
            imm.energy = {1e-4, 1e8};
        pr.models.push_back(m);
        ImportPhysicsTable de;
        de.table_type = ImportTableType::dedx;
        de.x_units = ImportUnits::mev;
        de.y_units = ImportUnits::mev_per_len;
        ImportPhysicsTable ra;
        ra.table_type = ImportTableType::range;
        ra.x_units = ImportUnits::mev;
        ra.y_units = ImportUnits::len;
        ImportPhysicsTable l;
        l.table_type = ImportTableType::lambda;
        l.x_units = ImportUnits::mev;
        l.y_units = ImportUnits::len_inv;
        auto eg = loggrid(1e-4, 1e8, 85);
        int mi = 0;
        for (double s : scale)
        {
            std::vector<double> d(eg.size()), r(eg.size()), lam(eg.size());
            double dedx = o.dedx * (mi == 0 ? 1.0 : 1e-7);
            (void)s;
            for (size_t i = 0; i < eg.size(); ++i)
            {
                d[i] = dedx;
                r[i] = eg[i] / dedx;
                lam[i] = (eg[i] > 0.25 ? 0.3 * s : 0.0);
            }
            de.physics_vectors.push_back(logvec(eg, d));
            ra.physics_vectors.push_back(logvec(eg, r));
            l.physics_vectors.push_back(logvec(eg, lam));
            ++mi;
        }
        pr.tables = {l, de, ra};
        procs.push_back(pr);
    }
    {
        celeritas::detail::ImportDataConverter convert{UnitSystem::cgs};
        for (auto& pr : procs)
            convert(&pr);
    }
    auto pdata = std::make_shared<ImportedProcesses>(std::move(procs));
    PhysicsParams::Input pin;
    pin.particles = p.particles;
    pin.materials = p.mats;
    pin.processes = {std::make_shared<ComptonProcess>(p.particles, pdata),
                     std::make_shared<GammaConversionProcess>(p.particles, pdata, GammaConversionProcess::Options{}),
                     std::make_shared<EIonizationProcess>(p.particles, pdata, EIonizationProcess::Options{}),
                     std::make_shared<EPlusAnnihilationProcess>(p.particles, EPlusAnnihilationProcess::Options{})};
    if (o.script)
    {
        pin.processes = {std::make_shared<ScriptedProcess>(p.particles, o.script, 0.4, 1e6)};
    }
    pin.action_registry = p.action_reg.get();
    pin.options.secondary_stack_factor = o.secondary_stack_factor;
    pin.options.fixed_step_limiter = o.fixed_step;
    p.physics = std::make_shared<PhysicsParams>(std::move(pin));
    SimParams::Input si;
    si.particles = p.particles;
    p.sim = std::make_shared<SimParams>(si);
    TrackInitParams::Input ti;
    ti.capacity = o.init_capacity;
    ti.max_events = o.max_events;
    ti.track_order = o.track_order;
    p.init = std::make_shared<TrackInitParams>(ti);
    std::shared_ptr<UrbanMscParams const> msc;
    if (o.msc && !o.script)
    {
        // synthetic scaled transport cross section xs*E^2 [MeV^2/cm], log grid shared by e-/e+ and materials
        std::vector<ImportMscModel> mm;
        auto eg = loggrid(1e-4, 1e8, 85);
        for (auto pdgn : {pdg::electron(), pdg::positron()})
        {
            ImportMscModel m;
            m.particle_pdg = pdgn.get();
            m.model_class = ImportModelClass::urban_msc;
            m.xs_table.table_type = ImportTableType::lambda;
            m.xs_table.x_units = ImportUnits::mev;
            m.xs_table.y_units = ImportUnits::mev_2_per_cm;
            for (double sc : {1.0, 1e-7})
            {
                std::vector<double> y(eg.size());
                for (size_t i = 0; i < eg.size(); ++i)
                    y[i] = 0.3 * sc * o.table_scale * (1 + 0.1 * std::log10(eg[i] / 1e-4));
                m.xs_table.physics_vectors.push_back(logvec(eg, y));
            }
            mm.push_back(m);
        }
        msc = std::make_shared<UrbanMscParams>(*p.particles, *p.mats, mm);
    }
    if (o.field_tesla != 0)
    {
        UniformFieldParams fp;
        double const b = o.field_tesla * units::tesla / std::sqrt(3.0);
        fp.field = {b, b, b};
        auto along = AlongStepUniformMscAction::from_params(
            p.action_reg->next_id(), *p.mats, *p.particles, fp, msc, o.fluct);
        p.action_reg->insert(along);
    }
    else
    {
        auto along = AlongStepGeneralLinearAction::from_params(
            p.action_reg->next_id(), *p.mats, *p.particles, msc, o.fluct);
        p.action_reg->insert(along);
    }
    p.inp.geometry = p.geo;
    p.inp.material = p.mats;
    p.inp.geomaterial = p.geomat;
    p.inp.particle = p.particles;
    p.inp.cutoff = p.cutoff;
    p.inp.physics = p.physics;
    p.inp.rng = std::make_shared<RngParams>(o.rng_seed);
    p.inp.sim = p.sim;
    p.inp.init = p.init;
    p.inp.action_reg = p.action_reg;
    p.inp.output_reg = std::make_shared<OutputRegistry>();
    p.inp.aux_reg = std::make_shared<AuxParamsRegistry>();
    p.inp.max_streams = o.max_streams;
}

//! Construct CoreParams (after which no more *implicit* actions may be added, but
//! explicit step actions can still be inserted into action_reg until a Stepper exists)
inline void finalize_problem(Problem& p)
{
    p.core = std::make_shared<CoreParams>(std::move(p.inp));
}

}  // namespace verif
