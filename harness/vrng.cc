// C13 harness: drive the REAL xorwow classes (XorwowRngParams, XorwowRngEngine and its
// Initializer, the mt19937 state initializer behind resize(), reseed_rng,
// GenerateCanonical / GenerateCanonical32) through their public headers and log one
// ndjson record per call with arguments and results.  No expected values are computed
// here: spec/XorwowTrace.tla recomputes every record from spec/Xorwow.tla.
//
//   vrng <out.ndjson> <seed> <full_basis 0|1> <nrand> <nseq> <nsub> <ncanon> <reseed_scale>
//
// Record types ("e"):
//   Table   which ("jump"|"sub"), i, poly                   the 64 polynomials of XorwowRngParams
//   Jump    s, w, n, s1, w1                                 discard(n)
//   Seq     s, w, n, s1, w1, outs, ds1, dw1                 n calls of operator() vs discard(n)
//   Sub     seed, s0, w0, sub, off, s1, w1                  engine = Initializer{seed, sub, off}
//   Reseed  seed, ev, size, slot, s0, w0, s1, w1            reseed_rng(params, states, stream, event)
//   Canon   u, l, bits, lt1, ge0                            GenerateCanonical32<double>, scripted words
//   CanonEng s, w, bits, lt1, ge0, s1, w1                   generate_canonical(XorwowRngEngine&)
//   CanonF  u, bits, lt1, ge0                               GenerateCanonical32<float>, scripted words
//   CanonFEng s, w, bits, lt1, ge0, s1, w1                  GenerateCanonical<XorwowRngEngine, float>
// Words are [hi16, lo16]; states are five words; 64-bit values are four 16-bit limbs,
// most significant first.
#include <cstdint>
#include <cstdlib>
#include <memory>
#include <random>
#include <vector>

#include "corecel/OpaqueId.hh"
#include "corecel/Types.hh"
#include "corecel/data/CollectionStateStore.hh"
#include "corecel/sys/ThreadId.hh"
#include "celeritas/Types.hh"
#include "celeritas/random/RngEngine.hh"
#include "celeritas/random/RngParams.hh"
#include "celeritas/random/RngReseed.hh"
#include "celeritas/random/XorwowRngData.hh"
#include "celeritas/random/XorwowRngEngine.hh"
#include "celeritas/random/XorwowRngParams.hh"
#include "celeritas/random/detail/GenerateCanonical32.hh"
#include "celeritas/random/distribution/GenerateCanonical.hh"

#include "vjson.hh"

using namespace celeritas;
using verif::json;
using verif::limbs32;
using verif::limbs64;

namespace
{
using HostStore = CollectionStateStore<XorwowRngStateData, MemSpace::host>;
using u32 = std::uint32_t;
using u64 = std::uint64_t;

json state_json(XorwowState const& s)
{
    json a = json::array();
    for (auto w : s.xorstate)
        a.push_back(limbs32(w));
    return a;
}

u32 bits_of_float(float v)
{
    u32 u;
    std::memcpy(&u, &v, sizeof(u));
    return u;
}

//! Engine returning a scripted sequence of 32-bit words (same shape as a C++11 engine)
struct ScriptedEngine
{
    using result_type = unsigned int;
    static constexpr result_type min() { return 0u; }
    static constexpr result_type max() { return 0xffffffffu; }
    result_type operator()()
    {
        if (pos >= words.size())
        {
            std::cerr << "ScriptedEngine exhausted" << std::endl;
            std::exit(3);
        }
        return words[pos++];
    }
    std::vector<u32> words;
    std::size_t pos{0};
};

//! One slot of real state + engine on it
struct Bench
{
    std::shared_ptr<XorwowRngParams> params;
    HostStore store;

    Bench(std::shared_ptr<XorwowRngParams> p, size_type n)
        : params(std::move(p)), store(params->host_ref(), StreamId{0}, n)
    {
    }
    XorwowState& state(size_type i)
    {
        return store.ref().state[TrackSlotId{i}];
    }
    XorwowRngEngine engine(size_type i)
    {
        return XorwowRngEngine(params->host_ref(), store.ref(), TrackSlotId{i});
    }
};

}  // namespace

int main(int argc, char** argv)
{
    if (argc < 9)
    {
        std::cerr << "usage: vrng out seed full_basis nrand nseq nsub ncanon reseed_scale\n";
        return 2;
    }
    verif::NdjsonWriter out(argv[1]);
    unsigned int const seed = static_cast<unsigned int>(std::strtoull(argv[2], nullptr, 10));
    bool const full_basis = std::atoi(argv[3]) != 0;
    int const nrand = std::atoi(argv[4]);
    int const nseq = std::atoi(argv[5]);
    int const nsub = std::atoi(argv[6]);
    int const ncanon = std::atoi(argv[7]);
    int const reseed_scale = std::atoi(argv[8]);

    std::mt19937_64 gen(seed * 2654435761ull + 13);
    auto rnd64 = [&gen] { return static_cast<u64>(gen()); };
    auto rnd32 = [&gen] { return static_cast<u32>(gen() >> 32); };

    auto params = std::make_shared<XorwowRngParams>(seed);
    auto const& pref = params->host_ref();

    //// the tables, read from the params' host reference ////
    for (int t = 0; t < 2; ++t)
    {
        auto const& tab = t == 0 ? pref.jump : pref.jump_subsequence;
        for (size_type i = 0; i < tab.size(); ++i)
        {
            json poly = json::array();
            for (auto w : tab[i])
                poly.push_back(limbs32(w));
            out({{"e", "Table"}, {"which", t == 0 ? "jump" : "sub"}, {"i", i}, {"poly", poly}});
        }
    }

    // Seeded random states through the real initializer (resize -> initialize_xorwow)
    size_type const npool = 64 + nrand + nseq + ncanon;
    Bench pool(params, npool);
    size_type next_pool = 0;
    auto fresh = [&]() -> XorwowState {
        XorwowState s = pool.state(next_pool % npool);
        ++next_pool;
        return s;
    };
    Bench work(params, 2);

    auto log_jump = [&](XorwowState const& s0, u64 n) {
        work.state(0) = s0;
        auto eng = work.engine(0);
        eng.discard(n);
        XorwowState const& s1 = work.state(0);
        out({{"e", "Jump"},
             {"s", state_json(s0)},
             {"w", limbs32(s0.weylstate)},
             {"n", limbs64(n)},
             {"s1", state_json(s1)},
             {"w1", limbs32(s1.weylstate)}});
    };

    //// discard(n) from the 160 basis states ////
    for (int j = 0; j < 160; ++j)
    {
        XorwowState e{};
        for (auto& w : e.xorstate)
            w = 0;
        e.xorstate[j / 32] = u32(1) << (j % 32);
        e.weylstate = rnd32();
        log_jump(e, 0);
        for (int i = 0; i < 32; ++i)
        {
            for (int d = 1; d <= 3; ++d)
            {
                if (full_basis || d == (i + j) % 3 + 1)
                    log_jump(e, u64(d) << (2 * i));
            }
        }
        if (full_basis || j % 20 == 7)
        {
            log_jump(e, ~u64(0));
            log_jump(e, rnd64());
        }
    }

    //// discard(n) from seeded random states ////
    {
        std::vector<u64> special = {0, 1, 2, 3, ~u64(0), 0xffffffffull, 0x100000000ull,
                                    0x100000001ull, 0x8000000000000000ull, 0x5555555555555555ull,
                                    0xaaaaaaaaaaaaaaaaull};
        for (u64 n : special)
            log_jump(fresh(), n);
        for (int k = 0; k < nrand; ++k)
        {
            XorwowState s = fresh();
            switch (k % 4)
            {
                case 0:
                case 1:
                    log_jump(s, rnd64());
                    break;
                case 2:
                    log_jump(s, u64(1 + rnd32() % 3) << (2 * (rnd32() % 32)));
                    break;
                default:
                    log_jump(s, rnd64() >> (rnd32() % 64));
                    break;
            }
        }
    }

    //// n sequential draws vs discard(n) ////
    {
        std::vector<u64> ns = {0, 1, 2, 3, 4, 5, 7, 8, 9, 15, 16, 17, 63, 64, 65, 255, 256, 257, 1023,
                               1024, 1025, 4095, 4096};
        for (int k = 0; k < nseq; ++k)
            ns.push_back(rnd32() % 4097);
        for (u64 n : ns)
        {
            XorwowState s0 = fresh();
            work.state(0) = s0;
            work.state(1) = s0;
            auto seq = work.engine(0);
            json outs = json::array();
            for (u64 k = 0; k < n; ++k)
            {
                u32 v = seq();
                if (k + 8 >= n)
                    outs.push_back(limbs32(v));
            }
            auto dis = work.engine(1);
            dis.discard(n);
            out({{"e", "Seq"},
                 {"s", state_json(s0)},
                 {"w", limbs32(s0.weylstate)},
                 {"n", n},
                 {"s1", state_json(work.state(0))},
                 {"w1", limbs32(work.state(0).weylstate)},
                 {"outs", outs},
                 {"ds1", state_json(work.state(1))},
                 {"dw1", limbs32(work.state(1).weylstate)}});
        }
    }

    //// Initializer {seed, subsequence, offset} ////
    {
        auto log_sub = [&](unsigned int sd, u64 sub, u64 off) {
            XorwowRngEngine::Initializer_t init0;
            init0.seed = {sd};
            auto e0 = work.engine(0);
            e0 = init0;
            XorwowRngEngine::Initializer_t init;
            init.seed = {sd};
            init.subsequence = sub;
            init.offset = off;
            auto e1 = work.engine(1);
            e1 = init;
            out({{"e", "Sub"},
                 {"seed", limbs32(sd)},
                 {"s0", state_json(work.state(0))},
                 {"w0", limbs32(work.state(0).weylstate)},
                 {"sub", limbs64(sub)},
                 {"off", limbs64(off)},
                 {"s1", state_json(work.state(1))},
                 {"w1", limbs32(work.state(1).weylstate)}});
        };
        log_sub(0, 0, 0);
        log_sub(seed, 0, 0);
        log_sub(seed, 1, 0);
        log_sub(seed, 2, 0);
        log_sub(seed, 3, 0);
        log_sub(seed, 0, 1);
        log_sub(seed, 1, 1);
        log_sub(seed, ~u64(0), 0);
        log_sub(seed, ~u64(0), ~u64(0));
        log_sub(12345, 8 * 1024 + 5, 0);
        for (int i = 0; i < 32; ++i)
            log_sub(seed + i, u64(1 + (i % 3)) << (2 * i), i % 4 == 0 ? rnd64() : (i % 4));
        for (int k = 0; k < nsub; ++k)
            log_sub(rnd32(), (k % 3 == 0) ? rnd64() : (rnd64() >> (rnd32() % 64)),
                    (k % 2 == 0) ? rnd64() >> (rnd32() % 64) : 0);
    }

    //// reseed_rng ////
    {
        using RngStore = CollectionStateStore<RngStateData, MemSpace::host>;
        struct Cfg
        {
            unsigned int seed;
            u64 event;
            size_type size;
            int sample;  // 0: all slots, else number of sampled slots (first/last always)
        };
        std::vector<Cfg> cfgs = {{seed, 0, 1, 0},
                                 {seed, 0, 4, 0},
                                 {seed, 1, 4, 0},
                                 {seed, 7, 16, 0},
                                 {12345, 8, 1024, 6 * reseed_scale},
                                 {seed + 1, (u64(1) << 52) - 1, 4096, 6 * reseed_scale},
                                 {seed + 2, rnd64() >> 24, 1000, 6 * reseed_scale},
                                 {seed + 3, rnd64() >> 34, 8191, 4 * reseed_scale}};
        for (int k = 1; k < reseed_scale; ++k)
            cfgs.push_back({seed + 10 + k, rnd64() >> (24 + rnd32() % 30), 1 + rnd32() % 64, 0});
        for (auto const& c : cfgs)
        {
            auto rp = std::make_shared<RngParams>(c.seed);
            RngStore states(rp->host_ref(), StreamId{0}, c.size);
            reseed_rng(rp->host_ref(), states.ref(), StreamId{0}, UniqueEventId{c.event});

            // seed state: the same initializer with subsequence 0, offset 0
            RngEngine::Initializer_t init0;
            init0.seed = rp->host_ref().seed;
            auto e0 = work.engine(0);
            e0 = init0;
            XorwowState const s0 = work.state(0);

            std::vector<size_type> slots;
            if (c.sample == 0 || size_type(c.sample) + 2 >= c.size)
            {
                for (size_type i = 0; i < c.size; ++i)
                    slots.push_back(i);
            }
            else
            {
                slots.push_back(0);
                slots.push_back(1);
                slots.push_back(c.size - 1);
                for (int k = 0; k < c.sample; ++k)
                    slots.push_back(rnd32() % c.size);
            }
            for (size_type i : slots)
            {
                XorwowState const& s1 = states.ref().state[TrackSlotId{i}];
                out({{"e", "Reseed"},
                     {"seed", limbs32(c.seed)},
                     {"ev", limbs64(c.event)},
                     {"size", c.size},
                     {"slot", i},
                     {"s0", state_json(s0)},
                     {"w0", limbs32(s0.weylstate)},
                     {"s1", state_json(s1)},
                     {"w1", limbs32(s1.weylstate)}});
            }
        }
    }

    //// canonical reals ////
    {
        std::vector<u32> ext = {0u, 1u, 0x7ffu, 0x800u, 0x001fffffu, 0x00200000u, 0x7fffffffu,
                                0x80000000u, 0xfffffffeu, 0xffffffffu};
        std::vector<std::pair<u32, u32>> pairs;
        for (u32 u : ext)
            for (u32 l : ext)
                pairs.push_back({u, l});
        for (int k = 0; k < ncanon; ++k)
            pairs.push_back({k % 5 == 0 ? (0xffffffffu >> (rnd32() % 32)) : rnd32(), rnd32()});
        for (auto const& ul : pairs)
        {
            ScriptedEngine eng{{ul.first, ul.second}};
            double r = detail::GenerateCanonical32<double>()(eng);
            out({{"e", "Canon"},
                 {"u", limbs32(ul.first)},
                 {"l", limbs32(ul.second)},
                 {"bits", limbs64(verif::bits_of(r))},
                 {"lt1", r < 1.0},
                 {"ge0", r >= 0.0}});
        }
        // through the real engine and the public helper (real_type = double in this build)
        static_assert(std::is_same<real_type, double>::value, "harness expects a double build");
        for (int k = 0; k < 8 + ncanon / 4; ++k)
        {
            XorwowState s0 = fresh();
            work.state(0) = s0;
            auto eng = work.engine(0);
            double r = (k % 2 == 0) ? generate_canonical(eng) : generate_canonical<double>(eng);
            out({{"e", "CanonEng"},
                 {"s", state_json(s0)},
                 {"w", limbs32(s0.weylstate)},
                 {"bits", limbs64(verif::bits_of(r))},
                 {"lt1", r < 1.0},
                 {"ge0", r >= 0.0},
                 {"s1", state_json(work.state(0))},
                 {"w1", limbs32(work.state(0).weylstate)}});
        }
        // single precision
        std::vector<u32> fw = {0u, 1u, 2u, 3u, 0x00ffffffu, 0x01000000u, 0x01000001u, 0x01000002u,
                               0x01000003u, 0x7fffffffu, 0x80000000u, 0x80000001u, 0xffffff00u,
                               0xffffff7fu, 0xffffff80u, 0xffffff81u, 0xfffffffeu, 0xffffffffu};
        for (int k = 0; k < ncanon; ++k)
            fw.push_back(k % 4 == 0 ? (0xffffffffu - (rnd32() % 512)) : (rnd32() >> (rnd32() % 32)));
        for (u32 u : fw)
        {
            ScriptedEngine eng{{u}};
            float r = detail::GenerateCanonical32<float>()(eng);
            out({{"e", "CanonF"},
                 {"u", limbs32(u)},
                 {"bits", limbs32(bits_of_float(r))},
                 {"lt1", r < 1.0f},
                 {"ge0", r >= 0.0f}});
        }
        // single precision through the real engine; the Weyl word is chosen so that the
        // next result is a given word (the largest ones included)
        std::vector<u32> targets = {0xffffffffu, 0xffffff80u, 0xffffff7fu, 0u, 0x80000000u};
        for (int k = 0; k < 4 + ncanon / 8; ++k)
            targets.push_back(rnd32());
        for (u32 target : targets)
        {
            XorwowState s0 = fresh();
            work.state(1) = s0;
            u32 seen = work.engine(1)();
            s0.weylstate += target - seen;
            work.state(0) = s0;
            auto eng = work.engine(0);
            float r = GenerateCanonical<XorwowRngEngine, float>()(eng);
            out({{"e", "CanonFEng"},
                 {"s", state_json(s0)},
                 {"w", limbs32(s0.weylstate)},
                 {"bits", limbs32(bits_of_float(r))},
                 {"lt1", r < 1.0f},
                 {"ge0", r >= 0.0f},
                 {"s1", state_json(work.state(0))},
                 {"w1", limbs32(work.state(0).weylstate)}});
        }
    }
    out.flush();
    std::cerr << "vrng: " << out.count() << " records" << std::endl;
    return 0;
}
