// Scripted physics for the replay of TLC behaviours on the real stepping loop (DESIGN 3.2):
// one Process/Model pair, registered through the public Process/Model API, whose macroscopic
// cross section is huge above a threshold, so that every alive track interacts on every step
// through the REAL pre-step, discrete-select, InteractionApplier, cutoff, secondary allocator
// and track-initialisation code.  The model's executor looks up the outcome of the k-th
// interaction of track (event, track id) in the script: survive with energy E1 / be absorbed,
// local deposit, secondaries [(type, energy)].  Energies are dyadic (multiples of 1/4 MeV, electron
// mass 1/2 MeV) so the spec's integer ledger and the code's doubles agree exactly.
#pragma once

#include <map>
#include <memory>
#include <mutex>
#include <string>
#include <vector>

#include "corecel/sys/ActionInterface.hh"
#include "celeritas/global/ActionLauncher.hh"
#include "celeritas/global/CoreParams.hh"
#include "celeritas/global/CoreState.hh"
#include "celeritas/global/CoreTrackView.hh"
#include "celeritas/global/TrackExecutor.hh"
#include "celeritas/grid/ValueGridBuilder.hh"
#include "celeritas/phys/Applicability.hh"
#include "celeritas/phys/Interaction.hh"
#include "celeritas/phys/InteractionApplier.hh"
#include "celeritas/phys/Model.hh"
#include "celeritas/phys/ParticleParams.hh"
#include "celeritas/phys/Process.hh"

namespace verif
{
using namespace celeritas;

struct ScriptedOutcome
{
    bool alive{true};
    double e1{0};
    double dep{0};
    std::vector<std::pair<int, double>> secs;  // (particle id, energy): includes sub-cut ones
};

struct Script
{
    // (event, track id) -> outcomes of its successive interactions
    std::map<std::pair<int, int>, std::vector<ScriptedOutcome>> tracks;
    std::map<std::pair<int, int>, std::size_t> next;  // successful interactions so far
    std::vector<std::string> errors;
};

struct ScriptedExecutor
{
    Script* script;

    Interaction operator()(CoreTrackView const& track)
    {
        auto sim = track.make_sim_view();
        std::pair<int, int> key{int(sim.event_id().get()), int(sim.track_id().get())};
        auto it = script->tracks.find(key);
        std::size_t k = script->next[key];
        if (it == script->tracks.end() || k >= it->second.size())
        {
            // Off-script: absorb with full deposit so that the run terminates, and record it
            script->errors.push_back("off-script interaction of track " + std::to_string(key.first) + ":"
                                     + std::to_string(key.second) + " #" + std::to_string(k));
            Interaction r = Interaction::from_absorption();
            r.energy_deposition = track.make_particle_view().energy();
            return r;
        }
        ScriptedOutcome const& o = it->second[k];
        auto allocate = track.make_physics_step_view().make_secondary_allocator();
        Secondary* sec = nullptr;
        if (!o.secs.empty())
        {
            // allocate before filling, like every real interactor
            sec = allocate(o.secs.size());
            if (sec == nullptr)
            {
                return Interaction::from_failure();
            }
        }
        script->next[key] = k + 1;
        Real3 const dir = track.make_geo_view().dir();
        for (std::size_t j = 0; j < o.secs.size(); ++j)
        {
            sec[j].particle_id = ParticleId(o.secs[j].first);
            sec[j].energy = units::MevEnergy{o.secs[j].second};
            // distinct unit directions
            Real3 d{0, 0, 0};
            d[j % 3] = (j % 2 == 0) ? 1.0 : -1.0;
            sec[j].direction = d;
        }
        Interaction r;
        if (o.alive)
        {
            r.action = Interaction::Action::scattered;
            r.energy = units::MevEnergy{o.e1};
            r.direction = dir;
        }
        else
        {
            r = Interaction::from_absorption();
        }
        r.energy_deposition = units::MevEnergy{o.dep};
        r.secondaries = {sec, o.secs.size()};
        return r;
    }
};

class ScriptedModel final : public Model, public ConcreteAction
{
  public:
    ScriptedModel(ActionId id, std::shared_ptr<ParticleParams const> particles, Script* script, double emin)
        : ConcreteAction(id, "scripted-interact", "scripted interaction (verification harness)")
        , particles_(std::move(particles))
        , script_(script)
        , emin_(emin)
    {
    }
    SetApplicability applicability() const final
    {
        SetApplicability result;
        for (auto pid : range(ParticleId{particles_->size()}))
        {
            Applicability a;
            a.particle = pid;
            a.lower = units::MevEnergy{emin_};
            a.upper = units::MevEnergy{1e6};
            result.insert(a);
        }
        return result;
    }
    MicroXsBuilders micro_xs(Applicability) const final { return {}; }
    void step(CoreParams const& params, CoreStateHost& state) const final
    {
        auto execute = make_action_track_executor(params.ptr<MemSpace::native>(),
                                                  state.ptr(),
                                                  this->action_id(),
                                                  InteractionApplier{ScriptedExecutor{script_}});
        return launch_action(*this, params, state, execute);
    }
    void step(CoreParams const&, CoreStateDevice&) const final {}

  private:
    std::shared_ptr<ParticleParams const> particles_;
    Script* script_;
    double emin_;
};

class ScriptedProcess final : public Process
{
  public:
    ScriptedProcess(std::shared_ptr<ParticleParams const> particles, Script* script, double emin, double xs)
        : particles_(std::move(particles)), script_(script), emin_(emin), xs_(xs)
    {
    }
    VecModel build_models(ActionIdIter start_id) const final
    {
        return {std::make_shared<ScriptedModel>(*start_id++, particles_, script_, emin_)};
    }
    StepLimitBuilders step_limits(Applicability applic) const final
    {
        StepLimitBuilders builders;
        builders[ValueGridType::macro_xs] = std::make_unique<ValueGridLogBuilder>(
            applic.lower.value(), applic.upper.value(), std::vector<double>{xs_, xs_});
        return builders;
    }
    bool use_integral_xs() const final { return false; }
    std::string_view label() const final { return "scripted"; }

  private:
    std::shared_ptr<ParticleParams const> particles_;
    Script* script_;
    double emin_;
    double xs_;
};

}  // namespace verif
