// vsim: run the real stepping loop (Stepper<host>) on the hand-built EM problem and log
// an ndjson trace of what happened, observed through harness-defined step actions at
// several points of the action sequence and through StepInterface callbacks.
// The trace is validated by TLC against spec/CoreLoopTrace.tla (C01 C02 C05 C16 C17).
//
// usage: vsim <out.ndjson> key=value ...
//   seed slots events prims initcap secfactor order fluct emax maxsteps inflight nonzero scale
#include <array>
#include <map>
#include <set>
#include <sstream>

#include "corecel/io/Logger.hh"
#include "corecel/sys/ActionInterface.hh"
#include "corecel/sys/ActionRegistry.hh"
#include "celeritas/global/ActionInterface.hh"
#include "celeritas/global/CoreState.hh"
#include "celeritas/global/CoreTrackView.hh"
#include "celeritas/field/FieldDriverOptions.hh"
#include "celeritas/global/Stepper.hh"
#include "celeritas/phys/Primary.hh"
#include "celeritas/user/ActionDiagnostic.hh"
#include "celeritas/user/DetectorSteps.hh"
#include "celeritas/user/SimpleCalo.hh"
#include "celeritas/user/StepDiagnostic.hh"
#include "celeritas/user/StepCollector.hh"
#include "celeritas/user/StepData.hh"
#include "celeritas/user/StepInterface.hh"

#include "vjson.hh"
#include "vproblem.hh"

using namespace celeritas;
using verif::json;
using CoreStateHost = CoreState<MemSpace::host>;
using CoreStateDevice = CoreState<MemSpace::device>;

namespace
{
//---------------------------------------------------------------------------//
struct Recorder
{
    std::vector<json> events;
    verif::Interner tok;  // bit-exact tokens for doubles
    std::map<std::array<std::uint64_t, 3>, int> postok;
    double quantum{1};
    std::size_t nsteps{0};

    int T(double v) { return tok(v == 0 ? 0.0 : v); }
    long long Q(double v) const { return std::llround(v / quantum); }
    int P(Real3 const& p)
    {
        std::array<std::uint64_t, 3> k{verif::bits_of(p[0] == 0 ? 0.0 : p[0]),
                                       verif::bits_of(p[1] == 0 ? 0.0 : p[1]),
                                       verif::bits_of(p[2] == 0 ? 0.0 : p[2])};
        auto it = postok.find(k);
        if (it != postok.end())
            return it->second;
        int t = int(postok.size()) + 1;
        postok.emplace(k, t);
        return t;
    }
    void add(json j) { events.push_back(std::move(j)); }

    // Replace every "rE_*", "rT_*", "rL_*" raw double by its dense rank within its class
    void finalize_and_write(std::string const& path)
    {
        std::map<std::string, verif::Ranker> rk;
        std::function<void(json&, bool)> walk = [&](json& j, bool collect) {
            if (j.is_object())
            {
                for (auto it = j.begin(); it != j.end(); ++it)
                {
                    std::string const& k = it.key();
                    if (k.size() > 3 && k[0] == 'r' && k[2] == '_'
                        && (k[1] == 'E' || k[1] == 'T' || k[1] == 'L')
                        && it.value().is_number())
                    {
                        std::string cls(1, k[1]);
                        if (collect)
                            rk[cls].add(it.value().get<double>());
                        else
                            it.value() = rk[cls](it.value().get<double>());
                    }
                    else
                        walk(it.value(), collect);
                }
            }
            else if (j.is_array())
                for (auto& e : j)
                    walk(e, collect);
        };
        for (auto& e : events)
            walk(e, true);
        for (auto& kv : rk)
        {
            kv.second.add(0.0);
            kv.second.finalize();
        }
        json zero = {{"e", "Ranks"}};
        for (auto& kv : rk)
            zero["zero" + kv.first] = kv.second(0.0);
        for (auto const* c : {"E", "T", "L"})
            if (!zero.contains(std::string("zero") + c))
                zero[std::string("zero") + c] = 0;
        verif::NdjsonWriter w(path);
        bool first = true;
        for (auto& e : events)
        {
            walk(e, false);
            w(e);
            if (first)
            {
                w(zero);
                first = false;
            }
        }
    }
};

char const* status_name(TrackStatus s)
{
    switch (s)
    {
        case TrackStatus::inactive: return "inactive";
        case TrackStatus::initializing: return "initializing";
        case TrackStatus::alive: return "alive";
        case TrackStatus::errored: return "errored";
        case TrackStatus::killed: return "killed";
        default: return "?";
    }
}

//! Independent point classification for two-boxes.org.json: 1 inner, 2 world, 0 exterior,
//! -1 within 1e-6 of a box face (undecided)
int box_oracle(Real3 const& p)
{
    double m = 0;
    for (int i = 0; i < 3; ++i)
    {
        double a = std::fabs(p[i]);
        if (std::fabs(a - 5.0) < 1e-6 || std::fabs(a - 500.0) < 1e-6)
            return -1;
        m = std::max(m, a);
    }
    return m < 5 ? 1 : (m < 500 ? 2 : 0);
}

//---------------------------------------------------------------------------//
struct Shared
{
    Recorder* rec{nullptr};
    std::vector<json> prev_slots;  // last logged projection of each slot
    std::vector<Real3> pos0;  // pre-step position per slot
    std::vector<std::pair<int, int>> prev_inits;  // (ev,tid) list of the initializer buffer
    std::vector<json> pending_deliver;
    ActionRegistry const* actions{nullptr};
    std::string order;
    double chord_tol{0};
};

json project_slot(CoreParams const& params, CoreStateHost& state, TrackSlotId ts, Recorder& rec)
{
    CoreTrackView track(params.host_ref(), state.ref(), ts);
    auto sim = track.make_sim_view();
    json j;
    j["slot"] = int(ts.get()) + 1;
    j["st"] = status_name(sim.status());
    if (sim.status() == TrackStatus::inactive)
        return j;
    auto par = track.make_particle_view();
    auto geo = track.make_geo_view();
    j["ev"] = int(sim.event_id().get());
    j["tid"] = int(sim.track_id().get());
    j["par"] = sim.parent_id() ? int(sim.parent_id().get()) : -1;
    j["ns"] = int(sim.num_steps());
    j["pt"] = int(par.particle_id().get());
    j["Et"] = rec.T(par.energy().value());
    j["Eq"] = rec.Q(par.energy().value());
    j["tt"] = rec.T(sim.time());
    j["pos"] = rec.P(geo.pos());
    return j;
}

//! Snapshot the initializer buffer as a list of (ev,tid) and full records
std::vector<json> snapshot_inits(CoreParams const& params, CoreStateHost& state, Recorder& rec)
{
    (void)params;
    std::vector<json> out;
    auto const& init = state.ref().init;
    size_type n = state.counters().num_initializers;
    size_type cap = init.initializers.size();
    for (size_type i = 0; i < std::min(n, cap); ++i)
    {
        TrackInitializer const& ti = init.initializers[ItemId<TrackInitializer>{i}];
        json j;
        j["ev"] = ti.sim.event_id ? int(ti.sim.event_id.get()) : -1;
        j["tid"] = ti.sim.track_id ? int(ti.sim.track_id.get()) : -1;
        j["par"] = ti.sim.parent_id ? int(ti.sim.parent_id.get()) : -1;
        j["pt"] = ti.particle.particle_id ? int(ti.particle.particle_id.get()) : -1;
        j["Et"] = rec.T(ti.particle.energy.value());
        j["Eq"] = rec.Q(ti.particle.energy.value());
        j["tt"] = rec.T(ti.sim.time);
        j["pos"] = rec.P(ti.geo.pos);
        out.push_back(j);
    }
    return out;
}

std::string safe_label(ActionRegistry const& reg, ActionId id)
{
    if (!id)
        return "none";
    if (!(id < reg.num_actions()))
        return "INVALID-ACTION-ID";
    return std::string(reg.id_to_label(id));
}

json counters_json(CoreStateHost& state)
{
    auto const& c = state.counters();
    return {{"gen", int(c.num_generated)}, {"inits", int(c.num_initializers)},
            {"vac", int(c.num_vacancies)}, {"active", int(c.num_active)},
            {"secs", int(c.num_secondaries)}, {"alive", int(c.num_alive)}};
}

class ObserverAction final : public CoreStepActionInterface, public ConcreteAction
{
  public:
    ObserverAction(ActionId id, StepActionOrder order, std::string name, Shared* sh)
        : ConcreteAction(id, "verif-observer-" + name, "verification observer"), order_(order), name_(name), sh_(sh)
    {
    }
    StepActionOrder order() const final { return order_; }
    void step(CoreParams const& params, CoreStateHost& state) const final;
    void step(CoreParams const&, CoreStateDevice&) const final {}

  private:
    StepActionOrder order_;
    std::string name_;
    Shared* sh_;

    json changed_slots(CoreParams const& params, CoreStateHost& state) const
    {
        json ch = json::array();
        for (size_type i = 0; i < state.size(); ++i)
        {
            json p = project_slot(params, state, TrackSlotId{i}, *sh_->rec);
            if (p != sh_->prev_slots[i])
            {
                ch.push_back(p);
                sh_->prev_slots[i] = p;
            }
        }
        return ch;
    }
    void inits_delta(CoreParams const& params, CoreStateHost& state, json& ev) const
    {
        auto snap = snapshot_inits(params, state, *sh_->rec);
        std::multiset<std::pair<int, int>> before(sh_->prev_inits.begin(), sh_->prev_inits.end());
        std::multiset<std::pair<int, int>> now;
        json added = json::array();
        for (auto const& j : snap)
        {
            std::pair<int, int> k{j["ev"].get<int>(), j["tid"].get<int>()};
            now.insert(k);
            auto it = before.find(k);
            if (it != before.end())
                before.erase(it);
            else
                added.push_back(j);
        }
        json removed = json::array();
        for (auto const& k : before)
            removed.push_back({{"ev", k.first}, {"tid", k.second}});
        ev["added"] = added;
        ev["removed"] = removed;
        sh_->prev_inits.assign(now.begin(), now.end());
    }
};

void ObserverAction::step(CoreParams const& params, CoreStateHost& state) const
{
    Recorder& rec = *sh_->rec;
    json ev;
    ev["e"] = name_;
    if (name_ == "Gen")
    {
        ev["ctr"] = counters_json(state);
        inits_delta(params, state, ev);
    }
    else if (name_ == "Start")
    {
        ev["ctr"] = counters_json(state);
        ev["changed"] = changed_slots(params, state);
        inits_delta(params, state, ev);
    }
    else if (name_ == "Pre")
    {
        json arr = json::array();
        for (size_type i = 0; i < state.size(); ++i)
        {
            CoreTrackView track(params.host_ref(), state.ref(), TrackSlotId{i});
            auto sim = track.make_sim_view();
            if (sim.status() == TrackStatus::inactive)
                continue;
            auto par = track.make_particle_view();
            auto geo = track.make_geo_view();
            json j = project_slot(params, state, TrackSlotId{i}, rec);
            j["rE_E0"] = par.energy().value();
            j["rT_t0"] = sim.time();
            j["rL_lim"] = sim.step_length();
            j["dir"] = rec.P(geo.dir());
            j["vol"] = geo.is_outside() ? 0 : int(geo.volume_id().get());
            j["volo"] = box_oracle(geo.pos());
            j["onb"] = geo.is_on_boundary();
            sh_->pos0[i] = geo.pos();
            sh_->prev_slots[i] = project_slot(params, state, TrackSlotId{i}, rec);
            arr.push_back(j);
        }
        ev["slots"] = arr;
    }
    else if (name_ == "Post")
    {
        json arr = json::array();
        auto const& sstack = state.ref().physics.secondaries;
        size_type stack_size = sstack.size[ItemId<size_type>{0}];
        ev["stack"] = {{"size", int(stack_size)}, {"cap", int(sstack.capacity())}};
        for (size_type i = 0; i < state.size(); ++i)
        {
            CoreTrackView track(params.host_ref(), state.ref(), TrackSlotId{i});
            auto sim = track.make_sim_view();
            if (sim.status() == TrackStatus::inactive)
                continue;
            auto par = track.make_particle_view();
            auto geo = track.make_geo_view();
            auto pstep = track.make_physics_step_view();
            json j = project_slot(params, state, TrackSlotId{i}, rec);
            j["act"] = safe_label(*sh_->actions, sim.post_step_action());
            j["rE_E1"] = par.energy().value();
            j["rT_t1"] = sim.time();
            j["rL_step"] = sim.step_length();
            j["stept"] = rec.T(sim.step_length());
            j["dir"] = rec.P(geo.dir());
            Real3 p1 = geo.pos();
            Real3 const& p0 = sh_->pos0[i];
            double chord = std::sqrt(ipow<2>(p1[0] - p0[0]) + ipow<2>(p1[1] - p0[1]) + ipow<2>(p1[2] - p0[2]));
            // bracket: rounding only for linear propagation; in a magnetic field the step to a
            // boundary intercept is accurate to the driver's configured delta_intersection
            j["rL_chordlo"] = chord * (1 - 1e-9) - 1e-12 - sh_->chord_tol;
            // scope of F-MSC-1 (MSC lateral displacement d added at the end of the CURVED geometric path g,
            // d perpendicular to the final direction, not to the chord): |chord| <= g + d with g^2 + d^2 <= t^2,
            // i.e. at most sqrt(2) t.  (An excess of 4.5 % was seen for a 5 T field turning a positron by ~1 rad
            // within one step; the first version of this scope, 2 %, came from 1 T runs.)
            j["rL_chordlo2"] = chord * 0.70710678 - 1e-12 - sh_->chord_tol;
            {
                char buf[96];
                std::snprintf(buf, sizeof(buf), "%.17g/%.17g", sim.step_length(), chord);
                j["dbg_step_chord"] = buf;  // raw doubles for humans (not used by the spec)
            }
            bool outside = geo.is_outside();
            j["out"] = outside;
            j["vol"] = outside ? 0 : int(geo.volume_id().get());
            j["volo"] = box_oracle(p1);
            j["onb"] = geo.is_on_boundary();
            double dep = pstep.energy_deposition().value();
            j["depq"] = rec.Q(dep);
            j["dept"] = rec.T(dep);
            j["depz"] = (dep == 0);
            j["rE_dep"] = dep;
            json secs = json::array();
            int nfalse = 0;
            for (auto const& s : pstep.secondaries())
            {
                if (!s)
                {
                    ++nfalse;
                    continue;
                }
                secs.push_back({{"pt", int(s.particle_id.get())}, {"Et", rec.T(s.energy.value())},
                                {"Eq", rec.Q(s.energy.value())}, {"rE_E", s.energy.value()}});
            }
            j["secs"] = secs;
            j["nfalse"] = nfalse;
            sh_->prev_slots[i] = project_slot(params, state, TrackSlotId{i}, rec);
            arr.push_back(j);
            ++rec.nsteps;
        }
        ev["slots"] = arr;
    }
    else if (name_ == "End")
    {
        // deliveries were buffered by the callbacks: emit them before the End record
        for (auto& d : sh_->pending_deliver)
            rec.add(std::move(d));
        sh_->pending_deliver.clear();
        ev["ctr"] = counters_json(state);
        ev["changed"] = changed_slots(params, state);
        inits_delta(params, state, ev);
        json vac = json::array();
        auto const& init = state.ref().init;
        for (size_type i = 0; i < std::min<size_type>(state.counters().num_vacancies, init.vacancies.size()); ++i)
            vac.push_back(int(init.vacancies[TrackSlotId{i}].get()) + 1);
        ev["vac"] = vac;
        json par = json::array();
        for (size_type i = 0; i < init.parents.size(); ++i)
            par.push_back(init.parents[TrackSlotId{i}] ? int(init.parents[TrackSlotId{i}].get()) + 1 : 0);
        ev["parents"] = par;  // Impl-level detail (not used by the Abs trace spec)
    }
    rec.add(std::move(ev));
}

//---------------------------------------------------------------------------//
class Callback final : public StepInterface
{
  public:
    Callback(int id, Filters f, StepSelection sel, Shared* sh) : id_(id), filters_(std::move(f)), sel_(sel), sh_(sh) {}
    Filters filters() const final { return filters_; }
    StepSelection selection() const final { return sel_; }
    void process_steps(HostStepState hs) final
    {
        Recorder& rec = *sh_->rec;
        auto const& d = hs.steps.data;
        json ev;
        ev["e"] = "Deliver";
        ev["cb"] = id_;
        json arr = json::array();
        bool has_det = !d.detector.empty();
        for (size_type i = 0; i < d.size(); ++i)
        {
            TrackSlotId ts{i};
            if (!d.track_id[ts])
                continue;
            if (has_det && !d.detector[ts])
                continue;
            json j;
            j["slot"] = int(i) + 1;
            j["tid"] = int(d.track_id[ts].get());
            if (has_det)
                j["det"] = int(d.detector[ts].get());
            if (!d.event_id.empty())
                j["ev"] = int(d.event_id[ts].get());
            if (!d.parent_id.empty())
                j["par"] = d.parent_id[ts] ? int(d.parent_id[ts].get()) : -1;
            if (!d.track_step_count.empty())
                j["ns"] = int(d.track_step_count[ts]);
            if (!d.action_id.empty())
                j["act"] = safe_label(*sh_->actions, d.action_id[ts]);
            if (!d.step_length.empty())
                j["stept"] = rec.T(d.step_length[ts]);
            if (!d.particle.empty())
                j["pt"] = int(d.particle[ts].get());
            if (!d.energy_deposition.empty())
            {
                j["dept"] = rec.T(d.energy_deposition[ts].value());
                j["depq"] = rec.Q(d.energy_deposition[ts].value());
            }
            char const* names[2] = {"0", "1"};
            for (auto sp : range(StepPoint::size_))
            {
                auto const& pt = d.points[sp];
                std::string sfx = names[int(sp)];
                if (!pt.time.empty())
                    j["tt" + sfx] = rec.T(pt.time[ts]);
                if (!pt.pos.empty())
                    j["pos" + sfx] = rec.P(pt.pos[ts]);
                if (!pt.dir.empty())
                    j["dir" + sfx] = rec.P(pt.dir[ts]);
                if (!pt.energy.empty())
                    j["Et" + sfx] = rec.T(pt.energy[ts].value());
                if (!pt.volume_id.empty())
                    j["vol" + sfx] = pt.volume_id[ts] ? int(pt.volume_id[ts].get()) : 0;
            }
            arr.push_back(j);
        }
        ev["steps"] = arr;
        if (has_det)
        {
            // the library's own compaction of in-detector steps (what a hit processor consumes)
            DetectorStepOutput out;
            copy_steps(&out, hs.steps);
            json dso = json::array();
            for (size_type k = 0; k < out.size(); ++k)
            {
                json j;
                j["det"] = out.detector[k] ? int(out.detector[k].get()) : -1;
                if (!out.track_id.empty())
                    j["tid"] = out.track_id[k] ? int(out.track_id[k].get()) : -1;
                if (!out.event_id.empty())
                    j["ev"] = int(out.event_id[k].get());
                if (!out.parent_id.empty())
                    j["par"] = out.parent_id[k] ? int(out.parent_id[k].get()) : -1;
                if (!out.track_step_count.empty())
                    j["ns"] = int(out.track_step_count[k]);
                if (!out.step_length.empty())
                    j["stept"] = rec.T(out.step_length[k]);
                if (!out.particle.empty())
                    j["pt"] = int(out.particle[k].get());
                if (!out.energy_deposition.empty())
                {
                    j["dept"] = rec.T(out.energy_deposition[k].value());
                    j["depq"] = rec.Q(out.energy_deposition[k].value());
                }
                char const* names[2] = {"0", "1"};
                for (auto sp : range(StepPoint::size_))
                {
                    auto const& pt = out.points[sp];
                    std::string sfx = names[int(sp)];
                    if (!pt.time.empty())
                        j["tt" + sfx] = rec.T(pt.time[k]);
                    if (!pt.pos.empty())
                        j["pos" + sfx] = rec.P(pt.pos[k]);
                    if (!pt.dir.empty())
                        j["dir" + sfx] = rec.P(pt.dir[k]);
                    if (!pt.energy.empty())
                        j["Et" + sfx] = rec.T(pt.energy[k].value());
                }
                dso.push_back(j);
            }
            ev["dso"] = dso;
        }
        sh_->pending_deliver.push_back(std::move(ev));
    }
    void process_steps(DeviceStepState) final {}

  private:
    int id_;
    Filters filters_;
    StepSelection sel_;
    Shared* sh_;
};

std::map<std::string, std::string> parse_args(int argc, char** argv, int first)
{
    std::map<std::string, std::string> kv;
    for (int i = first; i < argc; ++i)
    {
        std::string a = argv[i];
        auto p = a.find('=');
        if (p != std::string::npos)
            kv[a.substr(0, p)] = a.substr(p + 1);
    }
    return kv;
}
template<class T>
T argval(std::map<std::string, std::string> const& kv, std::string const& k, T def)
{
    auto it = kv.find(k);
    if (it == kv.end())
        return def;
    std::istringstream is(it->second);
    T v;
    is >> v;
    return v;
}
}  // namespace

Recorder* g_rec = nullptr;
std::string g_out;
void on_terminate()
{
    // a crash must never leave a truncated-but-acceptable trace: log Abort (never enabled in
    // the spec) and flush what was recorded
    std::string what = "terminate";
    try
    {
        if (auto e = std::current_exception())
            std::rethrow_exception(e);
    }
    catch (std::exception const& ex)
    {
        what = ex.what();
    }
    catch (...)
    {
    }
    for (auto& c : what)
        if (static_cast<unsigned char>(c) >= 0x80)
            c = '?';
    if (g_rec)
    {
        g_rec->events.push_back({{"e", "Abort"}, {"what", what.substr(0, 300)}});
        try
        {
            g_rec->finalize_and_write(g_out);
        }
        catch (...)
        {
        }
    }
    std::_Exit(0);
}

int main(int argc, char** argv)
{
    if (argc < 2)
    {
        std::cerr << "usage: vsim <out.ndjson> key=value...\n";
        return 2;
    }
    std::string out = argv[1];
    auto kv = parse_args(argc, argv, 2);
    unsigned seed = argval<unsigned>(kv, "seed", 1);
    size_type nslots = argval<size_type>(kv, "slots", 8);
    int nevents = argval<int>(kv, "events", 3);
    int nprims = argval<int>(kv, "prims", 3);
    // odd-numbered events get this many primaries instead (-1: same as prims): lets an event whose
    // primaries overflow the initializer capacity be followed by a valid one on the same (reset) state
    int primsalt = argval<int>(kv, "primsalt", -1);
    size_type initcap = argval<size_type>(kv, "initcap", 4096);
    double secfactor = argval<double>(kv, "secfactor", 3.0);
    std::string order = argval<std::string>(kv, "order", "none");
    int fluct = argval<int>(kv, "fluct", 0);
    double emax = argval<double>(kv, "emax", 30.0);
    long maxsteps = argval<long>(kv, "maxsteps", 20000);
    int inflight = argval<int>(kv, "inflight", 0);  // insert next event after k iterations of the previous
    double scale = argval<double>(kv, "scale", 1.0);
    int dets = argval<int>(kv, "dets", 1);  // callbacks with detector maps
    int diag = argval<int>(kv, "diag", 1);  // ActionDiagnostic + StepDiagnostic
    int ptype = argval<int>(kv, "ptype", -1);  // primary type (-1: random gamma/e-/e+)
    double emin = argval<double>(kv, "emin", 0.3);
    int axial = argval<int>(kv, "axial", 0);  // primaries start at the origin along a coordinate axis
    double fixedstep = argval<double>(kv, "fixedstep", 0.0);  // PhysicsParamsOptions::fixed_step_limiter [cm]
    int killat = argval<int>(kv, "killat", 0);  // call Stepper::kill_active() after k iterations of each event
    std::string script_path = argval<std::string>(kv, "script", "");  // scripted physics (replay of a TLC behaviour)
    verif::Script script;
    json script_json;
    if (!script_path.empty())
    {
        std::ifstream in(script_path);
        in >> script_json;
        nslots = script_json.value("slots", nslots);
        initcap = script_json.value("initcap", initcap);
        order = script_json.value("order", order);
        secfactor = script_json.value("secfactor", secfactor);
        for (auto it = script_json["tracks"].begin(); it != script_json["tracks"].end(); ++it)
        {
            int tid = std::stoi(it.key());
            for (auto const& o : it.value())
            {
                verif::ScriptedOutcome oc;
                oc.alive = o["alive"];
                oc.e1 = o["E1"];
                oc.dep = o["dep"];
                for (auto const& sc : o["secs"])
                    oc.secs.push_back({sc[0].get<int>(), sc[1].get<double>()});
                script.tracks[{0, tid}].push_back(oc);
            }
        }
    }

    Recorder rec;
    g_rec = &rec;
    g_out = out;
    std::set_terminate(on_terminate);
    Shared sh;
    sh.rec = &rec;
    sh.order = order;

    // ---- primaries (seeded) ----
    std::mt19937_64 rng(seed);
    std::uniform_real_distribution<double> u01(0, 1);
    std::vector<std::vector<Primary>> primaries(nevents);
    double const me = 0.5109989461;
    double total_w = 0;
    for (int e = 0; e < nevents; ++e)
        for (int k = 0, np = (primsalt >= 0 && e % 2 == 1) ? primsalt : nprims; k < np; ++k)
        {
            Primary p;
            int pt = ptype >= 0 ? ptype : int(rng() % 3);
            p.particle_id = ParticleId(pt);
            double E = emin * std::pow(emax / emin, u01(rng));
            p.energy = units::MevEnergy{E};
            double r = (rng() % 4 == 0) ? 0.0 : 4.5;
            p.position = {r * (2 * u01(rng) - 1), r * (2 * u01(rng) - 1), r * (2 * u01(rng) - 1)};
            double cz = 2 * u01(rng) - 1, ph = 2 * 3.14159265358979323846 * u01(rng);
            double sz = std::sqrt(1 - cz * cz);
            p.direction = make_unit_vector(Real3{sz * std::cos(ph), sz * std::sin(ph), cz});
            if (axial)
            {
                p.position = {0, 0, 0};
                p.direction = {0, 0, 0};
                p.direction[(e + k) % 3] = ((e + k) % 2 == 0) ? 1.0 : -1.0;
            }
            p.time = 0;
            p.event_id = EventId(e);
            primaries[e].push_back(p);
            total_w += E + (pt == 2 ? 2 * me : 0);
        }
    if (!script_path.empty())
    {
        // primaries per iteration come from the script; all start at the origin of the inner box
        total_w = 0;
        for (auto const& it : script_json["iters"])
            for (auto const& pj : it["prims"])
                total_w += pj["E"].get<double>() + (pj["pt"].get<int>() == 2 ? 1.0 : 0.0);
        // dyadic quantum: every scripted energy (multiples of 1/4 MeV) is an exact number of quanta
        rec.quantum = 1.0 / 1024;
        (void)total_w;
    }
    else
        rec.quantum = total_w / double(1 << 28);

    // ---- problem ----
    verif::ProblemOptions po;
    po.fluct = fluct;
    po.secondary_stack_factor = secfactor;
    po.init_capacity = initcap;
    po.max_events = std::max(nevents, 1);
    po.rng_seed = seed * 7919u + 13u;
    po.table_scale = scale;
    po.field_tesla = argval<double>(kv, "field", 0.0);
    po.msc = argval<int>(kv, "msc", 0) != 0;
    po.fixed_step = fixedstep;
    if (po.field_tesla != 0)
        sh.chord_tol = FieldDriverOptions{}.delta_intersection * 1.001;
    if (!script_path.empty())
    {
        po.script = &script;
        po.electron_mass = 0.5;
    }
    {
        std::map<std::string, TrackOrder> om = {{"none", TrackOrder::none},
                                                 {"init_charge", TrackOrder::init_charge},
                                                 {"reindex_shuffle", TrackOrder::reindex_shuffle},
                                                 {"reindex_status", TrackOrder::reindex_status},
                                                 {"reindex_particle_type", TrackOrder::reindex_particle_type},
                                                 {"reindex_along_step_action", TrackOrder::reindex_along_step_action},
                                                 {"reindex_step_limit_action", TrackOrder::reindex_step_limit_action},
                                                 {"reindex_both_action", TrackOrder::reindex_both_action}};
        if (!om.count(order))
        {
            std::cerr << "unknown order " << order << "\n";
            return 2;
        }
        po.track_order = om[order];
    }
    verif::Problem prob;
    int exit_code = 0;
    try
    {
        verif::build_problem(prob, po);
        verif::finalize_problem(prob);
        auto& reg = *prob.action_reg;
        sh.actions = prob.action_reg.get();

        // One StepCollector per problem (its aux label is unique); it may carry several
        // callbacks, all with or all without detector maps.  dets = 0: two unfiltered callbacks
        // (full and partial selection); 1: inner-volume detector; 2: inner (no nonzero filter) +
        // world (nonzero filter) => combined filter has nonzero OFF; 3: both ask nonzero => ON.
        std::vector<std::shared_ptr<StepInterface>> callbacks;
        std::shared_ptr<SimpleCalo> calo;
        std::shared_ptr<ActionDiagnostic> adiag;
        std::shared_ptr<StepDiagnostic> sdiag;
        size_type const step_bins = 40;
        if (diag)
        {
            adiag = ActionDiagnostic::make_and_insert(*prob.core);
            sdiag = StepDiagnostic::make_and_insert(*prob.core, step_bins);
        }
        json cbs = json::array();
        if (dets == 0)
        {
            callbacks.push_back(std::make_shared<Callback>(0, StepInterface::Filters{}, StepSelection::all(), &sh));
            cbs.push_back({{"cb", 0}, {"dets", json::array()}, {"detmap", json::array()}, {"nonzero", false}});
            StepSelection part;
            part.energy_deposition = true;
            part.points[StepPoint::pre].energy = true;
            part.points[StepPoint::post].pos = true;
            part.track_step_count = true;
            callbacks.push_back(std::make_shared<Callback>(1, StepInterface::Filters{}, part, &sh));
            cbs.push_back({{"cb", 1}, {"dets", json::array()}, {"detmap", json::array()}, {"nonzero", false}});
        }
        else if (dets == 4 || dets == 5)
        {
            // SimpleCalo alone (it assumes it owns all detectors of the collector)
            std::vector<Label> labels = {Label{"inner"}};
            if (dets == 4)
                labels.push_back(Label{"world"});
            calo = std::make_shared<SimpleCalo>(labels, *prob.geo, 1);
            callbacks.push_back(calo);
            auto f = calo->filters();
            json dv = json::array(), dm = json::array();
            for (auto const& kv : f.detectors)
            {
                dv.push_back(int(kv.first.get()));
                dm.push_back({int(kv.first.get()), int(kv.second.get())});
            }
            cbs.push_back({{"cb", 0}, {"dets", dv}, {"detmap", dm}, {"nonzero", f.nonzero_energy_deposition}});
        }
        else if (dets == 8)
        {
            // unfiltered, and NO pre-step quantity in the union of the selections (no pre-step gather action at all)
            StepSelection post_only;
            post_only.energy_deposition = true;
            post_only.event_id = true;
            post_only.track_step_count = true;
            post_only.step_length = true;
            post_only.points[StepPoint::post].energy = true;
            post_only.points[StepPoint::post].pos = true;
            callbacks.push_back(std::make_shared<Callback>(0, StepInterface::Filters{}, post_only, &sh));
            cbs.push_back({{"cb", 0}, {"dets", json::array()}, {"detmap", json::array()}, {"nonzero", false}});
        }
        else
        {
            // dets = 6, 7: detector maps whose combined selection has NO pre-step quantity (the volume ->
            // detector lookup still has to happen at the pre-step point)
            StepSelection post_only;
            post_only.energy_deposition = true;
            post_only.event_id = true;
            post_only.track_step_count = true;
            post_only.points[StepPoint::post].energy = true;
            post_only.points[StepPoint::post].pos = true;
            StepSelection dep_only;
            dep_only.energy_deposition = true;
            dep_only.particle = true;
            StepSelection const sel1 = dets >= 6 ? post_only : StepSelection::all();
            StepSelection const sel2 = dets >= 6 ? dep_only : StepSelection::all();
            StepInterface::Filters f1;
            f1.detectors[VolumeId{1}] = DetectorId{0};
            f1.nonzero_energy_deposition = (dets == 3);
            callbacks.push_back(std::make_shared<Callback>(0, f1, sel1, &sh));
            cbs.push_back({{"cb", 0}, {"dets", {1}}, {"detmap", {{1, 0}}}, {"nonzero", dets == 3}});
            if (dets >= 2 && dets != 6)
            {
                StepInterface::Filters f2;
                f2.detectors[VolumeId{2}] = DetectorId{1};
                f2.nonzero_energy_deposition = true;
                callbacks.push_back(std::make_shared<Callback>(1, f2, sel2, &sh));
                cbs.push_back({{"cb", 1}, {"dets", {2}}, {"detmap", {{2, 1}}}, {"nonzero", true}});
            }
        }
        auto collector = StepCollector::make_and_insert(*prob.core, callbacks);
        // observers (registered last: highest ids within each order)
        struct OS
        {
            StepActionOrder o;
            char const* n;
        };
        for (OS os : {OS{StepActionOrder::generate, "Gen"}, OS{StepActionOrder::user_start, "Start"},
                      OS{StepActionOrder::user_pre, "Pre"}, OS{StepActionOrder::user_post, "Post"},
                      OS{StepActionOrder::end, "End"}})
            reg.insert(std::make_shared<ObserverAction>(reg.next_id(), os.o, os.n, &sh));

        StepperInput si;
        si.params = prob.core;
        si.stream_id = StreamId{0};
        si.num_track_slots = nslots;
        Stepper<MemSpace::host> stepper(si);
        sh.prev_slots.assign(nslots, json{});
        for (size_type i = 0; i < nslots; ++i)
            sh.prev_slots[i] = {{"slot", int(i) + 1}, {"st", "inactive"}};
        sh.pos0.assign(nslots, Real3{0, 0, 0});

        json parts = json::array();
        for (auto pid : range(ParticleId{prob.particles->size()}))
        {
            auto pv = prob.particles->get(pid);
            parts.push_back({{"id", int(pid.get())}, {"name", prob.particles->id_to_label(pid)},
                             {"q", int(pv.charge().value())}, {"anti", pv.is_antiparticle()},
                             {"twom", pv.is_antiparticle() ? rec.Q(2 * pv.mass().value()) : 0}});
        }
        size_type seccap = stepper.state_ref().physics.secondaries.capacity();
        rec.add({{"e", "Config"}, {"nslots", int(nslots)}, {"initcap", int(initcap)}, {"seccap", int(seccap)},
                 {"order", order}, {"parts", parts}, {"cbs", cbs}, {"seed", int(seed)}, {"fluct", fluct},
                 {"quantum", rec.quantum},
                 {"msc", po.msc}, {"field", po.field_tesla != 0},
                 {"stepbins", sdiag ? int(sdiag->calc_steps().at(0).size()) : 0}, {"diag", diag != 0}});

        long iters = 0;
        auto do_step = [&](std::vector<Primary> const* prims) -> StepperResult {
            json ins;
            if (prims)
            {
                ins["e"] = "Insert";
                json arr = json::array();
                for (auto const& p : *prims)
                    arr.push_back({{"ev", int(p.event_id.get())}, {"par", -1},
                                   {"pt", int(p.particle_id.get())}, {"Et", rec.T(p.energy.value())},
                                   {"Eq", rec.Q(p.energy.value())}, {"tt", rec.T(p.time)}, {"pos", rec.P(p.position)}});
                ins["prims"] = arr;
                rec.add(ins);
            }
            else
                rec.add({{"e", "Insert"}, {"prims", json::array()}});
            StepperResult r;
            try
            {
                r = prims ? stepper(make_span(*prims)) : stepper();
            }
            catch (RuntimeError const& e)
            {
                std::string what = e.details().what;
                std::string kind = what.find("insufficient") != std::string::npos ? "capacity" : "other";
                rec.add({{"e", "Error"}, {"kind", kind}, {"what", what.substr(0, 200)},
                         {"ctr", counters_json(dynamic_cast<CoreStateHost&>(*stepper.sp_state()))}});
                stepper.reset_state();
                sh.pending_deliver.clear();
                for (size_type i = 0; i < nslots; ++i)
                    sh.prev_slots[i] = {{"slot", int(i) + 1}, {"st", "inactive"}};
                sh.prev_inits.clear();
                rec.add({{"e", "Reset"}});
                return StepperResult{};
            }
            rec.add({{"e", "Result"}, {"generated", int(r.generated)}, {"queued", int(r.queued)},
                     {"active", int(r.active)}, {"alive", int(r.alive)}});
            ++iters;
            return r;
        };

        int e = 0;
        bool hung = false;
        if (!script_path.empty())
        {
            stepper.reseed(UniqueEventId{0});
            rec.add({{"e", "Reseed"}, {"ev", 0}});
            StepperResult r{};
            bool first = true;
            for (auto const& it : script_json["iters"])
            {
                std::vector<Primary> prims;
                for (auto const& pj : it["prims"])
                {
                    Primary p;
                    p.particle_id = ParticleId(pj["pt"].get<int>());
                    p.energy = units::MevEnergy{pj["E"].get<double>()};
                    p.position = {0, 0, 0};
                    p.direction = {0, 0, 1};
                    p.time = 0;
                    p.event_id = EventId(0);
                    prims.push_back(p);
                }
                if (!first && !r && prims.empty())
                    break;
                r = prims.empty() ? do_step(nullptr) : do_step(&prims);
                first = false;
                if (iters > maxsteps)
                    break;
            }
            while (r && iters <= maxsteps)
                r = do_step(nullptr);
            if (r)
            {
                rec.add({{"e", "Hang"}, {"iters", int(iters)}});
                hung = true;
            }
            else
                rec.add({{"e", "EventsDone"}, {"upto", 1}});
            for (auto const& err : script.errors)
                rec.add({{"e", "OffScript"}, {"what", err}});
            e = nevents;
        }
        while (e < nevents && !hung)
        {
            stepper.reseed(UniqueEventId{static_cast<UniqueEventId::size_type>(e)});
            rec.add({{"e", "Reseed"}, {"ev", e}});
            StepperResult r = do_step(&primaries[e]);
            ++e;
            long k = 0;
            while (r)
            {
                ++k;
                if (killat > 0 && k == killat)
                {
                    stepper.kill_active();
                    json ch = json::array();
                    auto& cs = dynamic_cast<CoreStateHost&>(*stepper.sp_state());
                    for (size_type i = 0; i < nslots; ++i)
                    {
                        json pj = project_slot(*prob.core, cs, TrackSlotId{i}, rec);
                        if (pj != sh.prev_slots[i])
                        {
                            ch.push_back(pj);
                            sh.prev_slots[i] = pj;
                        }
                    }
                    rec.add({{"e", "KillActive"}, {"changed", ch}});
                }
                if (inflight > 0 && k == inflight && e < nevents)
                {
                    r = do_step(&primaries[e]);
                    ++e;
                }
                else
                    r = do_step(nullptr);
                if (iters > maxsteps)
                {
                    rec.add({{"e", "Hang"}, {"iters", int(iters)}});
                    hung = true;
                    break;
                }
            }
            if (!hung)
                rec.add({{"e", "EventsDone"}, {"upto", e}});
        }
        {
            json t = {{"e", "Tally"}};
            if (calo)
            {
                json c = json::array();
                for (double v : calo->calc_total_energy_deposition())
                    c.push_back(rec.Q(v));
                t["calo"] = c;
            }
            if (adiag)
            {
                json a = json::array();
                auto counts = adiag->calc_actions();
                for (size_type p = 0; p < counts.size(); ++p)
                    for (size_type ai = 0; ai < counts[p].size(); ++ai)
                        if (counts[p][ai] > 0)
                            a.push_back({{"pt", int(p)}, {"act", reg.id_to_label(ActionId{ai})}, {"n", int(counts[p][ai])}});
                t["actions"] = a;
                json st = json::array();
                auto sc = sdiag->calc_steps();
                for (size_type p = 0; p < sc.size(); ++p)
                    for (size_type b = 0; b < sc[p].size(); ++b)
                        if (sc[p][b] > 0)
                            st.push_back({{"pt", int(p)}, {"bin", int(b)}, {"n", int(sc[p][b])}});
                t["steps"] = st;
            }
            rec.add(t);
        }
    }
    catch (std::exception const& ex)
    {
        rec.add({{"e", "Abort"}, {"what", std::string(ex.what()).substr(0, 300)}});
        exit_code = 0;
    }
    rec.add({{"e", "Close"}});
    rec.finalize_and_write(out);
    std::cerr << "vsim: " << rec.events.size() << " events, " << rec.nsteps << " track steps\n";
    return exit_code;
}
