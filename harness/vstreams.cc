// vstreams: concurrent streams sharing one CoreParams (C07).
// script: {"seed":S,"prims":P,"emax":E,"slots":N,"diag":bool,"status_checker":bool,"calo":bool,
//          "phases":[{"streams":K,"assign":[[ev...] per stream],"mode":"serial"|"free"|"baton",
//                     "pattern":[thread ids...]}]}
// Every phase builds a fresh CoreParams with max_streams = K; each stream's Stepper is
// constructed INSIDE its thread (as celer-sim does lazily inside its OpenMP loop), then the
// assigned events are transported.  "baton": one Stepper call (construction, each step) at a
// time, in the order given by the repeating pattern of thread ids (threads that are finished
// are skipped) -- a TLC-generated schedule at call granularity.  "free": no coordination.
// Output: Obs records (same format as vhist) + Phase/Tally/Close records.
#include <atomic>
#include <condition_variable>
#include <map>
#include <mutex>
#include <thread>

#include "corecel/sys/ActionRegistry.hh"
#include "celeritas/global/CoreState.hh"
#include "celeritas/global/Stepper.hh"
#include "celeritas/phys/Primary.hh"
#include "celeritas/track/StatusChecker.hh"
#include "celeritas/user/ActionDiagnostic.hh"
#include "celeritas/user/StepCollector.hh"
#include "celeritas/user/StepData.hh"
#include "celeritas/user/SimpleCalo.hh"
#include "celeritas/user/StepDiagnostic.hh"
#include "celeritas/user/StepInterface.hh"

#include "vjson.hh"
#include "vproblem.hh"

using namespace celeritas;
using verif::json;

namespace
{
std::mutex g_tok_mutex;
verif::Interner g_tok;
std::map<std::string, int> g_labels;
int tok(double v)
{
    std::lock_guard<std::mutex> lk(g_tok_mutex);
    return g_tok(v == 0 ? 0.0 : v);
}
int label_tok(std::string const& s)
{
    std::lock_guard<std::mutex> lk(g_tok_mutex);
    auto it = g_labels.find(s);
    if (it != g_labels.end())
        return it->second;
    int t = int(g_labels.size()) + 1;
    g_labels.emplace(s, t);
    return t;
}

struct StepRec
{
    int tid, ns;
    std::vector<int> toks;
    bool operator<(StepRec const& o) const { return std::tie(tid, ns) < std::tie(o.tid, o.ns); }
};

//! Shared callback: one buffer per stream, each touched only by its own stream's thread
class Collector final : public StepInterface
{
  public:
    Collector(ActionRegistry const* reg, size_type nstreams) : reg_(reg), steps(nstreams) {}
    Filters filters() const final { return {}; }
    StepSelection selection() const final { return StepSelection::all(); }
    void process_steps(HostStepState hs) final
    {
        auto const& d = hs.steps.data;
        auto& out = steps[hs.stream_id.get()];
        for (size_type i = 0; i < d.size(); ++i)
        {
            TrackSlotId ts{i};
            if (!d.track_id[ts])
                continue;
            StepRec r;
            r.tid = int(d.track_id[ts].get());
            r.ns = int(d.track_step_count[ts]);
            r.toks = {r.tid,
                      d.parent_id[ts] ? int(d.parent_id[ts].get()) : -1,
                      r.ns,
                      int(d.particle[ts].get()),
                      label_tok(std::string(reg_->id_to_label(d.action_id[ts]))),
                      int(d.event_id[ts].get()),
                      tok(d.step_length[ts]),
                      tok(d.energy_deposition[ts].value())};
            for (auto sp : range(StepPoint::size_))
            {
                auto const& pt = d.points[sp];
                r.toks.push_back(tok(pt.time[ts]));
                r.toks.push_back(tok(pt.energy[ts].value()));
                for (int k = 0; k < 3; ++k)
                {
                    r.toks.push_back(tok(pt.pos[ts][k]));
                    r.toks.push_back(tok(pt.dir[ts][k]));
                }
                r.toks.push_back(pt.volume_id[ts] ? int(pt.volume_id[ts].get()) : -1);
            }
            out.push_back(std::move(r));
        }
    }
    void process_steps(DeviceStepState) final {}

  private:
    ActionRegistry const* reg_;

  public:
    std::vector<std::vector<StepRec>> steps;
};

std::vector<Primary> make_primaries(unsigned seed, int ev, int nprims, double emax)
{
    std::mt19937_64 rng(seed * 1000003ull + ev * 7919ull + 17);
    std::uniform_real_distribution<double> u01(0, 1);
    std::vector<Primary> out;
    for (int k = 0; k < nprims; ++k)
    {
        Primary p;
        p.particle_id = ParticleId(int(rng() % 3));
        p.energy = units::MevEnergy{0.3 * std::pow(emax / 0.3, u01(rng))};
        p.position = {4.5 * (2 * u01(rng) - 1), 4.5 * (2 * u01(rng) - 1), 4.5 * (2 * u01(rng) - 1)};
        double cz = 2 * u01(rng) - 1, ph = 6.283185307179586 * u01(rng), sz = std::sqrt(1 - cz * cz);
        p.direction = make_unit_vector(Real3{sz * std::cos(ph), sz * std::sin(ph), cz});
        p.time = 0;
        p.event_id = EventId(ev);
        out.push_back(p);
    }
    return out;
}

//! One Stepper call at a time, in the order of a repeating pattern of thread ids
class Baton
{
  public:
    Baton(std::vector<int> pattern, int nthreads, bool enabled)
        : pattern_(std::move(pattern)), done_(nthreads, false), enabled_(enabled)
    {
        if (pattern_.empty())
            for (int i = 0; i < nthreads; ++i)
                pattern_.push_back(i);
    }
    void acquire(int tid)
    {
        if (!enabled_)
            return;
        std::unique_lock<std::mutex> lk(m_);
        cv_.wait(lk, [&] { return current() == tid; });
    }
    void release(int tid, bool finished)
    {
        if (!enabled_)
            return;
        {
            std::lock_guard<std::mutex> lk(m_);
            if (finished)
                done_[tid] = true;
            ++idx_;
            trace_.push_back(tid);
        }
        cv_.notify_all();
    }
    void finish_idle(int tid)
    {
        // a thread leaving while it does not hold the baton
        if (!enabled_)
            return;
        {
            std::lock_guard<std::mutex> lk(m_);
            done_[tid] = true;
        }
        cv_.notify_all();
    }
    std::vector<int> trace() const { return trace_; }

  private:
    int current()
    {
        // next not-finished thread in the pattern starting at idx_
        for (std::size_t k = 0; k < pattern_.size() * 2 + 2; ++k)
        {
            int t = pattern_[(idx_ + k) % pattern_.size()];
            if (t >= 0 && t < int(done_.size()) && !done_[t])
            {
                idx_ += k;
                return t;
            }
        }
        return -1;
    }
    std::vector<int> pattern_;
    std::vector<bool> done_;
    bool enabled_;
    std::size_t idx_{0};
    std::mutex m_;
    std::condition_variable cv_;
    std::vector<int> trace_;
};

std::vector<json> g_events;
std::mutex g_events_mutex;
void emit(json j)
{
    std::lock_guard<std::mutex> lk(g_events_mutex);
    g_events.push_back(std::move(j));
}
std::string g_out;
void flush()
{
    verif::NdjsonWriter w(g_out);
    for (auto const& e : g_events)
        w(e);
}
void on_terminate()
{
    g_events.push_back({{"e", "Abort"}, {"what", "terminate"}});
    flush();
    std::_Exit(0);
}
}  // namespace

int main(int argc, char** argv)
{
    if (argc != 3)
    {
        std::cerr << "usage: vstreams <script.json> <out.ndjson>\n";
        return 2;
    }
    json script;
    {
        std::ifstream in(argv[1]);
        in >> script;
    }
    g_out = argv[2];
    std::set_terminate(on_terminate);
    unsigned seed = script.value("seed", 1u);
    int nprims = script.value("prims", 3);
    double emax = script.value("emax", 30.0);
    size_type slots = script.value("slots", 8);
    bool diag = script.value("diag", false);
    bool status_checker = script.value("status_checker", false);
    // calo: the step collector holds ONLY a SimpleCalo (two detector volumes); no per-step streams are
    // recorded, the per-detector totals over all streams are compared with the serial phase
    bool use_calo = script.value("calo", false);
    int phaseidx = 0;
    for (auto const& phase : script["phases"])
    {
        ++phaseidx;
        int nstreams = phase["streams"];
        std::string mode = phase.value("mode", "free");
        std::vector<int> pattern = phase.value("pattern", std::vector<int>{});
        std::vector<std::vector<int>> assign = phase["assign"];
        try
        {
            verif::ProblemOptions po;
            po.table_scale = script.value("scale", 5);
            po.rng_seed = seed * 7919u + 13u;
            po.max_events = 64;
            po.max_streams = nstreams;
            verif::Problem prob;
            verif::build_problem(prob, po);
            if (status_checker)
            {
                auto sc = std::make_shared<StatusChecker>(prob.inp.action_reg->next_id(), prob.inp.aux_reg->next_id());
                prob.inp.action_reg->insert(sc);
                prob.inp.aux_reg->insert(sc);
            }
            verif::finalize_problem(prob);
            std::shared_ptr<ActionDiagnostic> adiag;
            std::shared_ptr<StepDiagnostic> sdiag;
            if (diag)
            {
                adiag = ActionDiagnostic::make_and_insert(*prob.core);
                sdiag = StepDiagnostic::make_and_insert(*prob.core, 20);
            }
            auto coll = std::make_shared<Collector>(prob.action_reg.get(), nstreams);
            std::shared_ptr<SimpleCalo> calo;
            if (use_calo)
                calo = std::make_shared<SimpleCalo>(std::vector<Label>{Label{"inner"}, Label{"world"}}, *prob.geo,
                                                    static_cast<size_type>(nstreams));
            auto sc = use_calo ? StepCollector::make_and_insert(*prob.core, {calo})
                               : StepCollector::make_and_insert(*prob.core, {coll});
            emit({{"e", "Run"}, {"run", phaseidx}, {"cfg", {{"streams", nstreams}, {"mode", mode}, {"diag", diag},
                                                            {"status_checker", status_checker}}},
                  {"ops", phase["assign"]}});
            Baton baton(pattern, nstreams, mode == "baton");
            std::atomic<int> failures{0};
            auto worker = [&](int t) {
                // a stream without events stays completely idle (no Stepper, so its lazily created
                // per-stream states never exist): sparse assignments leave gaps in the stream ids
                if (assign[t].empty() && mode != "baton")
                    return;
                try
                {
                    baton.acquire(t);
                    StepperInput si;
                    si.params = prob.core;
                    si.stream_id = StreamId{static_cast<size_type>(t)};
                    si.num_track_slots = slots;
                    Stepper<MemSpace::host> stepper(si);
                    baton.release(t, false);
                    for (int ev : assign[t])
                    {
                        auto prims = make_primaries(seed, ev, nprims, emax);
                        coll->steps[t].clear();
                        baton.acquire(t);
                        stepper.reseed(UniqueEventId{static_cast<UniqueEventId::size_type>(ev)});
                        StepperResult r = stepper(make_span(prims));
                        baton.release(t, false);
                        long k = 0;
                        while (r && k < 200000)
                        {
                            baton.acquire(t);
                            r = stepper();
                            baton.release(t, false);
                            ++k;
                        }
                        if (r)
                        {
                            emit({{"e", "Hang"}, {"run", phaseidx}, {"ev", ev}});
                            continue;
                        }
                        if (use_calo)
                            continue;
                        std::sort(coll->steps[t].begin(), coll->steps[t].end());
                        json stream = json::array();
                        for (auto const& s : coll->steps[t])
                            for (int x : s.toks)
                                stream.push_back(x);
                        json ptoks = json::array();
                        for (auto const& p : prims)
                        {
                            ptoks.push_back(int(p.particle_id.get()));
                            ptoks.push_back(tok(p.energy.value()));
                        }
                        emit({{"e", "Obs"}, {"run", phaseidx}, {"stream_id", t},
                              {"key", {{"ev", ev}, {"slots", int(slots)}, {"layout", "none"}, {"fluct", 0},
                                       {"scale", script.value("scale", 5)}}},
                              {"prims", ptoks}, {"nsteps", int(coll->steps[t].size())}, {"stream", stream}});
                    }
                    baton.finish_idle(t);
                }
                catch (std::exception const& ex)
                {
                    ++failures;
                    std::string w = ex.what();
                    for (auto& c : w)
                        if (static_cast<unsigned char>(c) >= 0x80)
                            c = '?';
                    emit({{"e", "Abort"}, {"run", phaseidx}, {"thread", t}, {"what", w.substr(0, 300)}});
                    baton.finish_idle(t);
                }
            };
            if (mode == "serial")
            {
                for (int t = 0; t < nstreams; ++t)
                    worker(t);
            }
            else
            {
                std::vector<std::thread> threads;
                for (int t = 0; t < nstreams; ++t)
                    threads.emplace_back(worker, t);
                for (auto& th : threads)
                    th.join();
            }
            if (adiag || calo)
            {
                // totals over all streams: a function of the set of events transported only
                json a = json::array();
                if (adiag)
                {
                    auto counts = adiag->calc_actions();
                    for (size_type p = 0; p < counts.size(); ++p)
                        for (size_type ai = 0; ai < counts[p].size(); ++ai)
                            if (counts[p][ai] > 0)
                                a.push_back({int(p), label_tok(std::string(prob.action_reg->id_to_label(ActionId{ai}))),
                                             int(counts[p][ai])});
                    // StepDiagnostic: tracks per (particle, number-of-steps bin), tagged 1000 + particle
                    auto steps = sdiag->calc_steps();
                    for (size_type p = 0; p < steps.size(); ++p)
                        for (size_type b = 0; b < steps[p].size(); ++b)
                            if (steps[p][b] > 0)
                                a.push_back({1000 + int(p), int(b), int(steps[p][b])});
                }
                // SimpleCalo: per-detector totals in two staggered fixed-point roundings (quantum 2^-16 MeV);
                // sums taken in a different order agree in at least one of them
                json c = json::array();
                if (calo)
                {
                    auto tot = calo->calc_total_energy_deposition();
                    for (size_type d = 0; d < tot.size(); ++d)
                        c.push_back({int(d), int(std::llround(tot[d] * 65536.0)), int(std::llround(tot[d] * 65536.0 + 0.5))});
                }
                std::vector<int> evs;
                for (auto const& v : assign)
                    evs.insert(evs.end(), v.begin(), v.end());
                std::sort(evs.begin(), evs.end());
                emit({{"e", "Tally"}, {"run", phaseidx}, {"events", evs}, {"actions", a}, {"calo", c}});
            }
            if (mode == "baton")
                emit({{"e", "Schedule"}, {"run", phaseidx}, {"calls", baton.trace().size()}});
        }
        catch (std::exception const& ex)
        {
            std::string w = ex.what();
            for (auto& c : w)
                if (static_cast<unsigned char>(c) >= 0x80)
                    c = '?';
            emit({{"e", "Abort"}, {"run", phaseidx}, {"what", w.substr(0, 300)}});
        }
    }
    emit({{"e", "Close"}});
    flush();
    std::cerr << "vstreams: " << g_events.size() << " records\n";
    return 0;
}
