// C12 harness: drive the REAL ORANGE surface classes, SurfaceTranslator/SurfaceTransformer
// (through the public apply_transform), RecursiveSimplifier/SurfaceSimplifier and the
// transform classes on INTEGER parameters, points, directions and transforms, and log one
// ndjson record per case with arguments and the CODE's results.
//
// The reference semantics live in spec/Surfaces.tla (exact integer quadric algebra); this
// program computes no expected values.  What it does compute is input preparation and
// projection only:
//   * normalisation of integer directions / plane normals for the C++ API,
//   * integer images q = (R p)/den + t of lattice points (re-derived and checked by TLC),
//   * for each reported distance t the rational enclosure lo/D < t/|d| < hi/D,
//   * fixed-point quantisation (2^14) of the reported normal,
//   * nearest integers of transformed points with an "exact integer" flag and a 1e-9 bracket.
//
// Record kinds (field "e"):
//   Surf  : s, pts[{p, sn, nq, rays[{d, st, n, r[{k,pos,lo,hi,D}]}]}]
//   Xform : s, T{R,den,t}, via, out{t,d}, pts[{p, q, sn}]
//   Simp  : s, out{t,d}, flip, pts[{p, sn}]
//   Tf    : cls, T, pts[{p, q, up, upx, upb, dn, dnx, dnb, du, dux, dub}],
//                   dirs[{d, r, ru, rux, rub, rd, rdx, rdb}]
// Matrix utilities (orange/MatrixUtils) on integer inputs (mode mat), results as nearest integers
// with "x" (every value an exact integer) and "b" (within 1e-9) flags:
//   MDet   : ty(int|real), A, det, tr, x
//   MMul   : ty, n(3|4), A, B, AB = gemm(A,B), AtB = gemm(transpose,A,B), x
//   MVec   : ty, A, v, y, al, be, r = gemv(al,A,v,be,y), rt = gemv(transpose,...), s = gemv(A,v),
//            st = gemv(transpose,A,v), x
//   MTr    : A, T = make_transpose(A), x
//   MRot   : ax, q, R = make_rotation(Axis ax, Turn{q/4}), x;  with O: make_rotation(ax, turn, O)
//   MRotAx : n (integer axis, |n| = m), m, q (quarter turns 0..2), R = m^2 make_rotation(n/m, q/4), b
//   MOrtho : R, den (R R^T = den^2 I), L (lower triangular, positive diagonal), M = L R (the input),
//            out = den * orthonormalize(M), b
// Transform algebra (mode tfx); a transform operand is {cls: No|Translation|Transformation, T}:
//   TfComp : L, R, out (class of apply_transform(L, R)), pts[{p, m, q, up,upx,upb, dn,dnx,dnb}],
//            dirs[{d, r, ru,rux,rub}]     (m = R(p), q = L(m): the harness' lattice images)
//   TfInv  : T, via (calc_inverse|from_inverse|variant), pts[{p, q, iu,iux,iub, id,idx,idb}]
//   TfSimp : op (simplify|promote), T, out, pts[{p, q, up, upx, upb}]
//   TfTol  : k (rotation angle = k * eps / 4 about ax), ax, out, within (every probe point of
//            unit length moved by <= eps between the given and the simplified transform)
// SignedPermutation (mode sperm):
//   SPerm  : ax[[sign, axis]x3], ok, val, perm, rt, up (matrix of rotate_up), dn (of rotate_down),
//            tup, tdn (transform_up / transform_down)
//   SPermQ : ax, q, ok, val, up          make_permutation(Axis ax, QuarterTurn{q})
#include <array>
#include <cmath>
#include <cstdlib>
#include <set>
#include <sstream>
#include <variant>

#include "corecel/cont/Array.hh"
#include "corecel/cont/Span.hh"
#include "corecel/math/ArrayUtils.hh"
#include "orange/MatrixUtils.hh"
#include "orange/OrangeTypes.hh"
#include "orange/surf/RecursiveSimplifier.hh"
#include "orange/surf/SurfaceSimplifier.hh"
#include "orange/surf/VariantSurface.hh"
#include "orange/surf/detail/AllSurfaces.hh"
#include "corecel/math/Turn.hh"
#include "orange/transform/SignedPermutation.hh"
#include "orange/transform/TransformSimplifier.hh"
#include "orange/transform/Transformation.hh"
#include "orange/transform/Translation.hh"
#include "orange/transform/VariantTransform.hh"

#include "vjson.hh"

using namespace celeritas;
using verif::json;

namespace
{
//---------------------------------------------------------------------------//
using I3 = std::array<int, 3>;
using IM3 = std::array<I3, 3>;

struct ISurf
{
    std::string t;
    std::vector<int> d;
};

struct ITrans
{
    IM3 R;
    int den;
    I3 t;
};

IM3 const identity{{{1, 0, 0}, {0, 1, 0}, {0, 0, 1}}};

Real3 to_real(I3 const& v)
{
    return Real3{real_type(v[0]), real_type(v[1]), real_type(v[2])};
}

json jv(I3 const& v)
{
    return json::array({v[0], v[1], v[2]});
}

json jsurf(ISurf const& s)
{
    return json{{"t", s.t}, {"d", s.d}};
}

json jtrans(ITrans const& T)
{
    return json{{"R", json::array({jv(T.R[0]), jv(T.R[1]), jv(T.R[2])})},
                {"den", T.den},
                {"t", jv(T.t)}};
}

int axis_of(std::string const& t)
{
    char c = t[1];
    return c == 'x' ? 0 : c == 'y' ? 1 : 2;
}

//---------------------------------------------------------------------------//
// Build the real surface object from integer parameters
VariantSurface build(ISurf const& s)
{
    auto R = [&s](int i) { return real_type(s.d[i]); };
    std::string const& t = s.t;
    if (t == "px")
        return PlaneX{R(0)};
    if (t == "py")
        return PlaneY{R(0)};
    if (t == "pz")
        return PlaneZ{R(0)};
    if (t == "cxc")
        return CCylX::from_radius_sq(R(0));
    if (t == "cyc")
        return CCylY::from_radius_sq(R(0));
    if (t == "czc")
        return CCylZ::from_radius_sq(R(0));
    if (t == "sc")
        return SphereCentered::from_radius_sq(R(0));
    if (t == "cx" || t == "cy" || t == "cz")
    {
        int T = axis_of(t);
        int U = (T == 0) ? 1 : 0;
        int V = (T == 2) ? 1 : 2;
        Real3 origin{0, 0, 0};
        origin[U] = R(0);
        origin[V] = R(1);
        if (T == 0)
            return CylX::from_radius_sq(origin, R(2));
        if (T == 1)
            return CylY::from_radius_sq(origin, R(2));
        return CylZ::from_radius_sq(origin, R(2));
    }
    if (t == "p")
    {
        real_type norm = std::sqrt(R(0) * R(0) + R(1) * R(1) + R(2) * R(2));
        return Plane{Real3{R(0) / norm, R(1) / norm, R(2) / norm}, R(3) / norm};
    }
    if (t == "s")
        return Sphere::from_radius_sq(Real3{R(0), R(1), R(2)}, R(3));
    if (t == "kx" || t == "ky" || t == "kz")
    {
        Real3 origin{R(0), R(1), R(2)};
        real_type tsq = R(3) / R(4);
        int T = axis_of(t);
        if (T == 0)
            return ConeX::from_tangent_sq(origin, tsq);
        if (T == 1)
            return ConeY::from_tangent_sq(origin, tsq);
        return ConeZ::from_tangent_sq(origin, tsq);
    }
    if (t == "sq")
        return SimpleQuadric{
            Real3{R(0), R(1), R(2)}, Real3{R(3), R(4), R(5)}, R(6)};
    if (t == "gq")
        return GeneralQuadric{Real3{R(0), R(1), R(2)},
                              Real3{R(3), R(4), R(5)},
                              Real3{R(6), R(7), R(8)},
                              R(9)};
    std::cerr << "unknown surface type " << t << std::endl;
    std::exit(3);
}

//! Type name and (when every stored value is an integer) the stored data
template<class S>
json describe(S const& surf)
{
    json d = json::array();
    bool all_int = true;
    for (real_type v : surf.data())
    {
        if (!(std::fabs(v) < 1e9) || std::nearbyint(v) != v)
        {
            all_int = false;
            break;
        }
    }
    if (all_int)
    {
        for (real_type v : surf.data())
            d.push_back(static_cast<int>(v));
    }
    return json{{"t", to_cstring(S::surface_type())}, {"d", d}};
}

json describe_variant(VariantSurface const& v)
{
    return std::visit([](auto const& S) { return describe(S); }, v);
}

int code_sense(VariantSurface const& v, Real3 const& pos)
{
    return std::visit(
        [&pos](auto const& S) { return static_cast<int>(S.calc_sense(pos)); },
        v);
}

//---------------------------------------------------------------------------//
// Integer helpers for input preparation
I3 matvec(IM3 const& R, I3 const& v)
{
    I3 r;
    for (int i = 0; i < 3; ++i)
        r[i] = R[i][0] * v[0] + R[i][1] * v[1] + R[i][2] * v[2];
    return r;
}

bool divisible(I3 const& v, int den)
{
    return v[0] % den == 0 && v[1] % den == 0 && v[2] % den == 0;
}

//! Nearest integers of a real vector with exactness flag and 1e-9 bracket
struct Rounded
{
    json v;
    bool exact{true};
    bool bracket{true};
};

Rounded rounded(Real3 const& x)
{
    Rounded r;
    r.v = json::array();
    for (real_type c : x)
    {
        real_type n = std::nearbyint(c);
        if (!(std::fabs(c) < 1e9))
        {
            r.v.push_back(1 << 30);
            r.exact = r.bracket = false;
            continue;
        }
        r.v.push_back(static_cast<int>(n));
        r.exact = r.exact && (n == c);
        r.bracket = r.bracket && (std::fabs(n - c) <= 1e-9);
    }
    return r;
}

Transformation make_transformation(ITrans const& T)
{
    SquareMatrixReal3 rot;
    for (int i = 0; i < 3; ++i)
        for (int j = 0; j < 3; ++j)
            rot[i][j] = real_type(T.R[i][j]) / real_type(T.den);
    return Transformation{rot, to_real(T.t)};
}

//---------------------------------------------------------------------------//
// Generators
using Rng = std::mt19937_64;

int rint(Rng& rng, int lo, int hi)
{
    return std::uniform_int_distribution<int>(lo, hi)(rng);
}

std::vector<I3> cube(int r)
{
    std::vector<I3> out;
    for (int x = -r; x <= r; ++x)
        for (int y = -r; y <= r; ++y)
            for (int z = -r; z <= r; ++z)
                out.push_back({x, y, z});
    return out;
}

std::vector<IM3> all_signed_perms()
{
    std::vector<IM3> out;
    int perm[3] = {0, 1, 2};
    do
    {
        for (int sg = 0; sg < 8; ++sg)
        {
            IM3 R{};
            for (int i = 0; i < 3; ++i)
                R[i][perm[i]] = (sg >> i) & 1 ? -1 : 1;
            out.push_back(R);
        }
    } while (std::next_permutation(perm, perm + 3));
    return out;
}

int det(IM3 const& R)
{
    return R[0][0] * (R[1][1] * R[2][2] - R[1][2] * R[2][1])
           - R[0][1] * (R[1][0] * R[2][2] - R[1][2] * R[2][0])
           + R[0][2] * (R[1][0] * R[2][1] - R[1][1] * R[2][0]);
}

IM3 matmul(IM3 const& A, IM3 const& B)
{
    IM3 C{};
    for (int i = 0; i < 3; ++i)
        for (int j = 0; j < 3; ++j)
            for (int k = 0; k < 3; ++k)
                C[i][j] += A[i][k] * B[k][j];
    return C;
}

//! Integer matrices R with R R^T = den^2 I
std::vector<std::pair<IM3, int>> pythagorean(int den)
{
    std::vector<std::pair<IM3, int>> out;
    auto rot = [&out](int ax, int c, int s, int h) {
        int u = (ax + 1) % 3, v = (ax + 2) % 3;
        IM3 R{};
        R[ax][ax] = h;
        R[u][u] = c;
        R[u][v] = -s;
        R[v][u] = s;
        R[v][v] = c;
        out.push_back({R, h});
    };
    if (den == 5)
    {
        for (int ax = 0; ax < 3; ++ax)
        {
            rot(ax, 3, 4, 5);
            rot(ax, 4, -3, 5);
            rot(ax, -3, 4, 5);
        }
    }
    else if (den == 13)
    {
        for (int ax = 0; ax < 3; ++ax)
        {
            rot(ax, 5, 12, 13);
            rot(ax, -12, 5, 13);
        }
    }
    else if (den == 3)
    {
        out.push_back({IM3{{{2, -1, 2}, {2, 2, -1}, {-1, 2, 2}}}, 3});
        out.push_back({IM3{{{1, 2, 2}, {2, 1, -2}, {2, -2, 1}}}, 3});
    }
    else if (den == 7)
    {
        out.push_back({IM3{{{2, 3, 6}, {3, -6, 2}, {6, 2, -3}}}, 7});
        out.push_back({IM3{{{6, 2, -3}, {-3, 6, -2}, {2, 3, 6}}}, 7});
    }
    return out;
}

//! Scale all lengths of a surface by k
ISurf scale_surf(ISurf s, int k)
{
    auto& d = s.d;
    std::string const& t = s.t;
    if (t == "px" || t == "py" || t == "pz")
        d[0] *= k;
    else if (t == "cxc" || t == "cyc" || t == "czc" || t == "sc")
        d[0] *= k * k;
    else if (t == "cx" || t == "cy" || t == "cz")
    {
        d[0] *= k;
        d[1] *= k;
        d[2] *= k * k;
    }
    else if (t == "p")
        d[3] *= k;
    else if (t == "s")
    {
        d[0] *= k;
        d[1] *= k;
        d[2] *= k;
        d[3] *= k * k;
    }
    else if (t[0] == 'k')
    {
        d[0] *= k;
        d[1] *= k;
        d[2] *= k;
    }
    else if (t == "sq")
    {
        d[3] *= k;
        d[4] *= k;
        d[5] *= k;
        d[6] *= k * k;
    }
    else if (t == "gq")
    {
        d[6] *= k;
        d[7] *= k;
        d[8] *= k;
        d[9] *= k * k;
    }
    return s;
}

char const* const axis_names[] = {"x", "y", "z"};

//! Every surface of every type with small parameters (gq: see gq_stride)
std::vector<ISurf> exhaustive_family(int gq_stride)
{
    std::vector<ISurf> out;
    for (int ax = 0; ax < 3; ++ax)
    {
        std::string a = axis_names[ax];
        for (int p = -2; p <= 2; ++p)
            out.push_back({"p" + a, {p}});
        for (int rsq : {1, 2, 4, 5, 8})
            out.push_back({"c" + a + "c", {rsq}});
        for (int u = -1; u <= 1; ++u)
            for (int v = -1; v <= 1; ++v)
                for (int rsq : {1, 2, 4})
                    out.push_back({"c" + a, {u, v, rsq}});
        for (auto const& o : cube(1))
            for (auto tt : {std::pair<int, int>{1, 1},
                            {1, 4},
                            {4, 1},
                            {1, 2},
                            {3, 1}})
                out.push_back(
                    {"k" + a, {o[0], o[1], o[2], tt.first, tt.second}});
    }
    for (int rsq : {1, 2, 3, 4, 5, 6, 8, 9})
        out.push_back({"sc", {rsq}});
    for (auto const& n : cube(1))
    {
        if (n == I3{0, 0, 0})
            continue;
        for (int d = -2; d <= 2; ++d)
            out.push_back({"p", {n[0], n[1], n[2], d}});
    }
    for (I3 n : {I3{2, 1, 0},
                 I3{1, -2, 2},
                 I3{3, 4, 0},
                 I3{-3, 0, 4},
                 I3{2, -1, -2},
                 I3{0, 2, -1},
                 I3{-2, -2, -1},
                 I3{0, 0, 2},
                 I3{0, -3, 0}})
        for (int d = -2; d <= 2; ++d)
            out.push_back({"p", {n[0], n[1], n[2], d}});
    for (auto const& o : cube(1))
        for (int rsq : {1, 2, 4})
            out.push_back({"s", {o[0], o[1], o[2], rsq}});
    // every simple quadric with coefficients in -1..1
    for (int code = 0; code < 2187; ++code)
    {
        std::vector<int> d(7);
        int c = code;
        for (int i = 0; i < 7; ++i)
        {
            d[i] = c % 3 - 1;
            c /= 3;
        }
        bool ok = false;
        for (int i = 0; i < 6; ++i)
            ok = ok || d[i] != 0;
        if (ok)
            out.push_back({"sq", d});
    }
    // general quadrics with coefficients in -1..1: every gq_stride-th
    for (int code = 0; code < 59049; code += gq_stride)
    {
        std::vector<int> d(10);
        int c = code;
        for (int i = 0; i < 10; ++i)
        {
            d[i] = c % 3 - 1;
            c /= 3;
        }
        bool ok = false;
        for (int i = 0; i < 9; ++i)
            ok = ok || d[i] != 0;
        if (ok)
            out.push_back({"gq", d});
    }
    return out;
}

//! Seeded random surface with parameters of magnitude up to m
ISurf random_surf(Rng& rng, int m)
{
    static char const* const types[] = {"px", "py", "pz", "cxc", "cyc", "czc",
                                        "sc", "cx", "cy",  "cz",  "p",   "s",
                                        "kx", "ky", "kz",  "sq",  "sq",  "gq",
                                        "gq", "gq"};
    std::string t = types[rint(rng, 0, 19)];
    auto c = [&rng, m]() { return rint(rng, -m, m); };
    auto nz3 = [&]() {
        I3 v;
        do
        {
            v = {c(), c(), c()};
        } while (v == I3{0, 0, 0});
        return v;
    };
    if (t[0] == 'p' && t.size() == 2)
        return {t, {c()}};
    if (t == "sc" || (t[0] == 'c' && t.size() == 3))
        return {t, {rint(rng, 1, m * m)}};
    if (t[0] == 'c')
        return {t, {c(), c(), rint(rng, 1, m * m)}};
    if (t == "p")
    {
        I3 n = nz3();
        return {t, {n[0], n[1], n[2], rint(rng, -2 * m, 2 * m)}};
    }
    if (t == "s")
        return {t, {c(), c(), c(), rint(rng, 1, m * m)}};
    if (t[0] == 'k')
    {
        static int const dens[] = {1, 2, 4, 8};
        return {t, {c(), c(), c(), rint(rng, 1, m), dens[rint(rng, 0, 3)]}};
    }
    if (t == "sq")
    {
        // often make it a recognisable shape so that the simplifier has work to do
        int shape = rint(rng, 0, 5);
        I3 a = {c(), c(), c()};
        I3 b = {c(), c(), c()};
        int g = rint(rng, -m * m, m * m);
        int w = rint(rng, 1, 3) * (rint(rng, 0, 1) ? 1 : -1);
        if (shape == 0)
            a = {w, w, w};
        else if (shape == 1)
        {
            int ax = rint(rng, 0, 2);
            a = {w, w, w};
            a[ax] = 0;
            if (rint(rng, 0, 1))
                b[ax] = 0;
        }
        else if (shape == 2)
        {
            // cone: w ( -tsq (x-x0)^2 + (y-y0)^2 + (z-z0)^2 )
            int ax = rint(rng, 0, 2);
            int tsq = rint(rng, 1, 3);
            I3 o = {rint(rng, -2, 2), rint(rng, -2, 2), rint(rng, -2, 2)};
            a = {w, w, w};
            a[ax] = -w * tsq;
            g = 0;
            for (int i = 0; i < 3; ++i)
            {
                b[i] = -2 * a[i] * o[i];
                g += a[i] * o[i] * o[i];
            }
            if (rint(rng, 0, 3) == 0)
                g += 1;  // hyperboloid
        }
        else if (shape == 3)
            a = {0, 0, 0};
        if (a == I3{0, 0, 0} && b == I3{0, 0, 0})
            b = nz3();
        return {t, {a[0], a[1], a[2], b[0], b[1], b[2], g}};
    }
    // gq
    I3 a = {c(), c(), c()};
    I3 x = {c(), c(), c()};
    I3 b = {c(), c(), c()};
    if (rint(rng, 0, 4) == 0)
        x = {0, 0, 0};
    if (rint(rng, 0, 5) == 0)
        a = {0, 0, 0};
    if (a == I3{0, 0, 0} && x == I3{0, 0, 0} && b == I3{0, 0, 0})
        b = nz3();
    return {t,
            {a[0],
             a[1],
             a[2],
             x[0],
             x[1],
             x[2],
             b[0],
             b[1],
             b[2],
             rint(rng, -m * m, m * m)}};
}

std::vector<I3> const& direction_pool()
{
    static std::vector<I3> pool = [] {
        std::vector<I3> p;
        for (auto const& d : cube(1))
            if (d != I3{0, 0, 0})
                p.push_back(d);
        for (I3 d : {I3{2, 1, 0},
                     I3{0, -1, 2},
                     I3{3, 4, 0},
                     I3{-4, 0, 3},
                     I3{1, -2, 2},
                     I3{2, 2, -1},
                     I3{0, 3, -4},
                     I3{-1, 2, 0},
                     I3{2, 0, 1},
                     I3{2, -3, 1},
                     I3{0, 0, 2},
                     I3{-3, 0, 0}})
            p.push_back(d);
        return p;
    }();
    return pool;
}

template<class T>
std::vector<T> sample(Rng& rng, std::vector<T> pool, std::size_t n)
{
    if (pool.size() <= n)
        return pool;
    std::shuffle(pool.begin(), pool.end(), rng);
    pool.resize(n);
    return pool;
}

//---------------------------------------------------------------------------//
struct Knobs
{
    int cube_r{2};  // probe points: k * cube(cube_r)
    int npts{16};  // points per surface (sense + normal)
    int nraypts{6};  // of which this many get rays
    int ndirs{6};  // directions per ray point
    int ntrans{4};  // transforms per surface
    int nxpts{8};  // points per transform / simplification
    bool edge{false};  // also: SurfaceState::off at points exactly on the surface
};

//! Rays from one point
json ray_records(VariantSurface const& v,
                 I3 const& p,
                 int sense,
                 std::vector<I3> const& dirs,
                 bool edge)
{
    json rays = json::array();
    Real3 pos = to_real(p);
    for (I3 const& d : dirs)
    {
        real_type norm = std::sqrt(real_type(d[0] * d[0] + d[1] * d[1] + d[2] * d[2]));
        Real3 dir{d[0] / norm, d[1] / norm, d[2] / norm};
        std::vector<SurfaceState> states;
        states.push_back(sense == 0 ? SurfaceState::on : SurfaceState::off);
        if (edge && sense == 0)
            states.push_back(SurfaceState::off);
        for (SurfaceState st : states)
        {
            std::vector<real_type> dist = std::visit(
                [&](auto const& S) {
                    auto r = S.calc_intersections(pos, dir, st);
                    return std::vector<real_type>(r.begin(), r.end());
                },
                v);
            verif::Ranker rank;
            for (real_type t : dist)
                if (t != no_intersection() && !std::isnan(t))
                    rank.add(t);
            rank.finalize();
            json roots = json::array();
            int finite = 0;
            for (real_type t : dist)
            {
                if (t == no_intersection())
                    continue;
                ++finite;
                json r;
                r["k"] = std::isnan(t) ? -1 : rank(t);
                r["pos"] = (t > 0);
                real_type tau = t / norm;
                int D = 1024;
                while (D > 1 && !(tau * D < 30000))
                    D /= 2;
                if (!(tau * D < 30000) || !(tau >= 0))
                {
                    r["D"] = 0;
                    r["lo"] = 0;
                    r["hi"] = 0;
                }
                else
                {
                    long lo = static_cast<long>(std::floor(tau * D)) - 1;
                    long hi = static_cast<long>(std::ceil(tau * D)) + 1;
                    r["D"] = D;
                    r["lo"] = static_cast<int>(std::max(0l, lo));
                    r["hi"] = static_cast<int>(hi);
                }
                roots.push_back(r);
            }
            rays.push_back({{"d", jv(d)},
                            {"st", st == SurfaceState::on ? 1 : 0},
                            {"n", finite},
                            {"r", roots}});
        }
    }
    return rays;
}

json normal_quanta(VariantSurface const& v, I3 const& p)
{
    Real3 n = std::visit(
        [&](auto const& S) { return S.calc_normal(to_real(p)); }, v);
    json out = json::array();
    for (real_type c : n)
    {
        if (!(std::fabs(c) < 4))
            return json::array();  // nan or inf: no normal
        out.push_back(static_cast<int>(std::llround(c * 16384)));
    }
    return out;
}

class Emitter
{
  public:
    Emitter(std::string const& path, std::uint64_t seed, Knobs k)
        : w_(path), rng_(seed), knobs_(k), sperms_(all_signed_perms())
    {
    }

    void surface(ISurf const& base, int k)
    {
        ISurf s = scale_surf(base, k);
        VariantSurface v = build(s);
        // probe points: k * cube; all lattice points on the surface first
        std::vector<I3> all = cube(knobs_.cube_r);
        for (auto& p : all)
            p = {p[0] * k, p[1] * k, p[2] * k};
        std::vector<I3> on, off;
        for (auto const& p : all)
            (code_sense(v, to_real(p)) == 0 ? on : off).push_back(p);
        std::vector<I3> pts = sample(rng_, on, knobs_.npts / 3);
        std::size_t n_on = pts.size();
        for (auto const& p : sample(rng_, off, knobs_.npts - n_on))
            pts.push_back(p);

        // --- sense, normal, rays
        {
            json rec{{"e", "Surf"}, {"s", jsurf(s)}};
            json jp = json::array();
            // rays from on-surface points and from the first few others
            std::size_t n_ray_on = std::min<std::size_t>(n_on, knobs_.nraypts / 2);
            std::size_t n_ray_off = knobs_.nraypts - n_ray_on;
            for (std::size_t i = 0; i < pts.size(); ++i)
            {
                I3 const& p = pts[i];
                int sn = code_sense(v, to_real(p));
                json e{{"p", jv(p)}, {"sn", sn}, {"nq", normal_quanta(v, p)}};
                bool with_rays = (i < n_on) ? (i < n_ray_on)
                                            : (i - n_on < n_ray_off);
                if (with_rays)
                {
                    e["rays"] = ray_records(
                        v, p, sn, sample(rng_, direction_pool(), knobs_.ndirs), knobs_.edge);
                }
                else
                {
                    e["rays"] = json::array();
                }
                jp.push_back(e);
            }
            rec["pts"] = jp;
            w_(rec);
        }

        // --- transforms
        for (int it = 0; it < knobs_.ntrans; ++it)
        {
            ITrans T = this->random_transform(k, it);
            std::vector<I3> xp;
            for (auto const& p : sample(rng_, pts, knobs_.nxpts))
                if (divisible(matvec(T.R, p), T.den))
                    xp.push_back(p);
            bool pure = (T.R == identity && T.den == 1);
            // a pure translation goes through both implementations
            for (int via = 0; via < (pure ? 2 : 1); ++via)
            {
                VariantTransform vt;
                if (pure && via == 0)
                    vt = Translation{to_real(T.t)};
                else
                    vt = make_transformation(T);
                VariantSurface out = apply_transform(vt, v);
                json rec{{"e", "Xform"},
                         {"s", jsurf(s)},
                         {"T", jtrans(T)},
                         {"via", (pure && via == 0) ? "translator" : "transformer"},
                         {"out", describe_variant(out)}};
                json jp = json::array();
                for (auto const& p : xp)
                {
                    I3 q = matvec(T.R, p);
                    for (int i = 0; i < 3; ++i)
                        q[i] = q[i] / T.den + T.t[i];
                    jp.push_back({{"p", jv(p)},
                                  {"q", jv(q)},
                                  {"sn", code_sense(out, to_real(q))}});
                }
                rec["pts"] = jp;
                w_(rec);
            }
        }

        // --- simplification (the repository's recursive driver, tolerance 1e-10)
        {
            json rec{{"e", "Simp"}, {"s", jsurf(s)}};
            json jp = json::array();
            std::vector<I3> xp = sample(rng_, pts, knobs_.nxpts);
            auto visit_final = [&](Sense sense, auto const& final_surf) {
                rec["out"] = describe(final_surf);
                rec["flip"] = (sense != Sense::inside);
                for (auto const& p : xp)
                {
                    jp.push_back(
                        {{"p", jv(p)},
                         {"sn", static_cast<int>(final_surf.calc_sense(to_real(p)))}});
                }
            };
            RecursiveSimplifier<decltype(visit_final)&> simplify(visit_final,
                                                                 real_type(1e-10));
            simplify(Sense::inside, v);
            rec["pts"] = jp;
            w_(rec);
        }
    }

    //! The transform classes by themselves
    void transforms(int den, int count)
    {
        std::vector<std::pair<IM3, int>> mats;
        if (den == 1)
            for (auto const& R : sperms_)
                mats.push_back({R, 1});
        else
            for (auto const& pr : pythagorean(den))
                for (int i = 0; i < 4; ++i)
                    mats.push_back(
                        {matmul(sperms_[rint(rng_, 0, 47)], pr.first), den});
        std::vector<I3> base = cube(2);
        for (int c = 0; c < count; ++c)
        {
            for (auto const& m : mats)
            {
                ITrans T{m.first, m.second, {rint(rng_, -3, 3), rint(rng_, -3, 3), rint(rng_, -3, 3)}};
                std::vector<I3> pts = sample(rng_, base, 10);
                for (auto& p : pts)
                    p = {p[0] * den, p[1] * den, p[2] * den};
                // Transformation
                this->tf_record("Transformation", T, make_transformation(T), pts);
                if (den == 1 && det(T.R) == 1)
                {
                    ITrans P = T;
                    P.t = {0, 0, 0};
                    SignedPermutation::SignedAxes axes;
                    for (int i = 0; i < 3; ++i)
                        for (int j = 0; j < 3; ++j)
                            if (P.R[i][j] != 0)
                                axes[to_axis(i)] = {P.R[i][j] < 0 ? '-' : '+', to_axis(j)};
                    this->tf_record("SignedPermutation", P, SignedPermutation{axes}, pts);
                }
                if (den == 1 && T.R == identity)
                {
                    this->tf_record("Translation", T, Translation{to_real(T.t)}, pts);
                }
            }
        }
    }

    std::size_t count() const { return w_.count(); }

  private:
    verif::NdjsonWriter w_;
    Rng rng_;
    Knobs knobs_;
    std::vector<IM3> sperms_;

    ITrans random_transform(int k, int it)
    {
        I3 t{rint(rng_, -2, 2) * (rint(rng_, 0, 3) ? 1 : k),
             rint(rng_, -2, 2),
             rint(rng_, -3, 3)};
        if (k > 1 && it % 2 == 0)
        {
            // Pythagorean rotation on the k-lattice, composed with a signed permutation
            auto py = pythagorean(k);
            if (!py.empty())
            {
                auto const& pr = py[rint(rng_, 0, int(py.size()) - 1)];
                IM3 R = rint(rng_, 0, 1) ? matmul(sperms_[rint(rng_, 0, 47)], pr.first)
                                         : pr.first;
                return {R, pr.second, t};
            }
        }
        if (it % 4 == 1 || (k == 1 && it % 4 == 0))
        {
            if (t == I3{0, 0, 0})
                t[rint(rng_, 0, 2)] = 1;
            return {identity, 1, t};  // pure translation
        }
        IM3 R = sperms_[rint(rng_, 0, 47)];
        if (rint(rng_, 0, 2) == 0)
            t = {0, 0, 0};
        return {R, 1, t};
    }

    template<class TF>
    void tf_record(char const* cls, ITrans const& T, TF const& tf, std::vector<I3> const& pts)
    {
        json rec{{"e", "Tf"}, {"cls", cls}, {"T", jtrans(T)}};
        json jp = json::array(), jd = json::array();
        for (auto const& p : pts)
        {
            I3 q = matvec(T.R, p);
            for (int i = 0; i < 3; ++i)
                q[i] = q[i] / T.den + T.t[i];
            Real3 up = tf.transform_up(to_real(p));
            Rounded a = rounded(up);
            Rounded b = rounded(tf.transform_down(to_real(q)));
            Rounded c = rounded(tf.transform_down(up));
            jp.push_back({{"p", jv(p)},   {"q", jv(q)},    {"up", a.v},
                          {"upx", a.exact}, {"upb", a.bracket}, {"dn", b.v},
                          {"dnx", b.exact}, {"dnb", b.bracket}, {"du", c.v},
                          {"dux", c.exact}, {"dub", c.bracket}});
            // the same lattice vector as a direction (need not be normalised for
            // rotate_up / rotate_down)
            I3 r = matvec(T.R, p);
            for (int i = 0; i < 3; ++i)
                r[i] /= T.den;
            Real3 ru = tf.rotate_up(to_real(p));
            Rounded e = rounded(ru);
            Rounded f = rounded(tf.rotate_down(to_real(r)));
            jd.push_back({{"d", jv(p)},   {"r", jv(r)},    {"ru", e.v},
                          {"rux", e.exact}, {"rub", e.bracket}, {"rd", f.v},
                          {"rdx", f.exact}, {"rdb", f.bracket}});
        }
        rec["pts"] = jp;
        rec["dirs"] = jd;
        w_(rec);
    }
};

//---------------------------------------------------------------------------//
// Matrix utilities, transform algebra, signed permutations (integer inputs)
//---------------------------------------------------------------------------//
struct Flags
{
    bool exact{true};
    bool bracket{true};
};

int near_int(double c, Flags* f)
{
    if (!(std::fabs(c) < 1e9))
    {
        f->exact = f->bracket = false;
        return 1 << 30;
    }
    double n = std::nearbyint(c);
    f->exact = f->exact && (n == c);
    f->bracket = f->bracket && (std::fabs(n - c) <= 1e-9);
    return static_cast<int>(n);
}

template<class T, size_type N>
json jmat(SquareMatrix<T, N> const& m, Flags* f, double scale = 1)
{
    json out = json::array();
    for (size_type i = 0; i != N; ++i)
    {
        json row = json::array();
        for (size_type j = 0; j != N; ++j)
            row.push_back(near_int(static_cast<double>(m[i][j]) * scale, f));
        out.push_back(row);
    }
    return out;
}

template<class T, size_type N>
json jvec(Array<T, N> const& v, Flags* f, double scale = 1)
{
    json out = json::array();
    for (size_type i = 0; i != N; ++i)
        out.push_back(near_int(static_cast<double>(v[i]) * scale, f));
    return out;
}

template<class T, size_type N>
SquareMatrix<T, N> random_matrix(Rng& rng, int m)
{
    SquareMatrix<T, N> a;
    for (size_type i = 0; i != N; ++i)
        for (size_type j = 0; j != N; ++j)
            a[i][j] = static_cast<T>(rint(rng, -m, m));
    return a;
}

template<class T>
SquareMatrix<T, 3> from_int(IM3 const& R)
{
    SquareMatrix<T, 3> a;
    for (int i = 0; i < 3; ++i)
        for (int j = 0; j < 3; ++j)
            a[i][j] = static_cast<T>(R[i][j]);
    return a;
}

template<class T>
void mat_records_3(verif::NdjsonWriter& w, Rng& rng, char const* ty, SquareMatrix<T, 3> const& a)
{
    using Vec = Array<T, 3>;
    Flags none;
    {
        Flags f;
        json rec{{"e", "MDet"}, {"ty", ty}, {"A", jmat(a, &none)}};
        rec["det"] = near_int(static_cast<double>(determinant(a)), &f);
        rec["tr"] = near_int(static_cast<double>(trace(a)), &f);
        rec["x"] = f.exact;
        w(rec);
    }
    {
        Flags f;
        auto b = random_matrix<T, 3>(rng, 3);
        json rec{{"e", "MMul"}, {"ty", ty}, {"n", 3}, {"A", jmat(a, &none)}, {"B", jmat(b, &none)}};
        rec["AB"] = jmat(gemm(a, b), &f);
        rec["AtB"] = jmat(gemm(matrix::transpose, a, b), &f);
        rec["x"] = f.exact;
        w(rec);
    }
    {
        Flags f;
        Vec v{T(rint(rng, -4, 4)), T(rint(rng, -4, 4)), T(rint(rng, -4, 4))};
        Vec y{T(rint(rng, -4, 4)), T(rint(rng, -4, 4)), T(rint(rng, -4, 4))};
        T al = T(rint(rng, -3, 3)), be = T(rint(rng, -3, 3));
        json rec{{"e", "MVec"}, {"ty", ty}, {"A", jmat(a, &none)}, {"v", jvec(v, &none)},
                 {"y", jvec(y, &none)}, {"al", static_cast<int>(al)}, {"be", static_cast<int>(be)}};
        rec["r"] = jvec(gemv(al, a, v, be, y), &f);
        rec["rt"] = jvec(gemv(matrix::transpose, al, a, v, be, y), &f);
        rec["s"] = jvec(gemv(a, v), &f);
        rec["st"] = jvec(gemv(matrix::transpose, a, v), &f);
        rec["x"] = f.exact;
        w(rec);
    }
}

void run_mat(std::string const& path, std::uint64_t seed, int count)
{
    verif::NdjsonWriter w(path);
    Rng rng(seed);
    auto sperms = all_signed_perms();
    std::vector<IM3> special = sperms;
    for (int den : {5, 13, 3, 7})
        for (auto const& pr : pythagorean(den))
            special.push_back(pr.first);
    Flags none;

    // determinant / trace / gemm / gemv on the special matrices and on random ones
    for (auto const& R : special)
    {
        mat_records_3<int>(w, rng, "int", from_int<int>(R));
        mat_records_3<real_type>(w, rng, "real", from_int<real_type>(R));
    }
    for (int c = 0; c < count; ++c)
    {
        int m = 1 + c % 4;
        mat_records_3<int>(w, rng, "int", random_matrix<int, 3>(rng, m));
        mat_records_3<real_type>(w, rng, "real", random_matrix<real_type, 3>(rng, m));
        {
            Flags f;
            auto a = random_matrix<real_type, 4>(rng, m);
            auto b = random_matrix<real_type, 4>(rng, 3);
            json rec{{"e", "MMul"}, {"ty", "real"}, {"n", 4}, {"A", jmat(a, &none)}, {"B", jmat(b, &none)}};
            rec["AB"] = jmat(gemm(a, b), &f);
            rec["AtB"] = jmat(gemm(matrix::transpose, a, b), &f);
            rec["x"] = f.exact;
            w(rec);
        }
        {
            Flags f;
            auto a = random_matrix<real_type, 3>(rng, 4);
            json rec{{"e", "MTr"}, {"A", jmat(a, &none)}};
            rec["T"] = jmat(make_transpose(a), &f);
            rec["x"] = f.exact;
            w(rec);
        }
    }

    // quarter-turn rotations about the cartesian axes, alone and applied to a matrix
    for (int ax = 0; ax < 3; ++ax)
    {
        for (int q = -8; q <= 8; ++q)
        {
            Flags f;
            json rec{{"e", "MRot"}, {"ax", ax}, {"q", q}};
            rec["R"] = jmat(make_rotation(to_axis(ax), Turn{real_type(q) / 4}), &f);
            rec["x"] = f.exact;
            w(rec);
            for (int c = 0; c < 2; ++c)
            {
                Flags g;
                IM3 O = (c == 0) ? special[rint(rng, 0, int(special.size()) - 1)]
                                 : IM3{{{rint(rng, -3, 3), rint(rng, -3, 3), rint(rng, -3, 3)},
                                        {rint(rng, -3, 3), rint(rng, -3, 3), rint(rng, -3, 3)},
                                        {rint(rng, -3, 3), rint(rng, -3, 3), rint(rng, -3, 3)}}};
                json r2{{"e", "MRot"}, {"ax", ax}, {"q", q}, {"O", json::array({jv(O[0]), jv(O[1]), jv(O[2])})}};
                r2["R"] = jmat(make_rotation(to_axis(ax), Turn{real_type(q) / 4}, from_int<real_type>(O)), &g);
                r2["x"] = g.exact;
                w(r2);
            }
        }
    }

    // rotations about an arbitrary (integer-direction) axis by 0, 1, 2 quarter turns: m^2 R is an
    // integer matrix
    for (I3 n : {I3{1, 0, 0}, I3{0, -1, 0}, I3{0, 0, 1}, I3{0, 0, -1}, I3{3, 4, 0}, I3{0, -3, 4},
                 I3{-4, 0, 3}, I3{1, 2, 2}, I3{2, -1, 2}, I3{-2, -2, 1}, I3{2, 3, 6}, I3{-6, 2, 3},
                 I3{0, 5, 12}, I3{4, 4, 7}, I3{1, 4, 8}})
    {
        int m2 = n[0] * n[0] + n[1] * n[1] + n[2] * n[2];
        int m = static_cast<int>(std::lround(std::sqrt(double(m2))));
        Real3 ax{real_type(n[0]) / m, real_type(n[1]) / m, real_type(n[2]) / m};
        for (int q = 0; q <= 2; ++q)
        {
            Flags f;
            json rec{{"e", "MRotAx"}, {"n", jv(n)}, {"m", m}, {"q", q}};
            rec["R"] = jmat(make_rotation(ax, Turn{real_type(q) / 4}), &f, double(m2));
            rec["b"] = f.bracket;
            w(rec);
        }
    }

    // orthonormalize: M = L R with L lower triangular (positive diagonal) must give back R / den
    for (int c = 0; c < count; ++c)
    {
        IM3 R;
        int den = 1;
        if (c % 2 == 0)
            R = sperms[rint(rng, 0, 47)];
        else
        {
            static int const dens[] = {5, 13, 3, 7};
            auto py = pythagorean(dens[rint(rng, 0, 3)]);
            auto const& pr = py[rint(rng, 0, int(py.size()) - 1)];
            R = matmul(sperms[rint(rng, 0, 47)], pr.first);
            den = pr.second;
        }
        IM3 L{};
        for (int i = 0; i < 3; ++i)
            for (int j = 0; j <= i; ++j)
                L[i][j] = (i == j) ? rint(rng, 1, 4) : rint(rng, -3, 3);
        if (c % 5 == 0)
            L = IM3{{{1, 0, 0}, {0, 1, 0}, {0, 0, 1}}};
        IM3 M = matmul(L, R);
        auto mat = from_int<real_type>(M);
        orthonormalize(&mat);
        Flags f;
        json rec{{"e", "MOrtho"},
                 {"R", json::array({jv(R[0]), jv(R[1]), jv(R[2])})},
                 {"den", den},
                 {"L", json::array({jv(L[0]), jv(L[1]), jv(L[2])})},
                 {"M", json::array({jv(M[0]), jv(M[1]), jv(M[2])})}};
        rec["out"] = jmat(mat, &f, double(den));
        rec["b"] = f.bracket;
        w(rec);
    }
    std::cout << w.count() << std::endl;
}

//---------------------------------------------------------------------------//
struct Operand
{
    std::string cls;
    ITrans T;
    VariantTransform v;
};

char const* class_of(VariantTransform const& v)
{
    if (std::holds_alternative<NoTransformation>(v))
        return "No";
    if (std::holds_alternative<Translation>(v))
        return "Translation";
    return "Transformation";
}

json joperand(Operand const& o)
{
    return json{{"cls", o.cls}, {"T", jtrans(o.T)}};
}

I3 image(ITrans const& T, I3 const& p)
{
    I3 q = matvec(T.R, p);
    for (int i = 0; i < 3; ++i)
        q[i] = q[i] / T.den + T.t[i];
    return q;
}

struct UpDown
{
    Real3 up;
    Real3 down;
    Real3 rot;
};

void put_rounded(json& e, char const* key, Real3 const& v)
{
    Rounded r = rounded(v);
    e[key] = r.v;
    e[std::string(key) + "x"] = r.exact;
    e[std::string(key) + "b"] = r.bracket;
}

void run_tfx(std::string const& path, std::uint64_t seed, int count)
{
    verif::NdjsonWriter w(path);
    Rng rng(seed);
    auto sperms = all_signed_perms();

    // tmul: the translation is a multiple of this (so that images under an outer transform of
    // denominator tmul stay on the lattice)
    auto make_operand = [&](int kind, int tmul) {
        Operand o;
        I3 t{rint(rng, -3, 3) * tmul, rint(rng, -3, 3) * tmul, rint(rng, -3, 3) * tmul};
        if (kind == 0)
        {
            o.cls = "No";
            o.T = {identity, 1, {0, 0, 0}};
            o.v = NoTransformation{};
        }
        else if (kind == 1)
        {
            o.cls = "Translation";
            o.T = {identity, 1, t};
            o.v = Translation{to_real(t)};
        }
        else
        {
            o.cls = "Transformation";
            if (kind == 2)
                o.T = {sperms[rint(rng, 0, 47)], 1, t};
            else
            {
                static int const dens[] = {5, 13, 3, 7};
                auto py = pythagorean(dens[rint(rng, 0, 3)]);
                auto const& pr = py[rint(rng, 0, int(py.size()) - 1)];
                o.T = {matmul(sperms[rint(rng, 0, 47)], pr.first), pr.second, t};
            }
            if (rint(rng, 0, 5) == 0)
                o.T.t = {0, 0, 0};
            o.v = make_transformation(o.T);
        }
        return o;
    };

    std::vector<I3> base = cube(2);
    auto probe_points = [&](int scale) {
        std::vector<I3> pts = sample(rng, base, 8);
        pts.push_back({0, 0, 0});
        pts.push_back({1, 0, 0});
        pts.push_back({0, 1, 0});
        pts.push_back({0, 0, 1});
        for (auto& p : pts)
            p = {p[0] * scale, p[1] * scale, p[2] * scale};
        return pts;
    };

    for (int c = 0; c < count; ++c)
    {
        // ---- composition: every pair of operand kinds
        for (int kl = 0; kl < 4; ++kl)
        {
            for (int kr = 0; kr < 4; ++kr)
            {
                if (kl == 3 && kr == 3 && c % 2)
                    continue;  // keep products of two Pythagorean rotations rare (large integers)
                Operand L = make_operand(kl, 1);
                Operand R = make_operand(kr, L.T.den);
                VariantTransform out = apply_transform(L.v, R.v);
                json rec{{"e", "TfComp"}, {"L", joperand(L)}, {"R", joperand(R)}, {"out", class_of(out)}};
                json jp = json::array(), jd = json::array();
                for (auto const& p : probe_points(L.T.den * R.T.den))
                {
                    I3 m = image(R.T, p);
                    I3 q = image(L.T, m);
                    json e{{"p", jv(p)}, {"m", jv(m)}, {"q", jv(q)}};
                    Real3 up = std::visit([&](auto const& t) { return Real3(t.transform_up(to_real(p))); }, out);
                    put_rounded(e, "up", up);
                    put_rounded(e, "dn", std::visit([&](auto const& t) { return Real3(t.transform_down(to_real(q))); }, out));
                    jp.push_back(e);
                    ITrans Rr = R.T, Lr = L.T;
                    Rr.t = {0, 0, 0};
                    Lr.t = {0, 0, 0};
                    I3 r = image(Lr, image(Rr, p));
                    json d{{"d", jv(p)}, {"r", jv(r)}};
                    put_rounded(d, "ru", std::visit([&](auto const& t) { return Real3(t.rotate_up(to_real(p))); }, out));
                    jd.push_back(d);
                }
                rec["pts"] = jp;
                rec["dirs"] = jd;
                w(rec);
            }
        }

        // ---- inverses
        for (int k = 1; k < 4; ++k)
        {
            Operand A = make_operand(k, 1);
            std::vector<std::pair<std::string, VariantTransform>> invs;
            invs.push_back({"variant", calc_inverse(A.v)});
            if (auto const* tf = std::get_if<Transformation>(&A.v))
            {
                invs.push_back({"calc_inverse", tf->calc_inverse()});
                invs.push_back({"from_inverse", Transformation::from_inverse(tf->rotation(), tf->translation())});
            }
            else if (auto const* tl = std::get_if<Translation>(&A.v))
            {
                invs.push_back({"calc_inverse", tl->calc_inverse()});
            }
            for (auto const& iv : invs)
            {
                json rec{{"e", "TfInv"}, {"T", joperand(A)}, {"via", iv.first}, {"out", class_of(iv.second)}};
                json jp = json::array();
                for (auto const& p : probe_points(A.T.den))
                {
                    I3 q = image(A.T, p);
                    json e{{"p", jv(p)}, {"q", jv(q)}};
                    put_rounded(e, "iu", std::visit([&](auto const& t) { return Real3(t.transform_up(to_real(q))); }, iv.second));
                    put_rounded(e, "id", std::visit([&](auto const& t) { return Real3(t.transform_down(to_real(p))); }, iv.second));
                    jp.push_back(e);
                }
                rec["pts"] = jp;
                w(rec);
            }
        }

        // ---- simplification (relative tolerance 1e-3) and promotion of a translation
        TransformSimplifier simplify(Tolerance<>::from_relative(1e-3));
        for (int k = 0; k < 5; ++k)
        {
            Operand A = make_operand(std::min(k, 3), 1);
            if (k == 4)
            {
                // a Transformation whose rotation is the identity: must behave as its translation
                A.cls = "Transformation";
                A.T = {identity, 1, {rint(rng, -3, 3), rint(rng, -1, 1), 0}};
                if (c % 3 == 0)
                    A.T.t = {0, 0, 0};
                A.v = make_transformation(A.T);
            }
            if (k == 1 && c % 3 == 0)
            {
                A.T.t = {0, 0, 0};
                A.v = Translation{to_real(A.T.t)};
            }
            std::vector<std::pair<std::string, VariantTransform>> outs;
            outs.push_back({"simplify", std::visit(simplify, A.v)});
            if (auto const* tl = std::get_if<Translation>(&A.v))
                outs.push_back({"promote", Transformation{*tl}});
            for (auto const& o : outs)
            {
                json rec{{"e", "TfSimp"}, {"op", o.first}, {"T", joperand(A)}, {"out", class_of(o.second)}};
                json jp = json::array();
                for (auto const& p : probe_points(A.T.den))
                {
                    json e{{"p", jv(p)}, {"q", jv(image(A.T, p))}};
                    put_rounded(e, "up", std::visit([&](auto const& t) { return Real3(t.transform_up(to_real(p))); }, o.second));
                    jp.push_back(e);
                }
                rec["pts"] = jp;
                w(rec);
            }
        }
    }

    // ---- simplification of tiny rotations: angle = k * eps / 4
    {
        real_type const eps = 1e-3;
        TransformSimplifier simplify(Tolerance<>::from_relative(eps));
        for (int ax = 0; ax < 3; ++ax)
        {
            for (int k : {0, 1, 2, 3, 5, 6, 8, 12, 20, 40, 100, 400, 4000})
            {
                real_type theta = k * eps / 4;
                Transformation tf{make_rotation(to_axis(ax), Turn{theta / (2 * constants::pi)}),
                                  Real3{real_type(k % 3), 0, real_type(k % 2)}};
                VariantTransform out = simplify(tf);
                bool within = true;
                for (auto const& d : direction_pool())
                {
                    real_type norm = std::sqrt(real_type(d[0] * d[0] + d[1] * d[1] + d[2] * d[2]));
                    Real3 p{d[0] / norm, d[1] / norm, d[2] / norm};
                    Real3 a = tf.transform_up(p);
                    Real3 b = std::visit([&](auto const& t) { return Real3(t.transform_up(p)); }, out);
                    within = within && (distance(a, b) <= eps * (1 + 1e-6));
                }
                w(json{{"e", "TfTol"}, {"ax", ax}, {"k", k}, {"out", class_of(out)}, {"within", within}});
            }
        }
    }
    std::cout << w.count() << std::endl;
}

//---------------------------------------------------------------------------//
json sperm_matrix(SignedPermutation const& sp, int which, Flags* f)
{
    // column j of the matrix = image of the unit vector e_j
    SquareMatrixReal3 m;
    for (int j = 0; j < 3; ++j)
    {
        Real3 e{0, 0, 0};
        e[j] = 1;
        Real3 r = which == 0   ? sp.rotate_up(e)
                  : which == 1 ? sp.rotate_down(e)
                  : which == 2 ? sp.transform_up(e)
                               : sp.transform_down(e);
        for (int i = 0; i < 3; ++i)
            m[i][j] = r[i];
    }
    return jmat(m, f);
}

void run_sperm(std::string const& path)
{
    verif::NdjsonWriter w(path);
    // every assignment of (sign, axis) to the three rows: 6^3 = 216 (only 24 are rotations)
    for (int code = 0; code < 216; ++code)
    {
        int c = code;
        SignedPermutation::SignedAxes axes;
        json jax = json::array();
        for (int i = 0; i < 3; ++i)
        {
            int a = c % 3;
            int sg = (c / 3) % 2;
            c /= 6;
            axes[to_axis(i)] = {sg ? '-' : '+', to_axis(a)};
            jax.push_back(json::array({sg ? -1 : 1, a}));
        }
        json rec{{"e", "SPerm"}, {"ax", jax}};
        try
        {
            SignedPermutation sp{axes};
            Flags f;
            rec["ok"] = true;
            rec["val"] = static_cast<int>(sp.value());
            json back = json::array();
            auto perm = sp.permutation();
            for (int i = 0; i < 3; ++i)
                back.push_back(json::array({perm[to_axis(i)].first == '-' ? -1 : 1,
                                            to_int(perm[to_axis(i)].second)}));
            rec["perm"] = back;
            auto data = sp.data();
            SignedPermutation again{SignedPermutation::StorageSpan{data.data(), 1}};
            rec["rt"] = static_cast<int>(again.value());
            rec["up"] = sperm_matrix(sp, 0, &f);
            rec["dn"] = sperm_matrix(sp, 1, &f);
            rec["tup"] = sperm_matrix(sp, 2, &f);
            rec["tdn"] = sperm_matrix(sp, 3, &f);
            rec["x"] = f.exact;
        }
        catch (std::exception const&)
        {
            rec["ok"] = false;
        }
        w(rec);
    }
    for (int ax = 0; ax < 3; ++ax)
    {
        for (int q = -6; q <= 9; ++q)
        {
            json rec{{"e", "SPermQ"}, {"ax", ax}, {"q", q}};
            try
            {
                SignedPermutation sp = make_permutation(to_axis(ax), QuarterTurn{q});
                Flags f;
                rec["ok"] = true;
                rec["val"] = static_cast<int>(sp.value());
                rec["up"] = sperm_matrix(sp, 0, &f);
                rec["x"] = f.exact;
            }
            catch (std::exception const&)
            {
                rec["ok"] = false;
            }
            w(rec);
        }
    }
    std::cout << w.count() << std::endl;
}

//---------------------------------------------------------------------------//
int usage()
{
    std::cerr
        << "usage:\n"
           "  vsurf exh   <seed> <shard> <nshards> <stride> <gqstride> <scale> <out> [knobs]\n"
           "  vsurf rand  <seed> <count> <maxcoef> <scale> <out> [knobs]\n"
           "  vsurf tf    <seed> <den> <count> <out>\n"
           "  vsurf mat   <seed> <count> <out>\n"
           "  vsurf tfx   <seed> <count> <out>\n"
           "  vsurf sperm <out>\n"
           "knobs: cube=<r> npts=<n> nraypts=<n> ndirs=<n> ntrans=<n> nxpts=<n> edge=<0|1>\n";
    return 2;
}

Knobs parse_knobs(int argc, char** argv, int first)
{
    Knobs k;
    for (int i = first; i < argc; ++i)
    {
        std::string a = argv[i];
        auto eq = a.find('=');
        if (eq == std::string::npos)
        {
            std::cerr << "bad knob " << a << std::endl;
            std::exit(2);
        }
        std::string key = a.substr(0, eq);
        int val = std::atoi(a.c_str() + eq + 1);
        if (key == "cube")
            k.cube_r = val;
        else if (key == "npts")
            k.npts = val;
        else if (key == "nraypts")
            k.nraypts = val;
        else if (key == "ndirs")
            k.ndirs = val;
        else if (key == "ntrans")
            k.ntrans = val;
        else if (key == "nxpts")
            k.nxpts = val;
        else if (key == "edge")
            k.edge = val != 0;
        else
        {
            std::cerr << "unknown knob " << key << std::endl;
            std::exit(2);
        }
    }
    return k;
}
}  // namespace

int main(int argc, char** argv)
{
    if (argc < 2)
        return usage();
    std::string mode = argv[1];
    if (mode == "exh" && argc >= 9)
    {
        std::uint64_t seed = std::strtoull(argv[2], nullptr, 10);
        int shard = std::atoi(argv[3]), nshards = std::atoi(argv[4]);
        int stride = std::atoi(argv[5]), gqstride = std::atoi(argv[6]);
        int scale = std::atoi(argv[7]);
        Emitter em(argv[8], seed * 1000003u + shard, parse_knobs(argc, argv, 9));
        auto fam = exhaustive_family(gqstride);
        std::size_t taken = 0;
        for (std::size_t i = 0; i < fam.size(); ++i)
        {
            // gq are already strided by gqstride
            if (fam[i].t != "gq" && stride > 1
                && (i * 2654435761u >> 7) % stride != 0)
                continue;
            if (taken++ % nshards != static_cast<std::size_t>(shard))
                continue;
            em.surface(fam[i], scale);
        }
        std::cout << em.count() << std::endl;
        return 0;
    }
    if (mode == "rand" && argc >= 7)
    {
        std::uint64_t seed = std::strtoull(argv[2], nullptr, 10);
        int count = std::atoi(argv[3]), maxc = std::atoi(argv[4]);
        int scale = std::atoi(argv[5]);
        Emitter em(argv[6], seed, parse_knobs(argc, argv, 7));
        Rng rng(seed ^ 0x9e3779b97f4a7c15ull);
        for (int i = 0; i < count; ++i)
            em.surface(random_surf(rng, maxc), scale);
        std::cout << em.count() << std::endl;
        return 0;
    }
    if (mode == "tf" && argc >= 6)
    {
        std::uint64_t seed = std::strtoull(argv[2], nullptr, 10);
        Emitter em(argv[5], seed, Knobs{});
        em.transforms(std::atoi(argv[3]), std::atoi(argv[4]));
        std::cout << em.count() << std::endl;
        return 0;
    }
    if (mode == "mat" && argc >= 5)
    {
        run_mat(argv[4], std::strtoull(argv[2], nullptr, 10), std::atoi(argv[3]));
        return 0;
    }
    if (mode == "tfx" && argc >= 5)
    {
        run_tfx(argv[4], std::strtoull(argv[2], nullptr, 10), std::atoi(argv[3]));
        return 0;
    }
    if (mode == "sperm" && argc >= 3)
    {
        run_sperm(argv[2]);
        return 0;
    }
    return usage();
}
