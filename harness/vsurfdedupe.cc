// X05 harness: drives the REAL orangeinp::detail::LocalSurfaceInserter (soft de-duplication of
// surfaces while a unit is being built) and the real construction path (UnitProto::build ->
// CsgUnitBuilder::insert_surface) and logs ndjson: arguments and results only.  It computes NO
// expected values; expectations live in spec/SurfDedupe.tla / spec/SurfDedupeTrace.tla.
//
//   vsurfdedupe run <cfg.json> <out.ndjson>
//
// cfg.json (written by tools/checks/x05.py):
//   { "name": str, "mode": "enum" | "list" | "unit",
//     "rel": [m, e], "abs": [m, e], "q": [m, e],      doubles as m * 2^e (exact by construction)
//     "types": ["px", "sc", ...],                     surface type of type index 0, 1, ...
//     "bases": [B0, B1, ...],                         every sequence is run once per base: the
//                                                     surface (t, k) has position (B + k) * q
//     "spec": {...},                                  echoed untouched (integer facts for the spec)
//     enum:  "alpha": [[t, k], ...], "len": N, "first": i0, "count": n
//            every sequence of exactly N symbols, in lexicographic order of their index
//            (most significant symbol first), indices i0 .. i0+n-1
//     list:  "seqs": [[[t, k], ...], ...]
//     unit:  "units": [{"R": K, "boxes": [[[lo, hi], [lo, hi], [lo, hi]], ...]}, ...]
//            a UnitProto bounded by a sphere of radius K*q whose materials are the boxes
//            (BoxShape of half widths (hi-lo)/2 translated to the centre (hi+lo)/2), built with
//            UnitProto::build(tol, {}) }
//
// Records: Config, Seq (one per sequence: per base the returned ids and the vector sizes after every
// insertion), Unit (the surfaces of the built unit in quanta and per volume the surface ids met
// un-negated / negated in its CSG expression), Close, Abort (crash: rejects the trace).
#include <cmath>
#include <cstdint>
#include <cstdlib>
#include <exception>
#include <fstream>
#include <iostream>
#include <memory>
#include <set>
#include <string>
#include <unordered_map>
#include <variant>
#include <vector>

#include "corecel/cont/Array.hh"
#include "geocel/BoundingBox.hh"
#include "orange/OrangeTypes.hh"
#include "orange/orangeinp/CsgTree.hh"
#include "orange/orangeinp/CsgTypes.hh"
#include "orange/orangeinp/Shape.hh"
#include "orange/orangeinp/Transformed.hh"
#include "orange/orangeinp/UnitProto.hh"
#include "orange/orangeinp/detail/CsgUnit.hh"
#include "orange/orangeinp/detail/LocalSurfaceInserter.hh"
#include "orange/surf/CylCentered.hh"
#include "orange/surf/PlaneAligned.hh"
#include "orange/surf/SphereCentered.hh"
#include "orange/surf/VariantSurface.hh"
#include "orange/transform/Translation.hh"

#include "vjson.hh"

using namespace celeritas;
namespace oi = celeritas::orangeinp;
using verif::json;
using oi::detail::LocalSurfaceInserter;

namespace
{
verif::NdjsonWriter* g_writer = nullptr;

[[noreturn]] void on_terminate()
{
    std::string what = "terminate";
    try
    {
        if (auto e = std::current_exception())
            std::rethrow_exception(e);
    }
    catch (std::exception const& e)
    {
        what = e.what();
    }
    catch (...)
    {
    }
    if (g_writer)
    {
        (*g_writer)({{"e", "Abort"}, {"what", what.substr(0, 400)}});
        g_writer->flush();
    }
    std::_Exit(4);
}

double dyadic(json const& j)
{
    return std::ldexp(j.at(0).get<double>(), j.at(1).get<int>());
}

struct Lattice
{
    double q{};
    double qm{};  // mantissa of q (integer valued)
    bool exact{true};

    // (B + k) * q; exactness of the product is an input-sanity fact, not an expectation
    double pos(long long K)
    {
        double v = static_cast<double>(K) * q;
        if (std::fabs(static_cast<double>(K)) * qm >= 9007199254740992.0)
            exact = false;
        return v;
    }
    // position -> quanta (exact flag cleared when it is not a lattice point)
    long long quanta(double v)
    {
        double r = v / q;
        long long K = std::llround(r);
        if (static_cast<double>(K) * q != v)
            exact = false;
        return K;
    }
};

// Insert the surface (type name, position / radius) through the real inserter
LocalSurfaceId insert_typed(LocalSurfaceInserter& ins, std::string const& t, double v)
{
    if (t == "px")
        return ins(PlaneAligned<Axis::x>{v});
    if (t == "py")
        return ins(PlaneAligned<Axis::y>{v});
    if (t == "pz")
        return ins(PlaneAligned<Axis::z>{v});
    if (t == "sc")
        return ins(SphereCentered{v});
    if (t == "cxc")
        return ins(CylCentered<Axis::x>{v});
    if (t == "cyc")
        return ins(CylCentered<Axis::y>{v});
    if (t == "czc")
        return ins(CylCentered<Axis::z>{v});
    std::cerr << "unknown surface type " << t << std::endl;
    std::exit(3);
}

// environment fact: order in which std::unordered_multimap::equal_range yields equal keys
json multimap_order()
{
    std::unordered_multimap<std::size_t, int> mm;
    std::size_t const key = 0x12345u << 5;
    int n = 0;
    for (int i = 0; i < 2000; ++i)
    {
        if (i % 20 == 7)
            mm.insert({key, n++});
        else
            mm.insert({static_cast<std::size_t>(i) * 977u + 13u, -1});
    }
    std::vector<int> seen;
    for (auto [it, last] = mm.equal_range(key); it != last; ++it)
        seen.push_back(it->second);
    bool newest = true, oldest = true;
    for (std::size_t i = 0; i < seen.size(); ++i)
    {
        newest = newest && seen[i] == n - 1 - static_cast<int>(i);
        oldest = oldest && seen[i] == static_cast<int>(i);
    }
    return newest ? "newest" : oldest ? "oldest" : "other";
}

struct Setup
{
    Tolerance<> tol;
    Lattice lat;
    std::vector<std::string> types;
    std::vector<long long> bases;
};

json run_sequence(Setup& su, std::vector<std::pair<int, long long>> const& seq)
{
    json runs = json::array();
    for (long long B : su.bases)
    {
        LocalSurfaceInserter::VecSurface surfaces;
        LocalSurfaceInserter insert(&surfaces, su.tol);
        json ids = json::array(), sz = json::array();
        for (auto const& [t, k] : seq)
        {
            LocalSurfaceId id = insert_typed(insert, su.types.at(t), su.lat.pos(B + k));
            ids.push_back(id ? static_cast<long long>(id.unchecked_get()) : -1);
            sz.push_back(surfaces.size());
        }
        runs.push_back({{"ids", ids}, {"sz", sz}});
    }
    return runs;
}

//---------------------------------------------------------------------------//
void walk(oi::CsgTree const& tree, oi::NodeId n, bool neg, std::set<int>& pos, std::set<int>& ng, int depth = 0)
{
    if (depth > 64)
        return;
    auto const& node = tree[n];
    if (auto* s = std::get_if<oi::Surface>(&node))
        (neg ? ng : pos).insert(static_cast<int>(s->id.unchecked_get()));
    else if (auto* m = std::get_if<oi::Negated>(&node))
        walk(tree, m->node, !neg, pos, ng, depth + 1);
    else if (auto* a = std::get_if<oi::Aliased>(&node))
        walk(tree, a->node, neg, pos, ng, depth + 1);
    else if (auto* j = std::get_if<oi::Joined>(&node))
        for (auto c : j->nodes)
            walk(tree, c, neg, pos, ng, depth + 1);
}

json run_unit(Setup& su, json const& u, int index)
{
    json rec = {{"e", "Unit"}, {"i", index}, {"R", u.at("R")}, {"boxes", u.at("boxes")}};
    try
    {
        oi::UnitProto::Input inp;
        inp.label = "x05";
        inp.boundary.interior = std::make_shared<oi::SphereShape>("bound", oi::Sphere{su.lat.pos(u.at("R").get<long long>())});
        inp.boundary.zorder = ZOrder::media;
        inp.background.fill = GeoMaterialId{0};
        inp.background.label = Label{"bg"};
        int bi = 0;
        for (auto const& b : u.at("boxes"))
        {
            Real3 hw, ctr;
            for (int ax = 0; ax < 3; ++ax)
            {
                long long lo = b.at(ax).at(0).get<long long>(), hi = b.at(ax).at(1).get<long long>();
                // half width and centre in half quanta: exact
                hw[ax] = su.lat.pos(hi - lo) / 2;
                ctr[ax] = su.lat.pos(hi + lo) / 2;
            }
            auto shape = std::make_shared<oi::BoxShape>("box" + std::to_string(bi), oi::Box{hw});
            oi::UnitProto::MaterialInput mi;
            mi.interior = std::make_shared<oi::Transformed>(shape, Translation{ctr});
            mi.fill = GeoMaterialId{static_cast<GeoMaterialId::size_type>(1 + bi)};
            mi.label = Label{"vol" + std::to_string(bi)};
            inp.materials.push_back(std::move(mi));
            ++bi;
        }
        oi::UnitProto proto{std::move(inp)};
        auto unit = proto.build(su.tol, BBox{});

        json surfs = json::array();
        for (auto const& vs : unit.surfaces)
        {
            std::visit(
                [&](auto const& s) {
                    using S = std::decay_t<decltype(s)>;
                    std::string name = to_cstring(S::surface_type());
                    if constexpr (std::is_same_v<S, PlaneAligned<Axis::x>> || std::is_same_v<S, PlaneAligned<Axis::y>>
                                  || std::is_same_v<S, PlaneAligned<Axis::z>>)
                        surfs.push_back({name, su.lat.quanta(s.position())});
                    else if constexpr (std::is_same_v<S, SphereCentered>)
                        surfs.push_back({name, su.lat.quanta(std::sqrt(s.radius_sq()))});
                    else
                        surfs.push_back({name, 0});
                },
                vs);
        }
        rec["surfs"] = surfs;
        json vols = json::array();
        for (auto nid : unit.tree.volumes())
        {
            std::set<int> pos, ng;
            walk(unit.tree, nid, false, pos, ng);
            vols.push_back({{"pos", pos}, {"neg", ng}});
        }
        rec["vols"] = vols;
    }
    catch (std::exception const& e)
    {
        rec["error"] = std::string(e.what()).substr(0, 300);
    }
    return rec;
}

//---------------------------------------------------------------------------//
int run(std::string const& cfgpath, std::string const& outpath)
{
    std::ifstream in(cfgpath);
    if (!in)
    {
        std::cerr << "cannot open " << cfgpath << std::endl;
        return 3;
    }
    json cfg = json::parse(in);
    verif::NdjsonWriter out(outpath);
    g_writer = &out;

    Setup su;
    su.tol.rel = dyadic(cfg.at("rel"));
    su.tol.abs = dyadic(cfg.at("abs"));
    su.lat.q = dyadic(cfg.at("q"));
    su.lat.qm = cfg.at("q").at(0).get<double>();
    su.types = cfg.at("types").get<std::vector<std::string>>();
    su.bases = cfg.at("bases").get<std::vector<long long>>();
    std::string mode = cfg.at("mode").get<std::string>();

    json head = {{"e", "Config"},
                 {"name", cfg.value("name", "")},
                 {"mode", mode},
                 {"types", su.types},
                 {"bases", su.bases},
                 {"spec", cfg.value("spec", json::object())},
                 {"tol_valid", static_cast<bool>(su.tol)},
                 {"mm", multimap_order()}};
    std::size_t n = 0;
    if (mode == "enum")
    {
        auto alpha = cfg.at("alpha").get<std::vector<std::pair<int, long long>>>();
        int const N = cfg.at("len").get<int>();
        long long const first = cfg.at("first").get<long long>();
        long long const count = cfg.at("count").get<long long>();
        head["alpha"] = cfg.at("alpha");
        head["len"] = N;
        head["first"] = first;
        head["count"] = count;
        out(head);
        long long const A = static_cast<long long>(alpha.size());
        for (long long idx = first; idx < first + count; ++idx)
        {
            std::vector<int> digits(N);
            long long r = idx;
            for (int p = N - 1; p >= 0; --p)
            {
                digits[p] = static_cast<int>(r % A);
                r /= A;
            }
            std::vector<std::pair<int, long long>> seq;
            for (int d : digits)
                seq.push_back(alpha[d]);
            out({{"e", "Seq"}, {"i", idx}, {"d", digits}, {"runs", run_sequence(su, seq)}});
            ++n;
        }
    }
    else if (mode == "list")
    {
        out(head);
        long long idx = 0;
        for (auto const& js : cfg.at("seqs"))
        {
            auto seq = js.get<std::vector<std::pair<int, long long>>>();
            out({{"e", "Seq"}, {"i", idx++}, {"s", js}, {"runs", run_sequence(su, seq)}});
            ++n;
        }
    }
    else if (mode == "unit")
    {
        out(head);
        int idx = 0;
        for (auto const& u : cfg.at("units"))
        {
            out(run_unit(su, u, idx++));
            ++n;
        }
    }
    else
    {
        std::cerr << "unknown mode " << mode << std::endl;
        return 3;
    }
    out({{"e", "Close"}, {"n", n}, {"exact", su.lat.exact}});
    out.flush();
    g_writer = nullptr;
    return 0;
}
}  // namespace

int main(int argc, char** argv)
{
    std::set_terminate(on_terminate);
    if (argc >= 4 && std::string(argv[1]) == "run")
        return run(argv[2], argv[3]);
    std::cerr << "usage: vsurfdedupe run <cfg.json> <out.ndjson>" << std::endl;
    return 3;
}
