// vtracksort (X01): drive the REAL track-slot reindexing code and log what it did.
//
//   vtracksort cases <in.ndjson> <out.ndjson>
//       replay of TLC-enumerated cases on the real detail:: functions over a hand-built
//       HostVal<CoreStateData> that owns only track_slots / sim.status / sim.*_action /
//       particles.particle_id.  Input records (written by TrackSortMC's Emit, sharded by
//       tools/checks/x01.py):
//         {"e":"Config",...}                         echoed
//         {"e":"Case","id",n,na,st,along,post,pt,ts0,orders:[track order names]}
//             -> for each order: detail::sort_tracks, and for the by-action orders
//                detail::count_tracks_per_action on an offsets array prefilled with junk
//         {"e":"Backfill","id","off":[...],"n":k}     -> detail::backfill_action_count
//   vtracksort state <out.ndjson> <seed> <nrand>
//       real CoreParams / CoreState<host> for every TrackOrder on the hand-built EM problem:
//       Construct (track_slots, offsets allocation, registered sort actions), Ctor (every
//       TrackOrder the constructor accepts or rejects by contract), IsSorted (truth table of
//       both is_action_sorted overloads), Step (SortTracksAction::step + get_action_range on
//       seeded per-slot arrays written into the real state)
//   vtracksort live <out.ndjson> <seed> <order> <nslots> <nprim> <maxsteps> [nomat]
//       (nomat: the world volume has no material, so leaving the inner box takes the
//       boundary action's error path)
//       the real stepping loop, one action at a time (ActionSequence::actions().step()):
//       track_slots before/after EVERY action, keys / offsets / action ranges where relevant
//
// The harness computes NO expected values: expectations live in spec/TrackSort.tla.
// Exit codes: 0 ok; 2/3 set-up problems; anything else = crash in the code under test.
#include <algorithm>
#include <exception>
#include <fstream>
#include <iostream>
#include <map>
#include <memory>
#include <random>
#include <string>
#include <vector>

#include "corecel/data/Collection.hh"
#include "corecel/data/CollectionBuilder.hh"
#include "corecel/data/Ref.hh"
#include "corecel/io/Logger.hh"
#include "corecel/sys/ActionRegistry.hh"
#include "celeritas/Types.hh"
#include "celeritas/global/ActionInterface.hh"
#include "celeritas/global/ActionSequence.hh"
#include "celeritas/global/CoreParams.hh"
#include "celeritas/global/CoreState.hh"
#include "celeritas/global/CoreTrackData.hh"
#include "celeritas/phys/Primary.hh"
#include "celeritas/track/ExtendFromPrimariesAction.hh"
#include "celeritas/track/SortTracksAction.hh"
#include "celeritas/track/TrackInitParams.hh"
#include "celeritas/track/detail/TrackSortUtils.hh"

#include "vjson.hh"
#include "vproblem.hh"

using namespace celeritas;
using verif::json;

namespace
{
verif::NdjsonWriter* g_out = nullptr;

[[noreturn]] void on_terminate()
{
    if (g_out)
    {
        (*g_out)({{"e", "Abort"}});
        g_out->flush();
    }
    std::_Exit(70);
}

template<class Id>
int idv(Id id)
{
    return id ? static_cast<int>(id.unchecked_get()) : -1;
}

std::vector<TrackOrder> all_orders()
{
    std::vector<TrackOrder> r;
    for (int i = 0; i < static_cast<int>(TrackOrder::size_); ++i)
        r.push_back(static_cast<TrackOrder>(i));
    return r;
}

TrackOrder order_from(std::string const& s)
{
    for (auto o : all_orders())
        if (s == to_cstring(o))
            return o;
    std::cerr << "unknown track order " << s << std::endl;
    std::exit(2);
}

//---------------------------------------------------------------------------//
// Per-slot arrays of a (hand-built or real) state, as logged
template<class Ref>
json slots_json(Ref const& ref)
{
    json j = json::array();
    for (size_type i = 0; i < ref.track_slots.size(); ++i)
        j.push_back(static_cast<int>(ref.track_slots[ThreadId{i}]));
    return j;
}

template<class Ref>
json arrays_json(Ref const& ref, size_type n)
{
    json st = json::array(), al = json::array(), po = json::array(), pt = json::array();
    for (size_type i = 0; i < n; ++i)
    {
        TrackSlotId s{i};
        st.push_back(static_cast<int>(ref.sim.status[s]));
        al.push_back(idv(ref.sim.along_step_action[s]));
        po.push_back(idv(ref.sim.post_step_action[s]));
        pt.push_back(idv(ref.particles.particle_id[s]));
    }
    return {{"st", st}, {"along", al}, {"post", po}, {"pt", pt}};
}

template<class Ref>
void write_arrays(Ref& ref, json const& c)
{
    size_type n = c.at("st").size();
    for (size_type i = 0; i < n; ++i)
    {
        TrackSlotId s{i};
        ref.sim.status[s] = static_cast<TrackStatus>(c["st"][i].get<int>());
        int a = c["along"][i].get<int>(), p = c["post"][i].get<int>(), t = c["pt"][i].get<int>();
        ref.sim.along_step_action[s] = a < 0 ? ActionId{} : ActionId(a);
        ref.sim.post_step_action[s] = p < 0 ? ActionId{} : ActionId(p);
        ref.particles.particle_id[s] = t < 0 ? ParticleId{} : ParticleId(t);
    }
}

json offsets_json(Span<ThreadId const> off)
{
    json j = json::array();
    for (auto t : off)
        j.push_back(idv(t));
    return j;
}

//---------------------------------------------------------------------------//
// cases: the detail functions on the smallest object that owns the arrays
int run_cases(std::string const& in_path, std::string const& out_path)
{
    std::ifstream in(in_path);
    if (!in)
    {
        std::cerr << "cannot open " << in_path << std::endl;
        return 3;
    }
    verif::NdjsonWriter out(out_path);
    g_out = &out;
    std::string line;
    long nrec = 0;
    while (std::getline(in, line))
    {
        if (line.empty())
            continue;
        json c = json::parse(line);
        std::string e = c.at("e");
        if (e == "Config")
        {
            out(c);
            continue;
        }
        if (e == "Backfill")
        {
            std::vector<ThreadId> off;
            for (auto const& v : c.at("off"))
                off.push_back(v.get<int>() < 0 ? ThreadId{} : ThreadId(v.get<int>()));
            celeritas::detail::backfill_action_count(make_span(off), c.at("n").get<size_type>());
            c["out"] = offsets_json(make_span(off));
            out(c);
            ++nrec;
            continue;
        }
        if (e != "Case")
        {
            std::cerr << "unexpected input record " << e << std::endl;
            return 3;
        }
        size_type n = c.at("n");
        size_type na = c.at("na");
        HostVal<CoreStateData> val;
        resize(&val.track_slots, n);
        resize(&val.sim.status, n);
        resize(&val.sim.along_step_action, n);
        resize(&val.sim.post_step_action, n);
        resize(&val.particles.particle_id, n);
        resize(&val.particles.particle_energy, n);  // CoreStateData::size()
        HostRef<CoreStateData> ref;
        ref.track_slots = val.track_slots;
        ref.sim.status = val.sim.status;
        ref.sim.along_step_action = val.sim.along_step_action;
        ref.sim.post_step_action = val.sim.post_step_action;
        ref.particles.particle_id = val.particles.particle_id;
        ref.particles.particle_energy = val.particles.particle_energy;
        ref.stream_id = StreamId{0};
        write_arrays(ref, c);
        for (size_type i = 0; i < n; ++i)
            ref.track_slots[ThreadId{i}] = c.at("ts0")[i].get<size_type>();
        if (ref.size() != n)
        {
            std::cerr << "hand-built state has size " << ref.size() << std::endl;
            return 3;
        }
        Collection<ThreadId, Ownership::value, MemSpace::host, ActionId> offcoll;
        resize(&offcoll, na + 1);
        json calls = json::array();
        for (auto const& oname : c.at("orders"))
        {
            TrackOrder o = order_from(oname.get<std::string>());
            json call = {{"order", oname}, {"ts0", slots_json(ref)}};
            celeritas::detail::sort_tracks(ref, o);
            call["ts1"] = slots_json(ref);
            if (o == TrackOrder::reindex_along_step_action || o == TrackOrder::reindex_step_limit_action)
            {
                // junk (valid-looking) prefill: an entry the code does not write shows up
                std::vector<ThreadId> off(na + 1);
                for (size_type a = 0; a <= na; ++a)
                    off[a] = ThreadId{900 + a};
                celeritas::detail::count_tracks_per_action(ref, make_span(off), offcoll, o);
                call["off"] = offsets_json(make_span(off));
            }
            call["after"] = arrays_json(ref, n);
            calls.push_back(call);
        }
        c["calls"] = calls;
        out(c);
        ++nrec;
    }
    out({{"e", "Close"}, {"n", nrec}});
    out.flush();
    return 0;
}

//---------------------------------------------------------------------------//
struct Built
{
    verif::Problem prob;
    std::shared_ptr<ActionSequence> seq;
};

std::unique_ptr<Built> build(TrackOrder o, unsigned seed, bool nomat = false)
{
    auto b = std::make_unique<Built>();
    verif::ProblemOptions po;
    po.track_order = o;
    po.rng_seed = seed * 7919u + 13u;
    po.max_events = 4;
    try
    {
        verif::build_problem(b->prob, po);
    }
    catch (std::exception const& e)
    {
        std::cerr << "set-up of the hand-built problem failed: " << e.what() << std::endl;
        std::exit(3);
    }
    if (nomat)
    {
        // the world volume has NO material: a track leaving the inner box takes the error
        // path of the boundary action (apply_errored: post_step_action := tracking cut)
        GeoMaterialParams::Input gm;
        gm.geometry = b->prob.geo;
        gm.materials = b->prob.mats;
        gm.volume_to_mat = {MaterialId{0}, MaterialId{}, MaterialId{}};
        gm.volume_labels = {Label{"inner"}, Label{"world"}, Label{"[EXTERIOR]"}};
        b->prob.geomat = std::make_shared<GeoMaterialParams>(std::move(gm));
        b->prob.inp.geomaterial = b->prob.geomat;
    }
    verif::finalize_problem(b->prob);
    b->seq = std::make_shared<ActionSequence>(*b->prob.action_reg, ActionSequence::Options{});
    return b;
}

json sort_actions_json(Built const& b)
{
    json arr = json::array();
    for (auto const& sp : b.seq->actions().step())
    {
        if (dynamic_cast<SortTracksAction const*>(sp.get()))
        {
            arr.push_back({{"label", std::string(sp->label())}, {"ao", to_cstring(sp->order())},
                           {"id", idv(sp->action_id())}});
        }
    }
    return arr;
}

int run_state(std::string const& out_path, unsigned seed, int nrand)
{
    verif::NdjsonWriter out(out_path);
    g_out = &out;
    out({{"e", "Config"}, {"mode", "state"}, {"seed", int(seed)}});
    long nrec = 0;
    std::mt19937 rng(seed);

    // --- truth tables of the constexpr helpers
    {
        json tab = json::array(), re = json::array();
        for (auto o : all_orders())
        {
            re.push_back({to_cstring(o), is_action_sorted(o)});
            for (int a = 0; a < static_cast<int>(StepActionOrder::size_); ++a)
            {
                auto ao = static_cast<StepActionOrder>(a);
                tab.push_back({to_cstring(ao), to_cstring(o), is_action_sorted(ao, o)});
            }
        }
        out({{"e", "IsSorted"}, {"table", tab}, {"reindex", re}});
        ++nrec;
    }
    // --- SortTracksAction constructor / order / label.  reindex_shuffle and
    // reindex_both_action are outside the constructor's contract (unreachable / CELER_EXPECT).
    for (auto o : all_orders())
    {
        if (o == TrackOrder::reindex_shuffle || o == TrackOrder::reindex_both_action)
            continue;
        json j = {{"e", "Ctor"}, {"order", to_cstring(o)}};
        try
        {
            SortTracksAction act(ActionId{7}, o);
            j["ok"] = true;
            j["ao"] = to_cstring(act.order());
            j["label"] = std::string(act.label());
            j["id"] = idv(act.action_id());
        }
        catch (RuntimeError const&)
        {
            j["ok"] = false;
        }
        out(j);
        ++nrec;
    }
    // --- real params + state for every order
    std::vector<size_type> sizes = {1, 2, 3, 5, 8, 17, 40, 100};
    for (auto o : all_orders())
    {
        auto b = build(o, seed);
        auto const& core = *b->prob.core;
        size_type na = core.action_reg()->num_actions();
        json sacts = sort_actions_json(*b);
        for (size_type n : sizes)
        {
            CoreState<MemSpace::host> state(core, StreamId{0}, n);
            CoreState<MemSpace::host> state2(core, StreamId{0}, n);
            out({{"e", "Construct"}, {"order", to_cstring(o)}, {"n", int(n)}, {"na", int(na)},
                 {"ts", slots_json(state.ref())}, {"ts2", slots_json(state2.ref())},
                 {"offsize", int(state.action_thread_offsets().size())}, {"hasrange", state.has_action_range()},
                 {"sorts", sacts}});
            ++nrec;
            b->seq->begin_run(core, state);
            if (sacts.empty())
                continue;
            // seeded per-slot arrays written into the real state, then the real action(s)
            for (int r = 0; r < nrand; ++r)
            {
                // few distinct ids so that groups form; ids from the whole registry incl. the last
                int ndist = 1 + rng() % 4;
                std::vector<int> pool;
                for (int k = 0; k < ndist; ++k)
                    pool.push_back(rng() % 3 == 0 ? (rng() % 2 ? 0 : int(na) - 1) : int(rng() % na));
                int pnull = rng() % 4;  // 0: no null ids
                int pinact = rng() % 4;
                json c = {{"st", json::array()}, {"along", json::array()}, {"post", json::array()},
                          {"pt", json::array()}};
                for (size_type i = 0; i < n; ++i)
                {
                    auto pick = [&]() -> int {
                        if (pnull && int(rng() % 8) < pnull)
                            return -1;
                        return pool[rng() % pool.size()];
                    };
                    c["st"].push_back(pinact && int(rng() % 6) < pinact ? 0 : 1 + int(rng() % 4));
                    c["along"].push_back(pick());
                    c["post"].push_back(pick());
                    int p = pick();
                    c["pt"].push_back(p < 0 ? -1 : p % 3);
                }
                write_arrays(state.ref(), c);
                for (auto const& sp : b->seq->actions().step())
                {
                    if (!dynamic_cast<SortTracksAction const*>(sp.get()))
                        continue;
                    json j = {{"e", "Step"}, {"torder", to_cstring(o)}, {"label", std::string(sp->label())},
                              {"n", int(n)}, {"na", int(na)}, {"c", arrays_json(state.ref(), n)},
                              {"ts0", slots_json(state.ref())}};
                    auto offs = state.action_thread_offsets()[AllItems<ThreadId, MemSpace::host>{}];
                    j["off0"] = offsets_json(offs);
                    sp->step(core, state);
                    j["ts1"] = slots_json(state.ref());
                    j["c1"] = arrays_json(state.ref(), n);
                    j["off1"] = offsets_json(state.action_thread_offsets()[AllItems<ThreadId, MemSpace::host>{}]);
                    json ranges = json::array();
                    for (size_type a = 0; a < na; ++a)
                    {
                        auto rg = state.get_action_range(ActionId{a});
                        ranges.push_back({idv(*rg.begin()), idv(*rg.end())});
                    }
                    j["ranges"] = ranges;
                    out(j);
                    ++nrec;
                }
            }
        }
    }
    out({{"e", "Close"}, {"n", nrec}});
    out.flush();
    return 0;
}

//---------------------------------------------------------------------------//
int run_live(std::string const& out_path,
             unsigned seed,
             std::string const& order,
             size_type nslots,
             int nprim,
             int maxsteps,
             bool nomat)
{
    verif::NdjsonWriter out(out_path);
    g_out = &out;
    TrackOrder o = order_from(order);
    auto b = build(o, seed, nomat);
    auto const& core = *b->prob.core;
    size_type na = core.action_reg()->num_actions();
    CoreState<MemSpace::host> state(core, StreamId{0}, nslots);
    b->seq->begin_run(core, state);
    out({{"e", "Config"}, {"mode", "live"}, {"seed", int(seed)}, {"torder", order}, {"n", int(nslots)},
         {"na", int(na)}, {"sorts", sort_actions_json(*b)}, {"nomat", nomat}});
    long nrec = 0;

    std::mt19937 rng(seed * 31u + 7u);
    std::uniform_real_distribution<double> u(-1, 1);
    std::vector<Primary> prims;
    for (int i = 0; i < nprim; ++i)
    {
        Primary p;
        p.particle_id = ParticleId{static_cast<size_type>(rng() % 3)};
        p.energy = units::MevEnergy{0.5 + 10.0 * (rng() % 100) / 100.0};
        Real3 d{u(rng), u(rng), u(rng)};
        double nrm = std::sqrt(d[0] * d[0] + d[1] * d[1] + d[2] * d[2]);
        if (nrm < 1e-3)
        {
            d = {0, 0, 1};
            nrm = 1;
        }
        p.direction = {d[0] / nrm, d[1] / nrm, d[2] / nrm};
        p.position = {0.1 * u(rng), 0.1 * u(rng), 0.1 * u(rng)};
        p.time = 0;
        p.event_id = EventId{0};
        prims.push_back(p);
    }
    auto primaries_action = ExtendFromPrimariesAction::find_action(core);
    if (!primaries_action)
    {
        std::cerr << "no primaries action" << std::endl;
        return 3;
    }
    primaries_action->insert(core, state, make_span(prims));

    bool const has_ts = !state.ref().track_slots.empty();
    for (int step = 0; step < maxsteps; ++step)
    {
        state.counters().num_generated = 0;
        for (auto const& sp : b->seq->actions().step())
        {
            bool is_sort = dynamic_cast<SortTracksAction const*>(sp.get()) != nullptr;
            json j = {{"e", "Act"}, {"step", step}, {"label", std::string(sp->label())},
                      {"id", idv(sp->action_id())}, {"ao", to_cstring(sp->order())}, {"sort", is_sort},
                      {"ts0", slots_json(state.ref())}};
            if (is_sort)
            {
                j["c"] = arrays_json(state.ref(), nslots);
                j["off0"] = offsets_json(state.action_thread_offsets()[AllItems<ThreadId, MemSpace::host>{}]);
            }
            bool uses_range = state.has_action_range() && is_action_sorted(sp->order(), o);
            j["uses_range"] = uses_range;
            if (uses_range)
            {
                // what a device launch restricted to the action's range would visit
                auto rg = state.get_action_range(sp->action_id());
                j["range"] = {idv(*rg.begin()), idv(*rg.end())};
                j["c"] = arrays_json(state.ref(), nslots);
            }
            sp->step(core, state);
            j["ts1"] = slots_json(state.ref());
            if (is_sort)
            {
                j["c1"] = arrays_json(state.ref(), nslots);
                j["off1"] = offsets_json(state.action_thread_offsets()[AllItems<ThreadId, MemSpace::host>{}]);
            }
            out(j);
            ++nrec;
        }
        auto const& cn = state.counters();
        out({{"e", "StepEnd"}, {"step", step}, {"active", int(cn.num_active)}, {"alive", int(cn.num_alive)},
             {"queued", int(cn.num_initializers)}});
        ++nrec;
        if (cn.num_alive == 0 && cn.num_initializers == 0)
            break;
    }
    (void)has_ts;
    out({{"e", "Close"}, {"n", nrec}});
    out.flush();
    return 0;
}
}  // namespace

int main(int argc, char** argv)
{
    std::set_terminate(on_terminate);
    if (argc < 3)
    {
        std::cerr << "usage: vtracksort cases <in> <out> | state <out> <seed> <nrand> | live <out> <seed> <order> "
                     "<nslots> <nprim> <maxsteps>"
                  << std::endl;
        return 2;
    }
    std::string mode = argv[1];
    try
    {
        if (mode == "cases" && argc >= 4)
            return run_cases(argv[2], argv[3]);
        if (mode == "state" && argc >= 5)
            return run_state(argv[2], std::stoul(argv[3]), std::stoi(argv[4]));
        if (mode == "live" && argc >= 8)
            return run_live(argv[2], std::stoul(argv[3]), argv[4], std::stoul(argv[5]), std::stoi(argv[6]),
                            std::stoi(argv[7]), argc >= 9 && std::string(argv[8]) == "nomat");
    }
    catch (std::exception const& e)
    {
        std::cerr << "exception: " << e.what() << std::endl;
        if (g_out)
        {
            (*g_out)({{"e", "Abort"}, {"what", std::string(e.what()).substr(0, 300)}});
            g_out->flush();
        }
        return 70;
    }
    std::cerr << "bad arguments" << std::endl;
    return 2;
}
