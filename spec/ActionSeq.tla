------------------------------ MODULE ActionSeq ------------------------------
(* Extension X04: action registration and the per-step action sequence.

   Reference semantics of
     corecel/sys/ActionRegistry      (next_id, insert, find_action, id_to_label, mutable_actions)
     corecel/sys/ActionGroups        (step actions sorted by (order, id); begin-run actions by id)
     celeritas/global/ActionSequence (begin_run, step, accum_time, the single-slot skip rule,
                                      the StatusChecker hook)
     celeritas/global/Stepper        (begin_run once per state at construction, warm_up)
   written as ONE OPERATOR PER PUBLIC CALL on explicit state values, so that the same
   definitions serve the design check (ActionSeqMC.tla wires them into a state machine that
   TLC explores exhaustively) and the binding (ActionSeqTrace.tla evaluates them on every
   call the harness logs from the real classes).

   An action descriptor is a record
     [u, id, label, step, brun, mutable, order]
       u       identity of the C++ object (0 for actions the harness did not create)
       id      what action_id() returns (-1 = invalid ActionId)
       label   what label() returns
       step    it is a StepActionInterface        (order = its StepActionOrder, else -1)
       brun    it is a BeginRunActionInterface    (=> mutable)
       mutable it is a MutableActionInterface
   A registry value is R = [acts |-> Seq(descriptor), mut |-> Seq(descriptor)]:
     acts[i] is the action with ActionId i-1; mut is what mutable_actions() returns.
   A sequence value is Q = [steps, bruns, times, acc]: the snapshot an ActionSequence takes of
   the registry at construction, and its time accumulators (abstract ticks).

   Clause names (used by the invariants of ActionSeqMC and accumulated by ActionSeqTrace):
     X04.NextIdCountsRegistrations     next_id() = number of accepted registrations
     X04.InsertAcceptsValid            a valid registration is accepted and appended
     X04.InsertRejectsInvalid          wrong id / empty label / duplicate label / mutable
                                       action through a const pointer is rejected ...
     X04.RejectReasonTrue              ... for a reason that actually holds
     X04.RejectedInsertLeavesRegistryUnchanged
     X04.IdsDense, X04.LabelsUnique, X04.LabelsNonEmpty, X04.MapsInverse
     X04.MutableExact                  mutable_actions() = the registered mutable actions, id order
     X04.SeqIsSortedStepActions        step sequence = registered step actions by (order, id)
     X04.SeqSnapshot                   later registrations do not alter a built sequence
     X04.BeginRunList                  begin-run actions = registered ones, increasing id
     X04.BeginRunCalls                 begin_run calls each of them once, in that order, on that state
     X04.BeginRunBeforeFirstStep / X04.BeginRunNeverAgain
     X04.StepExecutesSequence          one step = every non-skipped step action once, in order
     X04.SingleSlotSkip                size 1 on host: a post-order action runs iff it is slot 0's
                                       post-step action (documented in ActionSequence::step)
     X04.TimesSize, X04.TimesNonNegative, X04.TimesMonotone, X04.TimesOnlyExecuted,
     X04.TimesGrowWhenExecuted, X04.TimesChangeOnlyInSteps
     X04.WarmUpRunsSequenceOnce, X04.WarmUpNoSideEffects, X04.WarmUpRefusedWhenActive
     X04.StatusCheckAfterEachAction    (binding only) *)
EXTENDS Integers, Sequences, FiniteSets, SequencesExt

None == -1
NumOrders == 14      \* StepActionOrder::size_
PostOrder == 11      \* StepActionOrder::post

Named(ok, name) == IF ok THEN {} ELSE {name}

-----------------------------------------------------------------------------
(* ---- ActionRegistry ---- *)
EmptyRegistry == [acts |-> <<>>, mut |-> <<>>]

NextId(R) == Len(R.acts)                       \* ActionRegistry::next_id
NumActions(R) == Len(R.acts)                   \* ActionRegistry::num_actions
IdToLabel(R, i) == R.acts[i + 1].label         \* ActionRegistry::id_to_label, 0 <= i < n
FindAction(R, lab) ==                          \* ActionRegistry::find_action
  IF \E i \in DOMAIN R.acts : R.acts[i].label = lab
  THEN (CHOOSE i \in DOMAIN R.acts : R.acts[i].label = lab /\ \A j \in 1..(i - 1) : R.acts[j].label # lab) - 1
  ELSE None

\* Why insert(a) through a (const | mutable) pointer must be refused; {} = valid
InsertFaults(R, a, asConst) ==
  (IF asConst /\ a.mutable THEN {"as_const"} ELSE {})
  \cup (IF a.label = "" THEN {"empty_label"} ELSE {})
  \cup (IF a.id # NextId(R) THEN {"wrong_id"} ELSE {})
  \cup (IF \E i \in DOMAIN R.acts : R.acts[i].label = a.label THEN {"dup_label"} ELSE {})

\* ActionRegistry::insert.  leak = TRUE is the behaviour AS CODED (finding F-ACT-1):
\* insert_mutable_impl appends to mutable_actions_ BEFORE insert_impl validates, so a mutable
\* action whose registration is refused stays in mutable_actions().
Insert(R, a, asConst, leak) ==
  LET f == InsertFaults(R, a, asConst)
      viaMutablePath == a.mutable /\ ~asConst
  IN IF f = {}
     THEN [R |-> [acts |-> Append(R.acts, a),
                  mut |-> IF viaMutablePath THEN Append(R.mut, a) ELSE R.mut],
           ok |-> TRUE, faults |-> f]
     ELSE [R |-> IF leak /\ viaMutablePath THEN [R EXCEPT !.mut = Append(@, a)] ELSE R,
           ok |-> FALSE, faults |-> f]

\* Registry invariants (sets of violated clause names)
RegistryClauses(R) ==
  Named(\A i \in DOMAIN R.acts : R.acts[i].id = i - 1, "X04.IdsDense")
  \cup Named(\A i, j \in DOMAIN R.acts : i # j => R.acts[i].label # R.acts[j].label, "X04.LabelsUnique")
  \cup Named(\A i \in DOMAIN R.acts : R.acts[i].label # "", "X04.LabelsNonEmpty")
  \cup Named(\A i \in DOMAIN R.acts : FindAction(R, IdToLabel(R, i - 1)) = i - 1, "X04.MapsInverse")
  \cup Named(R.mut = SelectSeq(R.acts, LAMBDA a : a.mutable), "X04.MutableExact")

-----------------------------------------------------------------------------
(* ---- ActionGroups / ActionSequence construction ---- *)
\* OrderedAction::operator<
Less(a, b) == a.order < b.order \/ (a.order = b.order /\ a.id < b.id)

StepActions(R) == SelectSeq(R.acts, LAMBDA a : a.step)

\* The sorted sequence, defined from the SET of step actions (hence independent of the
\* registration order): position k holds the action with exactly k-1 predecessors.  Ids of
\* registered actions are distinct, so Less is a strict total order; the registry position is
\* only a last-resort tie-break that keeps the definition total when a trace has already left
\* the rails (two registered actions claiming the same id).
SortedSteps(R) ==
  LET I == {i \in DOMAIN R.acts : R.acts[i].step}
      Before(i, j) == \/ Less(R.acts[i], R.acts[j])
                      \/ (~Less(R.acts[j], R.acts[i]) /\ i < j)
      pos == [k \in 1..Cardinality(I) |-> CHOOSE i \in I : Cardinality({j \in I : Before(j, i)}) = k - 1]
  IN [k \in 1..Cardinality(I) |-> R.acts[pos[k]]]

\* sorted = FALSE is a design mutant ("forgot to sort")
Build(R, times, sorted) ==
  LET st == IF sorted THEN SortedSteps(R) ELSE StepActions(R)
  IN [steps |-> st,
      bruns |-> SelectSeq(R.mut, LAMBDA a : a.brun),
      times |-> times,
      acc |-> [i \in 1..Len(st) |-> 0]]

SeqClauses(R, Q) ==
  Named(/\ Len(Q.steps) = Len(StepActions(R))
        /\ {Q.steps[i] : i \in DOMAIN Q.steps} = {a \in {R.acts[i] : i \in DOMAIN R.acts} : a.step}
        /\ \A i \in 1..(Len(Q.steps) - 1) : Less(Q.steps[i], Q.steps[i + 1]),
        "X04.SeqIsSortedStepActions")
  \cup Named(Q.bruns = SelectSeq(R.acts, LAMBDA a : a.brun), "X04.BeginRunList")
  \cup Named(Len(Q.acc) = Len(Q.steps), "X04.TimesSize")

-----------------------------------------------------------------------------
(* ---- ActionSequence::begin_run / step ---- *)
BeginRunCalls(Q) == Q.bruns      \* each once, in this order

\* the single-slot rule of ActionSequence::step (host only)
Skipped(a, size, psa) == size = 1 /\ a.order = PostOrder /\ a.id # psa
Executed(Q, size, psa) == SelectSeq(Q.steps, LAMBDA a : ~Skipped(a, size, psa))

\* warmTimes = TRUE is a design mutant ("accumulate timers while warming up")
Timed(Q, warm, warmTimes) == Q.times /\ (warmTimes \/ ~warm)
StepAcc(Q, size, psa, warm, warmTimes) ==
  [i \in DOMAIN Q.acc |->
     Q.acc[i] + (IF Timed(Q, warm, warmTimes) /\ ~Skipped(Q.steps[i], size, psa) THEN 1 ELSE 0)]
=============================================================================
