----------------------------- MODULE ActionSeqMC -----------------------------
(* Design check and scenario generator for X04 (spec/ActionSeq.tla).

   State machine: one ActionRegistry R, at most one ActionSequence Q built from it, two
   stepping states (st 0: one track slot, st 1: three).  Actions = public calls:
     MInsert    ActionRegistry::insert of a mock action (kind I/S/B/SB over Orders), with a
                right or wrong id (next-1, next+1, invalid), a fresh / empty / duplicate label,
                through a mutable or const pointer
     MBuild     ActionSequence::ActionSequence(registry, {action_times})
     MBeginRun  ActionSequence::begin_run(params, state)      (Stepper: once, at construction)
     MStep      ActionSequence::step(params, state) with slot 0's post-step action = psa and
                the state's warming_up flag = warm               (Stepper::operator() / warm_up)
   The invariants are the clauses of ActionSeq.tla.  Design switches (CONSTANTS):
     Leak = TRUE       as coded (F-ACT-1): refuted by InvRegistry / InvSeq / InvBeginRun
     Sorted = FALSE    mutant "no sort":   refuted by InvSeq
     WarmTimes = TRUE  mutant "timers run during warm-up": refuted by InvTimes
   Gen = TRUE turns the module into the scenario generator for the replay binding: only
   MInsert/MBuild are enabled, the history is kept, and every Build (and every registration
   after it) prints a complete scenario = history + Schedule(Q) as JSON. *)
EXTENDS ActionSeq, TLC, Json

CONSTANTS MaxAttempts,   \* registrations tried per scenario
          MaxFaults,     \* of which invalid
          Kinds,         \* subset of {"I", "S", "B", "SB"}
          Orders,        \* subset of 0..NumOrders-1 used by the step kinds
          ConstChoices,  \* subset of BOOLEAN: register through a const pointer?
          TimesChoices,  \* subset of BOOLEAN: Options::action_times
          MaxSteps,      \* MStep calls per behaviour (design mode)
          LateMax,       \* Gen: a registration after Build only if at most this many before it
          Gen, Leak, Sorted, WarmTimes

VARIABLES R,        \* the registry
          Rb,       \* ghost: the registry when Q was built
          Q,        \* the sequence, or NoSeq
          natt, nfault, nacc, nlate,
          begun,    \* [0..1 -> Nat] begin_run calls per state
          nstep,    \* [0..1 -> Nat] steps per state
          bcalls,   \* ghost: Seq(<<st, descriptor>>) every begin_run callback so far
          last,     \* ghost: the last MStep [st, size, psa, warm, calls, acc0] or NoLast
          hist      \* Gen: the operations so far
vars == <<R, Rb, Q, natt, nfault, nacc, nlate, begun, nstep, bcalls, last, hist>>

NoSeq == [steps |-> <<>>, bruns |-> <<>>, times |-> FALSE, acc |-> <<>>, none |-> TRUE]
NoLast == [st |-> -1]
Sizes == <<1, 3>>
SizeOf(st) == Sizes[st + 1]
FreshLabels == <<"a1", "a2", "a3", "a4", "a5", "a6">>

IsStepKind(k) == k \in {"S", "SB"}
IsBrunKind(k) == k \in {"B", "SB"}
Desc(u, k, o, id, lab) ==
  [u |-> u, id |-> id, label |-> lab, step |-> IsStepKind(k), brun |-> IsBrunKind(k),
   mutable |-> IsBrunKind(k), order |-> IF IsStepKind(k) THEN o ELSE -1]

IdChoices ==
  {NextId(R)} \cup (IF MaxFaults > 0
                    THEN {NextId(R) + 1, None} \cup (IF NextId(R) > 0 THEN {NextId(R) - 1} ELSE {})
                    ELSE {})
LabelChoices ==
  {FreshLabels[natt + 1]} \cup (IF MaxFaults > 0
                                THEN {""} \cup {R.acts[i].label : i \in DOMAIN R.acts}
                                ELSE {})

Init ==
  /\ R = EmptyRegistry /\ Rb = EmptyRegistry /\ Q = NoSeq
  /\ natt = 0 /\ nfault = 0 /\ nacc = 0 /\ nlate = 0
  /\ begun = [s \in 0..1 |-> 0] /\ nstep = [s \in 0..1 |-> 0]
  /\ bcalls = <<>> /\ last = NoLast /\ hist = <<>>

MInsert ==
  /\ natt < MaxAttempts
  /\ \A s \in 0..1 : begun[s] = 0      \* (late registrations: between Build and the first begin_run)
  /\ Q # NoSeq => (~Gen \/ (nlate = 0 /\ natt <= LateMax))
  /\ \E k \in Kinds, id \in IdChoices, lab \in LabelChoices, c \in ConstChoices :
     \E o \in (IF IsStepKind(k) THEN Orders ELSE {-1}) :
       LET a == Desc(natt + 1, k, IF IsStepKind(k) THEN o ELSE -1, id, lab)
           r == Insert(R, a, c, Leak)
       IN /\ (r.ok \/ nfault < MaxFaults)
          /\ R' = r.R
          /\ nfault' = nfault + (IF r.ok THEN 0 ELSE 1)
          /\ nacc' = nacc + (IF r.ok THEN 1 ELSE 0)
          /\ hist' = IF Gen THEN Append(hist, [op |-> "Insert", u |-> natt + 1, kind |-> k,
                                               order |-> a.order, id |-> id, label |-> lab,
                                               const |-> c])
                     ELSE hist
  /\ natt' = natt + 1
  /\ nlate' = IF Q # NoSeq THEN nlate + 1 ELSE nlate
  /\ UNCHANGED <<Rb, Q, begun, nstep, bcalls, last>>

MBuild ==
  /\ Q = NoSeq
  /\ \E t \in TimesChoices :
       /\ Q' = Build(R, t, Sorted)
       /\ hist' = IF Gen THEN Append(hist, [op |-> "Build", times |-> t]) ELSE hist
  /\ Rb' = R
  /\ UNCHANGED <<R, natt, nfault, nacc, nlate, begun, nstep, bcalls, last>>

MBeginRun ==
  /\ ~Gen /\ Q # NoSeq
  /\ \E st \in 0..1 :
       /\ begun[st] = 0
       /\ begun' = [begun EXCEPT ![st] = 1]
       /\ bcalls' = bcalls \o [i \in DOMAIN BeginRunCalls(Q) |-> <<st, BeginRunCalls(Q)[i]>>]
  /\ UNCHANGED <<R, Rb, Q, natt, nfault, nacc, nlate, nstep, last, hist>>

MStep ==
  /\ ~Gen /\ Q # NoSeq /\ nstep[0] + nstep[1] < MaxSteps
  /\ \E st \in 0..1, warm \in BOOLEAN, psa \in {None} \cup {Q.steps[i].id : i \in DOMAIN Q.steps} :
       /\ begun[st] = 1
       /\ last' = [st |-> st, size |-> SizeOf(st), psa |-> psa, warm |-> warm,
                   calls |-> Executed(Q, SizeOf(st), psa), acc0 |-> Q.acc]
       /\ Q' = [Q EXCEPT !.acc = StepAcc(Q, SizeOf(st), psa, warm, WarmTimes)]
       /\ nstep' = [nstep EXCEPT ![st] = @ + 1]
  /\ UNCHANGED <<R, Rb, natt, nfault, nacc, nlate, begun, bcalls, hist>>

Next == MInsert \/ MBuild \/ MBeginRun \/ MStep
Spec == Init /\ [][Next]_vars

-----------------------------------------------------------------------------
(* ---- invariants ---- *)
InvNextId == NextId(R) = nacc /\ NumActions(R) = nacc            \* X04.NextIdCountsRegistrations
InvRegistry == RegistryClauses(R) = {}
InvSeq == Q # NoSeq => SeqClauses(Rb, Q) = {}                    \* also X04.SeqSnapshot (Rb, not R)
InvAppendOnly == Q # NoSeq => IsPrefix(Rb.acts, R.acts)

RegisteredAtBuild == {Rb.acts[i] : i \in DOMAIN Rb.acts}
InvBeginRun ==
  /\ \A i \in DOMAIN bcalls : bcalls[i][2] \in RegisteredAtBuild /\ bcalls[i][2].brun
  /\ \A i, j \in DOMAIN bcalls : (i < j /\ bcalls[i][1] = bcalls[j][1]) => bcalls[i][2].id < bcalls[j][2].id
  /\ \A st \in 0..1 : nstep[st] > 0 =>
        \A a \in {b \in RegisteredAtBuild : b.brun} :
           Cardinality({i \in DOMAIN bcalls : bcalls[i] = <<st, a>>}) = 1

InvStep ==
  last # NoLast =>
    LET c == last.calls IN
    /\ \A i \in 1..(Len(c) - 1) : Less(c[i], c[i + 1])                      \* in order, no repeats
    /\ \A i \in DOMAIN c : \E j \in DOMAIN Q.steps : Q.steps[j] = c[i]
    /\ \A j \in DOMAIN Q.steps :
         LET a == Q.steps[j]
             called == \E i \in DOMAIN c : c[i] = a
         IN IF last.size = 1 /\ a.order = PostOrder THEN called = (a.id = last.psa) ELSE called

InvTimes ==
  /\ Q # NoSeq => (\A i \in DOMAIN Q.acc : Q.acc[i] >= 0) /\ (~Q.times => \A i \in DOMAIN Q.acc : Q.acc[i] = 0)
  /\ last # NoLast =>
       /\ \A i \in DOMAIN Q.acc : Q.acc[i] >= last.acc0[i]
       /\ \A i \in DOMAIN Q.acc : Q.acc[i] > last.acc0[i] => (\E k \in DOMAIN last.calls : last.calls[k] = Q.steps[i])
       /\ \A i \in DOMAIN Q.acc : (Q.times /\ ~last.warm /\ \E k \in DOMAIN last.calls : last.calls[k] = Q.steps[i])
                                     => Q.acc[i] > last.acc0[i]
       /\ last.warm => Q.acc = last.acc0                                      \* X04.WarmUpNoSideEffects

-----------------------------------------------------------------------------
(* ---- scenario generator ---- *)
PostIds(q) == {q.steps[i].id : i \in {j \in DOMAIN q.steps : q.steps[j].order = PostOrder}}
StepOp(st, psa, warm) == [op |-> "Step", st |-> st, psa |-> psa, warm |-> warm]
Schedule(q) ==
  <<[op |-> "BeginRun", st |-> 0], StepOp(0, None, FALSE)>>
  \o [i \in 1..Cardinality(PostIds(q)) |-> StepOp(0, SetToSortSeq(PostIds(q), <)[i], FALSE)]
  \o <<StepOp(0, None, TRUE), [op |-> "BeginRun", st |-> 1], StepOp(1, None, FALSE), StepOp(1, None, TRUE)>>

Emit ==
  (Gen /\ Q' # NoSeq /\ (Q = NoSeq \/ natt' # natt))
     => PrintT(<<"SCEN", ToJson([ops |-> hist' \o Schedule(Q')])>>)
=============================================================================
