SPECIFICATION Spec
CONSTANTS
  MaxAttempts = 4
  MaxFaults = 0
  Kinds = {"I", "S", "B", "SB"}
  Orders = {4, 11, 13}
  ConstChoices = {FALSE}
  TimesChoices = {TRUE}
  MaxSteps = 0
  LateMax = 1
  Gen = TRUE
  Leak = FALSE
  Sorted = TRUE
  WarmTimes = FALSE
ACTION_CONSTRAINT Emit
CHECK_DEADLOCK FALSE
