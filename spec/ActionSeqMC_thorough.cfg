SPECIFICATION Spec
CONSTANTS
  MaxAttempts = 3
  MaxFaults = 2
  Kinds = {"I", "S", "B", "SB"}
  Orders = {4, 11, 13}
  ConstChoices = {FALSE, TRUE}
  TimesChoices = {FALSE, TRUE}
  MaxSteps = 2
  LateMax = 3
  Gen = FALSE
  Leak = FALSE
  Sorted = TRUE
  WarmTimes = FALSE
INVARIANT InvNextId
INVARIANT InvRegistry
INVARIANT InvSeq
INVARIANT InvAppendOnly
INVARIANT InvBeginRun
INVARIANT InvStep
INVARIANT InvTimes
CHECK_DEADLOCK FALSE
