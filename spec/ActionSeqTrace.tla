--------------------------- MODULE ActionSeqTrace ---------------------------
(* Trace validation for X04: every record logged by harness/vactionseq.cc (one per public
   call of the REAL ActionRegistry / ActionSequence / Stepper) must be explained by the
   reference semantics of ActionSeq.tla.  One record = one step.  The spec follows the log,
   evaluates the named clauses of the corresponding call and ACCUMULATES the names of the
   violated ones (with the record number of the first occurrence); structural problems (an
   Abort record, a record out of protocol, a missing Close) reject the trace.

   Two kinds of traces, same vocabulary:
     replay  Config NullInsert (Scenario Insert* Build Insert* (BeginRun Step* )* )* Close
             scenarios enumerated by TLC (ActionSeqMC, Gen = TRUE); all actions are mocks
     sim     Config Registry Insert* Registry Insert* (Build BeginRun)+ Insert? (WarmUp | Step)* Close
             the real stepping loop; Registry records tell which real actions the library
             registered itself (adopted as environment after checking append-only)

   Named deviation (known finding, counted, never hidden):
     RejectedMutableLeak (F-ACT-1)  an insert that is rejected for a wrong id / empty label /
        duplicate label, of a mutable action through a mutable pointer, leaves the action in
        mutable_actions(); scope: exactly that record, and the logged registry equals the
        model's with that one action appended to the mutable list. *)
EXTENDS ActionSeq, TLC, Json, IOUtils

TraceLog == ndJsonDeserialize(IOEnv.TRACE)
N == Len(TraceLog)

VARIABLES l,      \* next record
          cfg,    \* the Config record
          R,      \* model of the registry
          Qs,     \* sid -> sequence value (NoSeq before Build)
          begun,  \* st -> number of begin_run calls on that state
          lastb,  \* sid -> bit tokens of the accumulators after the last call
          viol,   \* set of <<clause, record>> (first occurrence per clause)
          dev,    \* deviation name -> count
          stat
vars == <<l, cfg, R, Qs, begun, lastb, viol, dev, stat>>
Rec == TraceLog[l]

NoSeq == [steps |-> <<>>, bruns |-> <<>>, times |-> FALSE, acc |-> <<>>, none |-> TRUE]
Sids == 0..3
Fresh == [s \in Sids |-> NoSeq]
Zero == [s \in Sids |-> 0]
NoTok == [s \in Sids |-> <<>>]
Stat0 == [runs |-> 0, scenarios |-> 0, inserts |-> 0, accepted |-> 0, rejected |-> 0, builds |-> 0, beginruns |-> 0,
          steps |-> 0, warmups |-> 0, refused |-> 0, calls |-> 0, skipped |-> 0, prevchecked |-> 0,
          registries |-> 0, nullinsert |-> "none"]

AddViol(cl) == viol \cup {<<c, l>> : c \in {b \in cl : ~\E v \in viol : v[1] = b}}
Bump(field, k) == [stat EXCEPT ![field] = @ + k]

-----------------------------------------------------------------------------
(* ---- projections ---- *)
DescOfInsert(r) ==
  [u |-> r.u, id |-> r.id, label |-> r.label, step |-> r.kind \in {"S", "SB"}, brun |-> r.kind \in {"B", "SB"},
   mutable |-> r.kind \in {"B", "SB"}, order |-> IF r.kind \in {"S", "SB"} THEN r.order ELSE -1]
DescOfAct(a) ==
  [u |-> a.u, id |-> a.aid, label |-> a.label, step |-> a.step, brun |-> a.brun, mutable |-> a.mutable,
   order |-> a.order]

\* what the public accessors said (r.reg) against a registry value
ProjOK(M, p) ==
  /\ p.next = NextId(M) /\ p.n = NumActions(M) /\ p.empty = (NumActions(M) = 0)
  /\ Len(p.acts) = Len(M.acts)
  /\ \A i \in DOMAIN p.acts :
        /\ p.acts[i].label = M.acts[i].label /\ p.acts[i].alabel = M.acts[i].label
        /\ p.acts[i].aid = M.acts[i].id /\ p.acts[i].u = M.acts[i].u
  /\ \A i \in DOMAIN p.find : p.find[i].id = FindAction(M, p.find[i].label)
  /\ Len(p.mut) = Len(M.mut)
  /\ \A i \in DOMAIN p.mut : p.mut[i].u = M.mut[i].u /\ p.mut[i].id = M.mut[i].id /\ p.mut[i].label = M.mut[i].label

\* the projection alone: label <-> id maps are mutually inverse
ProjInverse(p) ==
  /\ \A i \in DOMAIN p.acts : \E k \in DOMAIN p.find : p.find[k].label = p.acts[i].label /\ p.find[k].id = i - 1
  /\ \A k \in DOMAIN p.find : p.find[k].id # None =>
        /\ p.find[k].id >= 0 /\ p.find[k].id < Len(p.acts)
        /\ p.acts[p.find[k].id + 1].label = p.find[k].label
  /\ \A i \in DOMAIN p.acts : p.acts[i].aid = i - 1 /\ p.acts[i].label # ""

IdsOf(s) == [i \in DOMAIN s |-> <<s[i].u, s[i].id>>]
Mocks(s) == SelectSeq(s, LAMBDA a : a.u > 0)

-----------------------------------------------------------------------------
(* ---- records ---- *)
\* a trace file is a concatenation of runs: Config ... Close Config ... Close
TConfig ==
  /\ Rec.e = "Config" /\ cfg.mode = "none"
  /\ cfg' = Rec
  /\ R' = EmptyRegistry /\ Qs' = Fresh /\ begun' = Zero /\ lastb' = NoTok
  /\ viol' = AddViol(Named(Rec.norders = NumOrders /\ Rec.post = PostOrder, "X04.Env.OrderEnum"))
  /\ stat' = Bump("runs", 1)
  /\ UNCHANGED dev

\* a null pointer must never end up registered (debug build: DebugError; release build: the
\* precondition is unchecked and the call dies -- observed in a child process)
TNullInsert ==
  /\ Rec.e = "NullInsert"
  /\ viol' = AddViol(Named(Rec.outcome # "accepted", "X04.NullNeverRegistered"))
  /\ stat' = [stat EXCEPT !.nullinsert = Rec.outcome]
  /\ UNCHANGED <<cfg, R, Qs, begun, lastb, dev>>

TScenario ==
  /\ Rec.e = "Scenario"
  /\ R' = EmptyRegistry /\ Qs' = Fresh /\ begun' = Zero /\ lastb' = NoTok
  /\ stat' = Bump("scenarios", 1)
  /\ UNCHANGED <<cfg, viol, dev>>

InsertClauses(a, good, isLeak) ==
  Named(Rec.next_before = NextId(R), "X04.NextIdCountsRegistrations")
  \cup Named(good.ok => Rec.res = "ok", "X04.InsertAcceptsValid")
  \cup Named(~good.ok => Rec.res # "ok", "X04.InsertRejectsInvalid")
  \cup Named((~good.ok /\ Rec.res # "ok") => Rec.res \in good.faults, "X04.RejectReasonTrue")
  \cup (IF isLeak THEN {}
        ELSE Named(ProjOK(good.R, Rec.reg),
                   IF good.ok THEN "X04.InsertAcceptsValid" ELSE "X04.RejectedInsertLeavesRegistryUnchanged"))
  \cup Named(ProjInverse(Rec.reg), "X04.MapsInverse")

TInsert ==
  /\ Rec.e = "Insert"
  /\ LET a == DescOfInsert(Rec)
         good == Insert(R, a, Rec.const, FALSE)
         leak == Insert(R, a, Rec.const, TRUE)
         isLeak == /\ ~good.ok /\ Rec.res # "ok" /\ a.mutable /\ ~Rec.const
                   /\ ~ProjOK(good.R, Rec.reg) /\ ProjOK(leak.R, Rec.reg)
         forced == [acts |-> Append(R.acts, a),
                    mut |-> IF a.mutable /\ ~Rec.const THEN Append(R.mut, a) ELSE R.mut]
     IN /\ viol' = AddViol(InsertClauses(a, good, isLeak))
        /\ dev' = IF isLeak THEN [dev EXCEPT !.RejectedMutableLeak = @ + 1] ELSE dev
        \* follow the implementation
        /\ R' = IF isLeak THEN leak.R ELSE IF Rec.res = "ok" THEN forced ELSE good.R
        /\ stat' = [stat EXCEPT !.inserts = @ + 1, !.accepted = @ + (IF Rec.res = "ok" THEN 1 ELSE 0),
                                !.rejected = @ + (IF Rec.res = "ok" THEN 0 ELSE 1)]
  /\ UNCHANGED <<cfg, Qs, begun, lastb>>

\* sim: the library registered actions itself; adopt them after checking append-only
TRegistry ==
  /\ Rec.e = "Registry"
  /\ LET new == [i \in DOMAIN Rec.acts |-> DescOfAct(Rec.acts[i])]
         prefixOK == /\ Len(new) >= Len(R.acts)
                     /\ \A i \in DOMAIN R.acts : new[i].label = R.acts[i].label /\ new[i].id = R.acts[i].id
                                                  /\ new[i].u = R.acts[i].u
         added == IF Len(new) >= Len(R.acts) THEN SubSeq(new, Len(R.acts) + 1, Len(new)) ELSE <<>>
         M == [acts |-> new, mut |-> R.mut \o SelectSeq(added, LAMBDA a : a.mutable)]
         pure == [acts |-> new, mut |-> SelectSeq(new, LAMBDA a : a.mutable)]
     IN /\ viol' = AddViol(Named(prefixOK, "X04.RegistryAppendOnly")
                           \cup Named(ProjOK(M, Rec.reg), "X04.MutableExact")
                           \cup Named(ProjInverse(Rec.reg), "X04.MapsInverse")
                           \cup RegistryClauses(pure)
                           \cup Named(\A i \in DOMAIN new : new[i].brun => new[i].mutable, "X04.Env.BeginRunIsMutable"))
        /\ R' = M
  /\ stat' = Bump("registries", 1)
  /\ UNCHANGED <<cfg, Qs, begun, lastb, dev>>

TBuild ==
  /\ Rec.e = "Build"
  /\ LET exp == Build(R, Rec.times, TRUE)
     IN /\ viol' = AddViol(
              Named(/\ Len(Rec.seq) = Len(exp.steps)
                    /\ \A i \in DOMAIN Rec.seq : /\ Rec.seq[i].u = exp.steps[i].u /\ Rec.seq[i].id = exp.steps[i].id
                                                 /\ Rec.seq[i].order = exp.steps[i].order,
                    "X04.SeqIsSortedStepActions")
              \cup Named(IdsOf(Rec.brun) = IdsOf(exp.bruns), "X04.BeginRunList")
              \cup Named(Rec.ntimes = Len(exp.steps) /\ Rec.times_on = Rec.times /\ Len(Rec.b1) = Rec.ntimes,
                         "X04.TimesSize")
              \cup Named(\A i, j \in DOMAIN Rec.b1 : Rec.b1[i] = Rec.b1[j], "X04.TimesNonNegative"))
        /\ Qs' = [Qs EXCEPT ![Rec.sid] = exp]
        /\ lastb' = [lastb EXCEPT ![Rec.sid] = Rec.b1]
  /\ begun' = IF cfg.mode = "replay" THEN Zero ELSE begun
  /\ stat' = Bump("builds", 1)
  /\ UNCHANGED <<cfg, R, dev>>

TBeginRun ==
  /\ Rec.e = "BeginRun"
  /\ Qs[Rec.sid] # NoSeq
  /\ LET exp == Mocks(BeginRunCalls(Qs[Rec.sid]))
     IN viol' = AddViol(
          Named(/\ Len(Rec.calls) = Len(exp)
                /\ \A i \in DOMAIN Rec.calls : /\ Rec.calls[i].u = exp[i].u /\ Rec.calls[i].id = exp[i].id
                                               /\ Rec.calls[i].stream = Rec.stream,
                "X04.BeginRunCalls")
          \cup Named(Rec.scalls = <<>>, "X04.BeginRunCalls")
          \cup Named(begun[Rec.st] = 0, "X04.BeginRunNeverAgain"))
  /\ begun' = [begun EXCEPT ![Rec.st] = @ + 1]
  /\ stat' = Bump("beginruns", 1)
  /\ UNCHANGED <<cfg, R, Qs, lastb, dev>>

\* ---- one pass of the sequence (Stepper::operator() or warm_up) ----
Sel == IF Rec.psa = -2 THEN None ELSE Rec.psa      \* sim: slot 0's post-step action is never a mock (checked)
InCalls(a) == \E n \in DOMAIN Rec.calls : Rec.calls[n].u = a.u
SameCalls(exp) ==
  /\ Len(Rec.calls) = Len(exp)
  /\ \A n \in DOMAIN Rec.calls : Rec.calls[n].u = exp[n].u /\ Rec.calls[n].id = exp[n].id
PosOf(Q, u) == IF \E k \in DOMAIN Q.steps : Q.steps[k].u = u
               THEN CHOOSE k \in DOMAIN Q.steps : Q.steps[k].u = u ELSE 0
\* StatusChecker: the action recorded as "last executed" when mock number k of the sequence starts
PrevOK(Q, size, k, prev) ==
  IF k <= 1 THEN TRUE
  ELSE IF size > 1 THEN prev = Q.steps[k - 1].id
  ELSE LET nonpost == {j \in 1..(k - 1) : Q.steps[j].order # PostOrder}
           j0 == IF nonpost = {} THEN 0 ELSE CHOOSE j \in nonpost : \A i \in nonpost : i <= j
       IN j0 = 0 \/ \E i \in j0..(k - 1) : prev = Q.steps[i].id

PassClauses(Q, warm, runName) ==
  LET size == Rec.size
      expAll == Mocks(Executed(Q, size, Sel))
      timed == Timed(Q, warm, FALSE)
      nT == Len(Q.steps)
  IN
  Named(begun[Rec.st] = 1, "X04.BeginRunBeforeFirstStep")
  \cup Named(Rec.bcalls = <<>>, "X04.BeginRunNeverAgain")
  \cup Named(SameCalls(expAll),
             IF size = 1 /\ SameCalls(Mocks(Q.steps)) THEN "X04.SingleSlotSkip" ELSE runName)
  \cup Named(\A n \in DOMAIN Rec.calls : Rec.calls[n].warm = warm /\ Rec.calls[n].stream = Rec.stream, runName)
  \cup Named(Rec.psa = -2 \/ \A n \in DOMAIN Rec.calls : Rec.calls[n].psa = Rec.psa, "X04.Env.PsaSeen")
  \cup Named(Rec.psa # -2 \/ \A n \in DOMAIN Rec.calls :
                ~\E k \in DOMAIN Q.steps : /\ Q.steps[k].u > 0 /\ Q.steps[k].order = PostOrder
                                           /\ Q.steps[k].id = Rec.calls[n].psa,
             "X04.Env.PostStepActionIsMock")
  \cup Named(~cfg.status \/ \A n \in DOMAIN Rec.calls :
                 PrevOK(Q, size, PosOf(Q, Rec.calls[n].u), Rec.calls[n].prev),
             "X04.StatusCheckAfterEachAction")
  \cup Named(Len(Rec.t0) = nT /\ Len(Rec.t1) = nT /\ Len(Rec.b0) = nT /\ Len(Rec.b1) = nT, "X04.TimesSize")
  \cup Named(Rec.b0 = lastb[Rec.sid], "X04.TimesChangeOnlyInSteps")
  \cup (IF Len(Rec.t0) = nT /\ Len(Rec.t1) = nT /\ Len(Rec.b0) = nT /\ Len(Rec.b1) = nT
        THEN Named(Rec.tfinite /\ \A i \in 1..nT : Rec.t0[i] >= Rec.tzero /\ Rec.t1[i] >= Rec.tzero,
                   "X04.TimesNonNegative")
             \cup Named(\A i \in 1..nT : Rec.t1[i] >= Rec.t0[i], "X04.TimesMonotone")
             \cup Named(\A i \in 1..nT :
                          (\/ ~timed
                           \/ (Q.steps[i].u > 0 /\ ~InCalls(Q.steps[i]))
                           \/ (Rec.allobs /\ Skipped(Q.steps[i], size, Sel)))
                          => (Rec.t1[i] = Rec.t0[i] /\ Rec.b1[i] = Rec.b0[i]),
                        IF warm THEN "X04.WarmUpNoSideEffects" ELSE "X04.TimesOnlyExecuted")
             \cup Named(\A i \in 1..nT : (timed /\ Q.steps[i].u > 0 /\ InCalls(Q.steps[i])) => Rec.t1[i] > Rec.t0[i],
                        "X04.TimesGrowWhenExecuted")
        ELSE {})

TStep ==
  /\ Rec.e = "Step"
  /\ Qs[Rec.sid] # NoSeq
  /\ LET Q == Qs[Rec.sid] IN
     /\ viol' = AddViol(
            PassClauses(Q, Rec.warm, IF Rec.warm THEN "X04.WarmUpRunsSequenceOnce" ELSE "X04.StepExecutesSequence")
            \cup (IF cfg.mode = "sim"
                  THEN Named(~Rec.warm_after, "X04.WarmUpNoSideEffects")
                       \cup Named(Rec.d0 = -1 \/ Rec.d1 - Rec.d0 = Rec.active, "X04.DiagnosticCountsActiveTracks")
                  ELSE {}))
     /\ stat' = [stat EXCEPT !.steps = @ + 1, !.calls = @ + Len(Rec.calls),
                             !.skipped = @ + (Len(Mocks(Q.steps)) - Len(Rec.calls)),
                             !.prevchecked = @ + (IF cfg.status THEN Len(Rec.calls) ELSE 0)]
  /\ lastb' = [lastb EXCEPT ![Rec.sid] = Rec.b1]
  /\ UNCHANGED <<cfg, R, Qs, begun, dev>>

\* Stepper::warm_up
TWarmUp ==
  /\ Rec.e = "WarmUp"
  /\ Qs[Rec.sid] # NoSeq
  /\ LET Q == Qs[Rec.sid]
         refused == Rec.res # "ok"
     IN
     /\ viol' = AddViol(
            Named(refused = (Rec.c0.active > 0), "X04.WarmUpRefusedWhenActive")
            \cup Named(Rec.c1 = Rec.c0 /\ Rec.d1 = Rec.d0 /\ Rec.b1 = Rec.b0 /\ ~Rec.warm_after,
                       IF refused THEN "X04.WarmUpRefusedWhenActive" ELSE "X04.WarmUpNoSideEffects")
            \cup (IF refused
                  THEN Named(Rec.calls = <<>> /\ Rec.bcalls = <<>>, "X04.WarmUpRefusedWhenActive")
                       \cup Named(Rec.b0 = lastb[Rec.sid], "X04.TimesChangeOnlyInSteps")
                  ELSE PassClauses(Q, TRUE, "X04.WarmUpRunsSequenceOnce")))
     /\ stat' = [stat EXCEPT !.warmups = @ + 1, !.refused = @ + (IF refused THEN 1 ELSE 0),
                             !.calls = @ + Len(Rec.calls),
                             !.prevchecked = @ + (IF cfg.status THEN Len(Rec.calls) ELSE 0)]
  /\ lastb' = [lastb EXCEPT ![Rec.sid] = Rec.b1]
  /\ UNCHANGED <<cfg, R, Qs, begun, dev>>

TClose ==
  /\ Rec.e = "Close"
  /\ cfg' = [mode |-> "none"]
  /\ UNCHANGED <<R, Qs, begun, lastb, viol, dev, stat>>

Init ==
  /\ l = 1 /\ cfg = [mode |-> "none"] /\ R = EmptyRegistry /\ Qs = Fresh /\ begun = Zero /\ lastb = NoTok
  /\ viol = {} /\ dev = [RejectedMutableLeak |-> 0] /\ stat = Stat0
Next ==
  /\ l <= N
  /\ l' = l + 1
  /\ (Rec.e = "Config" \/ cfg.mode # "none")
  /\ \/ TConfig \/ TNullInsert \/ TScenario \/ TInsert \/ TRegistry \/ TBuild \/ TBeginRun
     \/ TStep \/ TWarmUp \/ TClose
Spec == Init /\ [][Next]_vars

Accepted ==
  LET d == TLCGet("stats").diameter IN
  IF d - 1 = N /\ TraceLog[N].e = "Close" THEN TRUE
  ELSE PrintT(<<"REJECTED", d, TraceLog[IF d <= N THEN d ELSE N]>>) /\ FALSE
Report == (l = N + 1) => PrintT(<<"SUMMARY", ToJson([viol |-> viol, dev |-> dev, stat |-> stat])>>)
=============================================================================
