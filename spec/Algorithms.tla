---------------------------- MODULE Algorithms ----------------------------
(* Reference semantics of celeritas' device-portable algorithms (C18).
   Sequences are TLA+ sequences (1-based); the C++ side reports 0-based indices,
   converted here.  Everything is stated as a *post-condition* (what the standard
   library guarantees), never as a particular algorithm, so a behaviour-preserving
   re-implementation is accepted. *)
EXTENDS Integers, Sequences, FiniteSets, SequencesExt, Functions

Bag(s) == [v \in ToSet(s) |-> Cardinality({i \in DOMAIN s : s[i] = v})]
IsPerm(r, s) == Len(r) = Len(s) /\ Bag(r) = Bag(s)
SortedBy(r, LE(_, _)) == \A i \in 1..(Len(r) - 1) : LE(r[i], r[i + 1])

\* sort: the result is the sorted permutation
SortOK(s, r, LE(_, _)) == IsPerm(r, s) /\ SortedBy(r, LE)

\* indirect sort of indices 0..n-1 by key s[i+1]
SortIdxOK(s, idx) ==
  /\ Len(idx) = Len(s)
  /\ ToSet(idx) = {i - 1 : i \in DOMAIN s}
  /\ \A i \in 1..(Len(idx) - 1) : s[idx[i] + 1] <= s[idx[i + 1] + 1]

\* partition: post-condition of std::partition, m = index of the first element of
\* the second group (0-based = number of elements satisfying P)
PartitionOK(s, r, m, P(_)) ==
  /\ IsPerm(r, s)
  /\ m = Cardinality({i \in DOMAIN s : P(s[i])})
  /\ \A i \in DOMAIN r : (i <= m) <=> P(r[i])

\* searches on a sequence sorted by LT (strict weak order)
LowerBound(t, k, LT(_, _)) == Cardinality({i \in DOMAIN t : LT(t[i], k)})
UpperBound(t, k, LT(_, _)) == Cardinality({i \in DOMAIN t : ~LT(k, t[i])})
FindSorted(t, k, LT(_, _)) ==
  LET lb == LowerBound(t, k, LT) IN
  IF lb < Len(t) /\ ~LT(k, t[lb + 1]) THEN lb ELSE Len(t)

\* first minimum w.r.t. LT; Len(s) (= "last") when empty
MinElement(s, LT(_, _)) ==
  IF s = <<>> THEN 0
  ELSE (CHOOSE i \in DOMAIN s : /\ \A j \in DOMAIN s : ~LT(s[j], s[i])
                                 /\ \A m \in 1..(i - 1) : LT(s[i], s[m])) - 1

AllOf(s, P(_)) == \A i \in DOMAIN s : P(s[i])
AnyOf(s, P(_)) == \E i \in DOMAIN s : P(s[i])
AllAdjacent(s, R(_, _)) == \A i \in 1..(Len(s) - 1) : R(s[i], s[i + 1])

\* ---- integer helpers -------------------------------------------------------
CeilDiv(a, b) == (a + b - 1) \div b
RECURSIVE IPow(_, _)
IPow(v, n) == IF n = 0 THEN 1 ELSE v * IPow(v, n - 1)
Signum(v) == IF v > 0 THEN 1 ELSE IF v < 0 THEN -1 ELSE 0
Abs(x) == IF x < 0 THEN -x ELSE x
\* Euclidean modulus: the unique r in [0, |d|) with n - r a multiple of d
Eumod(n, d) == CHOOSE r \in 0..(Abs(d) - 1) : (n - r) % Abs(d) = 0
Clamp(v, lo, hi) == IF v < lo THEN lo ELSE IF v > hi THEN hi ELSE v
Min2(a, b) == IF b < a THEN b ELSE a
Max2(a, b) == IF a < b THEN b ELSE a
LocalWork(total, nw, i) == (total \div nw) + (IF i < total % nw THEN 1 ELSE 0)

\* ---- ranges ---------------------------------------------------------------
RangeSeq(a, b) == [i \in 1..(b - a) |-> a + i - 1]
\* positive step: a, a+st, ... < b ; negative step: b+st, b+2st, ... >= a
StepRangeSeq(a, b, st) ==
  IF st > 0 THEN [i \in 1..CeilDiv(b - a, st) |-> a + (i - 1) * st]
  ELSE [i \in 1..((b - a) \div (-st)) |-> b + i * st]

\* ---- hyperslab indexers: C order, last dimension fastest -------------------
RECURSIVE Flat(_, _)
Flat(dims, c) == IF Len(dims) = 0 THEN 0
                 ELSE Flat(Front(dims), Front(c)) * Last(dims) + Last(c)

\* ---- ragged-right indexers (orange/univ/detail/RaggedRightIndexer.hh) ----------
\* offsets are the running sums of the row sizes; flat index k lies in the unique row i
\* (0-based) with offsets[i+1] <= k < offsets[i+2] (1-based TLA+ indexing)
OffsetsOf(sizes) == [i \in 1..(Len(sizes) + 1) |-> FoldLeft(LAMBDA a, b : a + b, 0, SubSeq(sizes, 1, i - 1))]
RaggedCoords(offsets, k) ==
  LET i == CHOOSE j \in 1..(Len(offsets) - 1) : offsets[j] <= k /\ k < offsets[j + 1]
  IN <<i - 1, k - offsets[i]>>

\* ---- spans ---------------------------------------------------------------------
SpanData(n) == [i \in 1..n |-> 9 + i]                    \* the harness fills 10, 11, ...
SubSpan(d, off, cnt) == SubSeq(d, off + 1, off + cnt)    \* 0-based offset

\* ---- bilinear interpolation on a 2-D grid (exact integer arithmetic) --------------
\* knots are integers, queries and fractions are in quarter units (x4 = 4 x); the result
\* is compared as r16 * Dx * Dy = 16 * numerator, so nothing is ever rounded
TwodBin(knots, q4) == Cardinality({i \in DOMAIN knots : 4 * knots[i] <= q4}) - 1
TwodOK(xs, ys, v, q) ==
  LET ix == TwodBin(xs, q.x4) + 1   iy == TwodBin(ys, q.y4) + 1       \* 1-based lower knot
      Dx == 4 * (xs[ix + 1] - xs[ix])   Dy == 4 * (ys[iy + 1] - ys[iy])
      nx == q.x4 - 4 * xs[ix]           ny == q.y4 - 4 * ys[iy]
      num == (Dx - nx) * ((Dy - ny) * v[ix][iy] + ny * v[ix][iy + 1])
             + nx * ((Dy - ny) * v[ix + 1][iy] + ny * v[ix + 1][iy + 1])
  IN /\ q.exact /\ q.same /\ q.xfexact
     /\ q.xi = ix - 1
     /\ q.xf4 * Dx = 4 * nx
     /\ q.r16 * Dx * Dy = 16 * num

\* ---- grids on ranks ---------------------------------------------------------
\* the bin b (0-based) with knots[b+1] <= v < knots[b+2] in 1-based TLA+ indexing
GridBin(knots, v) == Cardinality({i \in DOMAIN knots : knots[i] <= v}) - 1
=============================================================================
