SPECIFICATION Spec
INVARIANT Complete
INVARIANT Report
POSTCONDITION Accepted
CHECK_DEADLOCK FALSE
