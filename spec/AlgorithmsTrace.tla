------------------------- MODULE AlgorithmsTrace -------------------------
(* Trace validation for C18: every record logged by harness/valgo.cc must be
   explained by the reference semantics of Algorithms.tla.  One record = one step.
   Named deviation: GridUlpDeviation (finding F-GRID-1) -- counted, not hidden. *)
EXTENDS Algorithms, TLC, Json, IOUtils

TraceLog == ndJsonDeserialize(IOEnv.TRACE)
Exhaustive == IOEnv.EXH = "1"        \* Seq records must enumerate all sequences in order
MaxLen == atoi(IOEnv.MAXLEN)

VARIABLES l,      \* next record
          prev,   \* previous sequence in exhaustive enumeration (<<-1>> before the first)
          dev,    \* number of records explained only by the named deviation
          ncase   \* number of elementary cases validated
vars == <<l, prev, dev, ncase>>

Rec == TraceLog[l]
LT(a, b) == a < b
GT(a, b) == a > b
LE(a, b) == a <= b
GE(a, b) == a >= b

\* successor in length-then-lexicographic order over 0..A-1
NextSeq(s, A) ==
  IF \A i \in DOMAIN s : s[i] = A - 1 THEN [i \in 1..(Len(s) + 1) |-> 0]
  ELSE LET p == CHOOSE p \in DOMAIN s : s[p] # A - 1 /\ \A j \in (p + 1)..Len(s) : s[j] = A - 1
       IN [i \in DOMAIN s |-> IF i < p THEN s[i] ELSE IF i = p THEN s[p] + 1 ELSE 0]

SeqOK(r) ==
  LET s == r.s  A == r.a  t == r.t
      d == [i \in DOMAIN t |-> t[Len(t) + 1 - i]]
  IN
  /\ SortOK(s, r.sort_lt, LE)
  /\ SortOK(s, r.sort_gt, GE)
  /\ SortIdxOK(s, r.sort_idx)
  /\ \A i \in DOMAIN r.part :
        LET p == r.part[i] IN
        /\ PartitionOK(s, p.r, p.m, LAMBDA x : x < p.k)
        /\ r.allof[i] = AllOf(s, LAMBDA x : x < p.k)
        /\ r.anyof[i] = AnyOf(s, LAMBDA x : x < p.k)
  /\ PartitionOK(s, r.part_even.r, r.part_even.m, LAMBDA x : x % 2 = 0)
  /\ r.minel = (IF s = <<>> THEN 0 ELSE MinElement(s, LT))
  /\ r.maxel = (IF s = <<>> THEN 0 ELSE MinElement(s, GT))
  /\ r.adj_le = AllAdjacent(s, LE)
  /\ r.adj_lt = AllAdjacent(s, LT)
  /\ SortOK(s, t, LE)                       \* the harness' sorted input really is sorted
  /\ \A i \in DOMAIN r.srch :
        LET q == r.srch[i] IN
        /\ q.lb = LowerBound(t, q.k, LT)
        /\ q.lbl = LowerBound(t, q.k, LT)
        /\ q.ub = UpperBound(t, q.k, LT)
        /\ q.fs = FindSorted(t, q.k, LT)
  /\ \A i \in DOMAIN r.srchd :
        LET q == r.srchd[i] IN
        /\ q.lb = LowerBound(d, q.k, GT)
        /\ q.ub = UpperBound(d, q.k, GT)
        /\ q.fs = FindSorted(d, q.k, GT)

TSeq ==
  /\ Rec.e = "Seq"
  /\ SeqOK(Rec)
  /\ IF Exhaustive
     THEN /\ Rec.s = (IF prev = <<-1>> THEN <<>> ELSE NextSeq(prev, Rec.a))
          /\ prev' = Rec.s
     ELSE prev' = prev
  /\ ncase' = ncase + 11 + 3 * Len(Rec.part) + 4 * Len(Rec.srch) + 3 * Len(Rec.srchd)
  /\ dev' = dev

Simple(ok) == ok /\ UNCHANGED <<prev, dev>> /\ ncase' = ncase + 1

TCeilDiv == Rec.e = "CeilDiv" /\ Simple(Rec.r = CeilDiv(Rec.a, Rec.b))
TIpow == Rec.e = "Ipow" /\ Simple(Rec.r = IPow(Rec.v, Rec.n))
TSignum == Rec.e = "Signum" /\ Simple(Rec.r = Signum(Rec.v))
TNegate == Rec.e = "Negate" /\ Simple(Rec.r = -Rec.v /\ (Rec.v = 0 => ~Rec.signbit))
TEumod == Rec.e = "Eumod" /\ Simple(Rec.exact /\ Rec.r = Eumod(Rec.n, Rec.d))
TClamp == Rec.e = "Clamp" /\ Simple(Rec.r = Clamp(Rec.v, Rec.lo, Rec.hi) /\ Rec.rd = Rec.r)
TNonneg == Rec.e = "Nonneg" /\ Simple(Rec.r = Max2(Rec.v, 0))
TMinMax == Rec.e = "MinMax" /\ Simple(/\ Rec.mn = Min2(Rec.a, Rec.b) /\ Rec.mx = Max2(Rec.a, Rec.b)
                                      /\ Rec.mnd = Rec.mn /\ Rec.mxd = Rec.mx)
TLocalWork == Rec.e = "LocalWork" /\
   Simple(/\ Len(Rec.r) = Rec.nw
          /\ \A i \in DOMAIN Rec.r : Rec.r[i] = LocalWork(Rec.total, Rec.nw, i - 1)
          /\ FoldLeft(LAMBDA a, b : a + b, 0, Rec.r) = Rec.total)
TRange == Rec.e = "Range" /\
   Simple(/\ Rec.r = RangeSeq(Rec.a, Rec.b) /\ Rec.size = Rec.b - Rec.a
          /\ Rec.empty = (Rec.a = Rec.b))
TStepRange == Rec.e = "StepRange" /\ Simple(Rec.r = StepRangeSeq(Rec.a, Rec.b, Rec.st))
TCountStep == Rec.e = "CountStep" /\
   Simple(Rec.r = [i \in 1..5 |-> Rec.a + (i - 1) * Rec.st])
THyperslab == Rec.e = "Hyperslab" /\
   Simple(LET dims == Rec.dims
              total == FoldLeft(LAMBDA a, b : a * b, 1, dims) IN
          /\ Len(Rec.map) = total
          /\ \A k \in DOMAIN Rec.map :
                LET m == Rec.map[k] IN
                /\ m.i = k - 1
                /\ Len(m.c) = Len(dims)
                /\ \A j \in DOMAIN dims : m.c[j] >= 0 /\ m.c[j] < dims[j]
                /\ Flat(dims, m.c) = m.i         \* inverse indexer = C order
                /\ m.back = m.i)                 \* indexer o inverse = identity
TLinInterp == Rec.e = "LinInterp" /\
   Simple(/\ Rec.exact
          /\ Rec.r8 * (Rec.x1 - Rec.x0)
               = 8 * (Rec.y0 * (Rec.x1 - Rec.x0) + (Rec.y1 - Rec.y0) * (Rec.x - Rec.x0)))

\* ---- anchored utilities recorded by "valgo misc2" ----------------------------------
TRagged == Rec.e = "Ragged" /\
   Simple(LET off == Rec.offsets IN
          /\ off = OffsetsOf(Rec.sizes)
          /\ Len(Rec.map) = off[Len(off)]
          /\ \A k \in DOMAIN Rec.map :
                LET m == Rec.map[k] IN
                /\ m.i = k - 1
                /\ m.c = RaggedCoords(off, m.i)
                /\ m.back = m.i)
TSpan == Rec.e = "Span" /\
   Simple(LET d == SpanData(Rec.n) IN
          /\ Rec.size = Rec.n /\ Rec.empty = (Rec.n = 0)
          /\ Rec.rest = SubSpan(d, Rec.off, Rec.n - Rec.off)
          /\ Rec.first = SubSpan(d, 0, Rec.off)
          /\ Rec.last = SubSpan(d, Rec.n - Rec.off, Rec.off)
          /\ Len(Rec.subs) = Rec.n - Rec.off + 1
          /\ \A c \in DOMAIN Rec.subs : Rec.subs[c] = SubSpan(d, Rec.off, c - 1)
          /\ (Rec.n > 0 => Rec.front = d[1] /\ Rec.back = d[Rec.n]))
TSpanStatic == Rec.e = "SpanStatic" /\
   Simple(LET d == SpanData(Rec.n) IN
          /\ Rec.first2 = SubSpan(d, 0, 2) /\ Rec.last2 = SubSpan(d, Rec.n - 2, 2)
          /\ Rec.sub13 = SubSpan(d, 1, 3) /\ Rec.rest2 = SubSpan(d, 2, Rec.n - 2)
          /\ Rec.first0 = <<>> /\ Rec.last5 = d /\ Rec.arr = d)
TTwod ==
  /\ Rec.e = "Twod"
  /\ SortedBy(Rec.x, LT) /\ SortedBy(Rec.y, LT)
  /\ Len(Rec.v) = Len(Rec.x) /\ \A i \in DOMAIN Rec.v : Len(Rec.v[i]) = Len(Rec.y)
  /\ Len(Rec.qs) = 16 * (Len(Rec.x) - 1) * (Len(Rec.y) - 1)      \* every quarter point of every cell
  /\ \A i \in DOMAIN Rec.qs : TwodOK(Rec.x, Rec.y, Rec.v, Rec.qs[i]) = TRUE
  /\ ncase' = ncase + Len(Rec.qs)
  /\ UNCHANGED <<prev, dev>>
TDiffsq == Rec.e = "Diffsq" /\ Simple(Rec.r = Rec.a * Rec.a - Rec.b * Rec.b /\ Rec.ri = Rec.r)
TFma == Rec.e = "Fma" /\ Simple(Rec.r = Rec.a * Rec.b + Rec.c /\ Rec.ri = Rec.r)
TRsqrt == Rec.e = "Rsqrt" /\ Simple(Rec.one /\ Rec.onef)
TFastPow == Rec.e = "FastPow" /\ Simple(Rec.near /\ Rec.r = IPow(Rec.a, Rec.n))

\* ---- grids ------------------------------------------------------------------
\* f0: fraction >= 0; f1: fraction <= 1 (the correctly rounded value of a ratio just below
\* one may be 1.0); fz: fraction = 0 exactly at a knot (the converse is not required: one
\* denormal above a knot at 0.0 the fraction underflows to 0)
QueryOK(knots, q) ==
  /\ q.bin = GridBin(knots, q.v)
  /\ q.f0 /\ q.f1 /\ ((\E i \in DOMAIN knots : knots[i] = q.v) => q.fz)
\* F-GRID-1: uniform grid only, the query is a knot or an immediate floating-point
\* neighbour of a knot, and the bin is off by exactly one towards that knot.
QueryUlpDeviation(knots, q) ==
  LET ref == GridBin(knots, q.v) IN
  /\ ~QueryOK(knots, q)
  /\ \E i \in DOMAIN knots : knots[i] \in {q.vd, q.v, q.vu}
  /\ \/ (q.bin = ref - 1 /\ knots[ref + 1] \in {q.vd, q.v})      \* just above knot ref, binned below
     \/ (q.bin = ref + 1 /\ knots[ref + 2] \in {q.vu})           \* just below the next knot, binned above
  /\ q.bin >= 0 /\ q.bin < Len(knots)    \* (bin = Len-1 happens 1 ulp below the last knot)
TGrid ==
  /\ Rec.e = "Grid"
  /\ SortedBy(Rec.knots, LT)
  /\ LET bad == {i \in DOMAIN Rec.qs : ~QueryOK(Rec.knots, Rec.qs[i])} IN
     /\ \A i \in bad : Rec.uniform /\ QueryUlpDeviation(Rec.knots, Rec.qs[i])
     /\ dev' = dev + Cardinality(bad)
  /\ ncase' = ncase + Len(Rec.qs)
  /\ prev' = prev

Init == l = 1 /\ prev = <<-1>> /\ dev = 0 /\ ncase = 0
Next ==
  /\ l <= Len(TraceLog)
  /\ l' = l + 1
  /\ \/ TSeq \/ TCeilDiv \/ TIpow \/ TSignum \/ TNegate \/ TEumod \/ TClamp \/ TNonneg
     \/ TMinMax \/ TLocalWork \/ TRange \/ TStepRange \/ TCountStep \/ THyperslab
     \/ TLinInterp \/ TGrid \/ TRagged \/ TSpan \/ TSpanStatic \/ TTwod
     \/ TDiffsq \/ TFma \/ TRsqrt \/ TFastPow
Spec == Init /\ [][Next]_vars

\* after the last record: exhaustive enumeration must have ended on the last sequence
Complete ==
  (l = Len(TraceLog) + 1 /\ Exhaustive) =>
      /\ prev # <<-1>> /\ Len(prev) = MaxLen
      /\ \A i \in DOMAIN prev : prev[i] = TraceLog[Len(TraceLog)].a - 1

Accepted ==
  LET d == TLCGet("stats").diameter IN
  IF d - 1 = Len(TraceLog) THEN TRUE
  ELSE /\ PrintT(<<"REJECTED", d, TraceLog[d]>>)
       /\ FALSE
Report == (l = Len(TraceLog) + 1) => PrintT(<<"SUMMARY", "cases", ncase, "deviations", dev>>)
=============================================================================
