--------------------------------- MODULE Bih ---------------------------------
(* Extension X03: the bounding-interval hierarchy (BIH) that ORANGE uses to locate the
   volume containing a point (src/orange/detail/BIHBuilder, BIHPartitioner, BIHTraverser,
   BIHData; used by SimpleUnitTracker::initialize / cross_boundary through
   find_volume_where).

   CONTRACT.  For EVERY list of bounding boxes B (volume v has box B[v+1]; finite,
   degenerate-thin, overlapping, nested, identical, infinite, null) and EVERY point p and
   EVERY predicate Acc (a set of accepted volume ids):

     the lookup calls the predicate on volumes whose box contains p (faces included, as
     geocel/BoundingBox.hh is_inside defines it), never twice, stops at the first accepted
     one and returns it; if none is accepted it has asked EVERY volume whose box contains p
     and returns "none".  Hence: found <=> some volume whose box contains p is accepted.
     Tie rule (read from BIHTraverser::operator()): volumes with a non-infinite box are asked
     before the volumes with an infinite box; the latter in increasing id; the former in
     depth-first, left-edge-first order of the tree, in stored order inside a leaf.

   The TREE is an implementation choice.  What every legal tree satisfies (structural
   clauses, evaluated on the tree the real builder produced):
     WellFormed      node 0 is the root; parent and child links agree; every other node is
                     the child of exactly one inner node and reaches the root; inner nodes
                     are numbered before leaves (BIHTraverser::is_inner relies on it)
     ExactlyOnce     every volume with a non-null, non-infinite box is in exactly one leaf,
                     exactly once; every infinite one exactly once in inf_volids; null ones
                     nowhere
     Enclosure       every volume of a leaf lies within the half-spaces accumulated along the
                     path from the root: below the LEFT plane of every left edge, above the
                     RIGHT plane of every right edge
     LeafNonEmpty    no empty leaf, except the single empty leaf of a tree without finite boxes
     FiniteTree      at most 2 n - 1 nodes for n volumes in the tree
   and, informational only (DRIFT: documented in BIHData.hh / BIHBuilder.hh but not needed by
   the contract): PlanesTight (the planes ARE the extreme faces), LeafSharesCentre (a leaf with
   several volumes holds boxes with one common centre) and PartitionByCentre (centres below the
   left edge are smaller than centres below the right edge).

   Coordinates are integers in HALF lattice units (exact in float/double); +-INF stands for
   +-infinity.  Volume and node ids are 0-based as in the code; -1 is the null id.

   The module has three parts: (1) boxes and trees, (2) the clauses, as sets of VIOLATED
   clause names, (3) the builder and the traverser as state-free actions (one per public
   call / loop iteration of the code) used by BihMC.tla, which also carries the plausible
   wrong variants. *)
EXTENDS Integers, Sequences, FiniteSets, SequencesExt

INF == 1000000
Axes == 1..3
None == -1

Named(ok, name) == IF ok THEN {} ELSE {name}
MaxOf(S) == CHOOSE x \in S : \A y \in S : x >= y
MinOf(S) == CHOOSE x \in S : \A y \in S : x <= y

-----------------------------------------------------------------------------
(* ---- (1a) boxes: [lo |-> <<x,y,z>>, hi |-> <<x,y,z>>] ---- *)
IsNull(b) == \E a \in Axes : b.lo[a] > b.hi[a]
IsInfinite(b) == \A a \in Axes : b.lo[a] = -INF /\ b.hi[a] = INF
IsFinite(b) == ~IsNull(b) /\ \A a \in Axes : b.lo[a] > -INF /\ b.hi[a] < INF
\* geocel/BoundingBox.hh is_inside: faces included; nothing is inside a null box
Inside(b, p) == \A a \in Axes : b.lo[a] <= p[a] /\ p[a] <= b.hi[a]

Vols(B) == 0..(Len(B) - 1)
Box(B, v) == B[v + 1]
InTree(B, v) == ~IsNull(Box(B, v)) /\ ~IsInfinite(Box(B, v))
TreeVols(B) == {v \in Vols(B) : InTree(B, v)}
InfVols(B) == {v \in Vols(B) : IsInfinite(Box(B, v))}
\* twice the centre coordinate (only compared for equality / order)
Centre2(b, a) == b.lo[a] + b.hi[a]
\* the brute-force answer: every volume whose box contains the point
Cand(B, p) == {v \in Vols(B) : Inside(Box(B, v), p)}

(* ---- (1b) trees: [nodes |-> Seq(node), inf |-> Seq(vol)], node id i is nodes[i+1];
        inner node [k |-> "i", parent, axis (0-based), lpos, lchild, rpos, rchild],
        leaf       [k |-> "l", parent, vols]                                      ---- *)
NodeIds(T) == 0..(Len(T.nodes) - 1)
Nd(T, i) == T.nodes[i + 1]
IsInner(T, i) == Nd(T, i).k = "i"
Inners(T) == {i \in NodeIds(T) : IsInner(T, i)}
Leaves(T) == NodeIds(T) \ Inners(T)
Ax(n) == n.axis + 1
Sides == {"L", "R"}
Child(n, s) == IF s = "L" THEN n.lchild ELSE n.rchild
Plane(n, s) == IF s = "L" THEN n.lpos ELSE n.rpos

RECURSIVE ReachesRoot(_, _, _)
ReachesRoot(T, j, fuel) ==
  IF j = 0 THEN TRUE
  ELSE IF fuel = 0 \/ j \notin NodeIds(T) THEN FALSE
  ELSE ReachesRoot(T, Nd(T, j).parent, fuel - 1)

WellFormed(T) ==
  /\ Len(T.nodes) >= 1
  /\ Nd(T, 0).parent = None
  /\ \A i \in NodeIds(T) : Nd(T, i).k \in {"i", "l"}
  \* layout the traverser relies on: all inner nodes first
  /\ \A i \in Inners(T), j \in Leaves(T) : i < j
  /\ \A i \in Inners(T) :
        LET n == Nd(T, i) IN
        /\ n.axis \in 0..2
        /\ n.lchild # n.rchild
        /\ \A s \in Sides : /\ Child(n, s) \in NodeIds(T) \ {0}
                            /\ Nd(T, Child(n, s)).parent = i
  /\ \A j \in NodeIds(T) \ {0} :
        /\ Cardinality({<<i, s>> \in Inners(T) \X Sides : Child(Nd(T, i), s) = j}) = 1
        /\ ReachesRoot(T, j, Len(T.nodes))

\* the edges <<inner node, side>> on the path from the root to node j (needs WellFormed)
RECURSIVE PathEdges(_, _)
PathEdges(T, j) ==
  IF j = 0 THEN {}
  ELSE LET q == Nd(T, j).parent IN
       {<<q, IF Nd(T, q).lchild = j THEN "L" ELSE "R">>} \cup PathEdges(T, q)

\* leaves in depth-first, left-first order (needs WellFormed)
RECURSIVE DfsLeaves(_, _)
DfsLeaves(T, i) ==
  IF IsInner(T, i) THEN DfsLeaves(T, Nd(T, i).lchild) \o DfsLeaves(T, Nd(T, i).rchild)
  ELSE <<i>>

\* the order in which volumes can be asked: <<leaf, volume>> pairs, inf_volids last (leaf None)
VisitOrder(T) ==
  FoldLeft(LAMBDA acc, j : acc \o [x \in 1..Len(Nd(T, j).vols) |-> <<j, Nd(T, j).vols[x]>>],
           <<>>, DfsLeaves(T, 0))
  \o [x \in 1..Len(T.inf) |-> <<None, T.inf[x]>>]

LeafOf(T, v) == CHOOSE j \in Leaves(T) : \E x \in DOMAIN Nd(T, j).vols : Nd(T, j).vols[x] = v

-----------------------------------------------------------------------------
(* ---- (2a) structural clauses ---- *)
\* the slots <<leaf, position>> of all leaves
Slots(T) == UNION {{<<j, x>> : x \in DOMAIN Nd(T, j).vols} : j \in Leaves(T)}
SlotVol(T, s) == Nd(T, s[1]).vols[s[2]]

ExactlyOnce(B, T) ==
  /\ \A s \in Slots(T) : SlotVol(T, s) \in Vols(B)
  /\ \A x \in DOMAIN T.inf : T.inf[x] \in Vols(B)
  /\ \A v \in Vols(B) :
        LET nl == Cardinality({s \in Slots(T) : SlotVol(T, s) = v})
            ni == Cardinality({x \in DOMAIN T.inf : T.inf[x] = v}) IN
        /\ InTree(B, v) => (nl = 1 /\ ni = 0)
        /\ IsInfinite(Box(B, v)) => (nl = 0 /\ ni = 1)
        /\ IsNull(Box(B, v)) => (nl = 0 /\ ni = 0)

Encloses(B, T, j, v) ==
  \A e \in PathEdges(T, j) :
     LET n == Nd(T, e[1]) IN
     IF e[2] = "L" THEN Box(B, v).hi[Ax(n)] <= n.lpos
     ELSE Box(B, v).lo[Ax(n)] >= n.rpos
Enclosure(B, T) ==
  \A j \in Leaves(T) : \A x \in DOMAIN Nd(T, j).vols :
     Nd(T, j).vols[x] \in Vols(B) => Encloses(B, T, j, Nd(T, j).vols[x])

LeafNonEmpty(B, T) ==
  \/ \A j \in Leaves(T) : Nd(T, j).vols # <<>>
  \/ (TreeVols(B) = {} /\ Len(T.nodes) = 1 /\ Nd(T, 0).vols = <<>>)

FiniteTree(B, T) ==
  LET n == Cardinality(TreeVols(B)) IN
  /\ Len(T.nodes) <= (IF n = 0 THEN 1 ELSE 2 * n - 1)
  /\ Cardinality(Leaves(T)) = Cardinality(Inners(T)) + 1

\* volumes below an inner node's edge
RECURSIVE VolsBelow(_, _)
VolsBelow(T, i) ==
  IF IsInner(T, i) THEN VolsBelow(T, Nd(T, i).lchild) \cup VolsBelow(T, Nd(T, i).rchild)
  ELSE ToSet(Nd(T, i).vols)

PlanesTight(B, T) ==
  \A i \in Inners(T) :
     LET n == Nd(T, i)
         lv == VolsBelow(T, n.lchild)
         rv == VolsBelow(T, n.rchild) IN
     /\ lv # {} /\ rv # {}
     /\ n.lpos = MaxOf({Box(B, v).hi[Ax(n)] : v \in lv})
     /\ n.rpos = MinOf({Box(B, v).lo[Ax(n)] : v \in rv})

\* "partitioning is done on the basis of bounding box centers" (BIHBuilder.hh): along the node's
\* axis every centre below the left edge is smaller than every centre below the right edge
PartitionByCentre(B, T) ==
  (\A v \in TreeVols(B) : IsFinite(Box(B, v))) =>
     \A i \in Inners(T) :
        LET n == Nd(T, i) IN
        \A v \in VolsBelow(T, n.lchild), w \in VolsBelow(T, n.rchild) :
           Centre2(Box(B, v), Ax(n)) < Centre2(Box(B, w), Ax(n))

\* documented in BIHBuilder.hh; only meaningful when every box in the tree is finite (the
\* partitioner's cost function is infinite otherwise)
LeafSharesCentre(B, T) ==
  (\A v \in TreeVols(B) : IsFinite(Box(B, v))) =>
     \A j \in Leaves(T) : \A x, y \in DOMAIN Nd(T, j).vols : \A a \in Axes :
        Centre2(Box(B, Nd(T, j).vols[x]), a) = Centre2(Box(B, Nd(T, j).vols[y]), a)

\* violated structural clauses; the later ones are only evaluated on a well-formed tree
StructViolations(B, T) ==
  IF ~WellFormed(T) THEN {"Bih.WellFormed"}
  ELSE Named(ExactlyOnce(B, T), "Bih.ExactlyOnce")
       \cup (IF ExactlyOnce(B, T) THEN Named(Enclosure(B, T), "Bih.Enclosure") ELSE {})
       \cup Named(LeafNonEmpty(B, T), "Bih.LeafNonEmpty")
       \cup Named(FiniteTree(B, T), "Bih.FiniteTree")
StructDrift(B, T) ==
  IF StructViolations(B, T) # {} THEN {}
  ELSE Named(PlanesTight(B, T), "Bih.PlanesTight")
       \cup Named(LeafSharesCentre(B, T), "Bih.LeafSharesCentre")
       \cup Named(PartitionByCentre(B, T), "Bih.PartitionByCentre")

(* ---- (2b) lookup clauses: calls = the ids the predicate was called with, in order;
        r = the returned id (None = not found); Acc = the ids the predicate accepts ---- *)
UpToFirst(s, Acc) ==
  IF \E i \in DOMAIN s : s[i] \in Acc
  THEN SubSeq(s, 1, MinOf({i \in DOMAIN s : s[i] \in Acc}))
  ELSE s

\* tree-independent part (cand = Cand(B, p), the brute-force candidate set)
CallsOnlyCandidates(cand, calls) == \A i \in DOMAIN calls : calls[i] \in cand
NoRepeatedCall(calls) == \A i, j \in DOMAIN calls : i # j => calls[i] # calls[j]
StopsAtFirstAccept(Acc, calls, r) ==
  /\ \A i \in 1..(Len(calls) - 1) : calls[i] \notin Acc
  /\ r = (IF calls # <<>> /\ calls[Len(calls)] \in Acc THEN calls[Len(calls)] ELSE None)
\* not found => every candidate was asked (so: found <=> some candidate is accepted)
Complete(cand, calls, r) == r = None => cand \subseteq ToSet(calls)
IsInfVol(B, v) == v \in Vols(B) /\ IsInfinite(Box(B, v))
\* volumes with an infinite box are only asked after every other candidate, ...
TieFiniteBeforeInfinite(B, cand, calls) ==
  \A j \in DOMAIN calls :
     IsInfVol(B, calls[j]) =>
        /\ \A i \in (j + 1)..Len(calls) : IsInfVol(B, calls[i])
        /\ \A w \in cand : ~IsInfVol(B, w) => \E i \in 1..(j - 1) : calls[i] = w
\* ... and in increasing id
TieInfiniteAscending(B, calls) ==
  \A j \in DOMAIN calls :
     IsInfVol(B, calls[j]) =>
        \A w \in InfVols(B) : w < calls[j] => \E i \in 1..(j - 1) : calls[i] = w

\* tree-dependent part: the calls are exactly the candidates in visiting order up to the
\* first accepted one.  CandOrder: the <<leaf, volume>> pairs of VisitOrder whose box contains p
CandOrder(B, ord, p) == SelectSeq(ord, LAMBDA e : e[2] \in Vols(B) /\ Inside(Box(B, e[2]), p))
SecondOf(c) == [x \in DOMAIN c |-> c[x][2]]
RefCalls(B, T, p, Acc) == UpToFirst(SecondOf(CandOrder(B, VisitOrder(T), p)), Acc)

\* violated lookup clauses; co = CandOrder (only used when treeok: the tree is well formed and
\* holds every volume exactly once)
FindViolationsC(B, cand, co, treeok, Acc, calls, r) ==
  Named(CallsOnlyCandidates(cand, calls), "Bih.CallsOnlyCandidates")
  \cup Named(NoRepeatedCall(calls), "Bih.NoRepeatedCall")
  \cup Named(StopsAtFirstAccept(Acc, calls, r), "Bih.StopsAtFirstAccept")
  \cup Named(Complete(cand, calls, r), "Bih.Complete")
  \cup Named(TieFiniteBeforeInfinite(B, cand, calls), "Bih.TieFiniteBeforeInfinite")
  \cup Named(TieInfiniteAscending(B, calls), "Bih.TieInfiniteAscending")
  \cup (IF treeok THEN Named(calls = UpToFirst(SecondOf(co), Acc), "Bih.TieDepthFirstOrder") ELSE {})

TreeOK(B, T) == WellFormed(T) /\ ExactlyOnce(B, T)
FindViolations(B, T, p, Acc, calls, r) ==
  LET ok == TreeOK(B, T) IN
  FindViolationsC(B, Cand(B, p), IF ok THEN CandOrder(B, VisitOrder(T), p) ELSE <<>>, ok, Acc, calls, r)

\* ---- as coded (finding F-BIH-1): edges are pruned with STRICT comparisons, so a point
\* exactly on a bounding plane does not descend that edge although boxes touching the plane
\* contain it.  EdgeTaken(n, s, p, mode): would the traversal descend edge s of inner node n?
EdgeTaken(n, s, p, mode) ==
  LET x == p[Ax(n)] IN
  CASE mode = "inclusive" -> IF s = "L" THEN x <= n.lpos ELSE (n.rpos <= x \/ ~(x <= n.lpos))
    [] mode = "coded"     -> IF s = "L" THEN x < n.lpos ELSE (n.rpos < x \/ ~(x < n.lpos))
LeafReached(T, j, p, mode) ==
  j = None \/ \A e \in PathEdges(T, j) : EdgeTaken(Nd(T, e[1]), e[2], p, mode)
CodedCallsC(T, co, p, Acc) ==
  UpToFirst(SecondOf(SelectSeq(co, LAMBDA e : LeafReached(T, e[1], p, "coded"))), Acc)
CodedCalls(B, T, p, Acc) == CodedCallsC(T, CandOrder(B, VisitOrder(T), p), p, Acc)
OnSomePlane(T, p) == \E i \in Inners(T) : p[Ax(Nd(T, i))] \in {Nd(T, i).lpos, Nd(T, i).rpos}

\* the exactly scoped named deviation: the tree is sound, the point lies on a bounding plane of
\* the tree, the calls are exactly those of the strict pruning, and only the clauses that a
\* skipped candidate can break are broken (V = the violated clauses)
OnPlaneSkippedC(T, co, p, Acc, calls, V) ==
  /\ OnSomePlane(T, p)
  /\ calls = CodedCallsC(T, co, p, Acc)
  /\ calls # UpToFirst(SecondOf(co), Acc)
  /\ V \subseteq {"Bih.Complete", "Bih.TieDepthFirstOrder", "Bih.TieFiniteBeforeInfinite"}
OnPlaneSkipped(B, T, p, Acc, calls, r) ==
  /\ TreeOK(B, T)
  /\ OnPlaneSkippedC(T, CandOrder(B, VisitOrder(T), p), p, Acc, calls,
                     FindViolations(B, T, p, Acc, calls, r))

-----------------------------------------------------------------------------
(* ---- (3a) the builder: BIHBuilder::operator() / construct_tree / arrange_nodes.
   Builder state bs = [nodes, work]: nodes in construction (pre-)order, work = stack of
   [idx |-> Seq(vol), parent, side].  The partitioner may choose ANY axis and ANY position
   between two distinct centres (the surface-area heuristic of BIHPartitioner only selects
   among them), so every legal tree is covered, not one particular tree. ---- *)
SeqMaxHi(B, s, a) == MaxOf({Box(B, s[x]).hi[a] : x \in DOMAIN s})
SeqMinLo(B, s, a) == MinOf({Box(B, s[x]).lo[a] : x \in DOMAIN s})

\* all partitions of the volume list idx: [axis (1-based), left, right]
Splits(B, idx) ==
  {[axis |-> a,
    left |-> SelectSeq(idx, LAMBDA v : Centre2(Box(B, v), a) <= c),
    right |-> SelectSeq(idx, LAMBDA v : Centre2(Box(B, v), a) > c)] :
     <<a, c>> \in {<<aa, cc>> \in Axes \X {Centre2(Box(B, idx[x]), a2) : x \in DOMAIN idx, a2 \in Axes} :
                     /\ \E x \in DOMAIN idx : Centre2(Box(B, idx[x]), aa) = cc
                     /\ \E x \in DOMAIN idx : Centre2(Box(B, idx[x]), aa) > cc}}

IdSeq(S) == SetToSortSeq(S, LAMBDA a, b : a < b)

BuildStart(B) ==
  [nodes |-> <<>>,
   work |-> IF TreeVols(B) = {} THEN <<>> ELSE <<[idx |-> IdSeq(TreeVols(B)), parent |-> None, side |-> "L"]>>]

Link(nodes, it, id) ==
  IF it.parent = None THEN nodes
  ELSE [nodes EXCEPT ![it.parent + 1] =
          IF it.side = "L" THEN [@ EXCEPT !.lchild = id] ELSE [@ EXCEPT !.rchild = id]]

\* construct_tree, partition found.  planes = "bbox": extreme faces of the two halves (as
\* coded); "centre": WRONG variant that puts both planes at the dividing centre
BuildSplit(B, bs, sp, planes) ==
  LET it == Head(bs.work)
      id == Len(bs.nodes)
      a == sp.axis
      cut == MaxOf({Centre2(Box(B, sp.left[x]), a) : x \in DOMAIN sp.left}) \div 2
      node == [k |-> "i", parent |-> it.parent, axis |-> a - 1,
               lpos |-> IF planes = "bbox" THEN SeqMaxHi(B, sp.left, a) ELSE cut,
               lchild |-> None,
               rpos |-> IF planes = "bbox" THEN SeqMinLo(B, sp.right, a) ELSE cut,
               rchild |-> None] IN
  [nodes |-> Append(Link(bs.nodes, it, id), node),
   work |-> <<[idx |-> sp.left, parent |-> id, side |-> "L"],
              [idx |-> sp.right, parent |-> id, side |-> "R"]>> \o Tail(bs.work)]

\* construct_tree, no partition: a leaf
BuildLeaf(bs) ==
  LET it == Head(bs.work)
      id == Len(bs.nodes) IN
  [nodes |-> Append(Link(bs.nodes, it, id), [k |-> "l", parent |-> it.parent, vols |-> it.idx]),
   work |-> Tail(bs.work)]

\* arrange_nodes: inner nodes first, leaves after, ids remapped; plus inf_volids
Arrange(B, nodes) ==
  LET n == Len(nodes)
      inner == {i \in 1..n : nodes[i].k = "i"}
      ni == Cardinality(inner)
      newid(i) == IF i = None THEN None
                  ELSE IF (i + 1) \in inner THEN Cardinality({j \in inner : j < i + 1})
                  ELSE ni + Cardinality({j \in (1..n) \ inner : j < i + 1})
      old(k) == CHOOSE i \in 0..(n - 1) : newid(i) = k
      remap(nd) == IF nd.k = "i"
                   THEN [nd EXCEPT !.parent = newid(nd.parent), !.lchild = newid(nd.lchild),
                                   !.rchild = newid(nd.rchild)]
                   ELSE [nd EXCEPT !.parent = newid(nd.parent)] IN
  [nodes |-> IF n = 0 THEN <<[k |-> "l", parent |-> None, vols |-> <<>>]>>
             ELSE [k \in 1..n |-> remap(nodes[old(k - 1) + 1])],
   inf |-> IdSeq(InfVols(B))]

(* ---- (3b) the traverser: one iteration of the do-while loop of BIHTraverser::operator(),
   then visit_inf_vols.  Traverser state ts = [cur, prev, calls, res, done].
   mode: "coded" (strict edge tests, as the code has them), "inclusive" (the repair that meets
   the contract), and the wrong variants "noright" (second visit of an inner node returns to
   the parent), "leftonly" (first visit: right edge only tested, never taken unconditionally,
   with strict tests) used as vacuity guards. ---- *)
FindStart == [cur |-> 0, prev |-> None, calls |-> <<>>, res |-> None, done |-> FALSE]

LeftOK(n, p, mode) ==
  IF mode = "inclusive" THEN p[Ax(n)] <= n.lpos ELSE p[Ax(n)] < n.lpos
RightOK(n, p, mode) ==
  IF mode = "inclusive" THEN n.rpos <= p[Ax(n)] ELSE n.rpos < p[Ax(n)]

NextNode(T, cur, prev, p, mode) ==
  IF IsInner(T, cur)
  THEN LET n == Nd(T, cur) IN
       IF prev = n.parent
       THEN IF LeftOK(n, p, mode) THEN n.lchild
            ELSE IF mode = "leftonly" /\ ~RightOK(n, p, mode) THEN n.parent
            ELSE n.rchild
       ELSE IF prev = n.lchild
       THEN IF mode # "noright" /\ RightOK(n, p, mode) THEN n.rchild ELSE n.parent
       ELSE n.parent
  ELSE prev

LeafCalls(B, vols, p, Acc) == UpToFirst(SelectSeq(vols, LAMBDA v : Inside(Box(B, v), p)), Acc)
EndsAccepted(c, Acc) == c # <<>> /\ c[Len(c)] \in Acc

FindIter(B, T, ts, p, Acc, mode) ==
  LET c == IF IsInner(T, ts.cur) THEN <<>> ELSE LeafCalls(B, Nd(T, ts.cur).vols, p, Acc) IN
  IF EndsAccepted(c, Acc)
  THEN [ts EXCEPT !.calls = @ \o c, !.res = c[Len(c)], !.done = TRUE]
  ELSE [ts EXCEPT !.calls = @ \o c, !.prev = ts.cur, !.cur = NextNode(T, ts.cur, ts.prev, p, mode)]

FindInf(T, ts, Acc) ==
  LET c == UpToFirst(T.inf, Acc) IN
  [ts EXCEPT !.calls = @ \o c, !.res = IF EndsAccepted(c, Acc) THEN c[Len(c)] ELSE None, !.done = TRUE]
=============================================================================
