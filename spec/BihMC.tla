-------------------------------- MODULE BihMC --------------------------------
(* Design check for spec/Bih.tla (extension X03) -- no code involved.

   TLC enumerates EVERY configuration of at most MaxBoxes boxes over the lattice Coords^Dims
   (every interval a <= b per varying axis: thin, nested, overlapping, identical boxes all occur;
   plus the infinite box and the null box), EVERY tree the builder of Bih.tla can produce for it
   (any axis, any position between two distinct centres), EVERY lattice and half-lattice point one
   half step beyond the lattice, EVERY predicate (subset of accepted ids), and runs the traverser
   iteration by iteration.

   Invariants: the structural clauses hold for every tree (StructOK), the lookup satisfies every
   lookup clause (FindOK) and equals the brute-force answer (BruteForce), the builder and the
   traversal are bounded (BuilderBounded, WalkBounded; with deadlock checking on this is
   termination: the state graph is finite and every non-final state has a successor).

   Configurations (.cfg):
     BihMC           Edge = "inclusive", Planes = "bbox": the design that meets the contract
     BihMC_ascoded   Edge = "coded" (strict edge tests, as BIHTraverser::visit_edge has them):
                     FindOKModuloOnPlane holds -- every disagreement with the contract is the
                     named deviation OnPlaneSkipped (finding F-BIH-1) ...
     BihMC_f1        ... and FindOK itself is REFUTED for Edge = "coded" (the finding, at design level)
     BihMC_mut_centre   Planes = "centre" (planes at the dividing centre)      MUST be refuted
     BihMC_mut_noright  Edge = "noright" (second visit returns to the parent)  MUST be refuted
     BihMC_mut_leftonly Edge = "leftonly" (right edge pruned on first visit)   MUST be refuted
     BihMC_gen       writes every configuration (here also the semi-infinite kinds, which the
                     builder's precondition excludes) and the point list to IOEnv.OUT as ndjson
                     for the replay on the real builder and traverser (harness/vbih.cc) *)
EXTENDS Bih, TLC, Json, IOUtils

CONSTANTS Coords,     \* lattice coordinates in half units (even numbers)
          Dims,       \* number of varying axes (1 or 2); the others are [0, 2] with points at 1
          MaxBoxes,
          WithThin,   \* include zero-thickness intervals a = a
          WithInf,    \* include the infinite box
          WithNull,   \* include the null box
          WithSemi,   \* include semi-infinite boxes (generation only)
          Edge,       \* traverser variant
          Planes      \* builder variant

VARIABLES phase,   \* "pick" -> "build" -> "ready" -> "walk" -> "done"
          boxes, bs, tree, pt, acc, ts, steps
vars == <<phase, boxes, bs, tree, pt, acc, ts, steps>>

Intervals == {<<a, b>> \in Coords \X Coords : a < b \/ (WithThin /\ a = b)}
Pad == <<0, 2>>
BoxOf(f) == [lo |-> [a \in Axes |-> IF a <= Dims THEN f[a][1] ELSE Pad[1]],
             hi |-> [a \in Axes |-> IF a <= Dims THEN f[a][2] ELSE Pad[2]]]
FiniteKinds == {BoxOf(f) : f \in [1..Dims -> Intervals]}
InfBox == [lo |-> <<-INF, -INF, -INF>>, hi |-> <<INF, INF, INF>>]
NullBox == [lo |-> <<INF, INF, INF>>, hi |-> <<-INF, -INF, -INF>>]
\* semi-infinite along the first axis, cut at the second lattice coordinate (the other axes keep the
\* full lattice extent / padding)
SemiCut == MinOf(Coords \ {MinOf(Coords)})
SemiIntervals == {<<-INF, SemiCut>>, <<SemiCut, INF>>, <<-INF, INF>>}
SemiKinds == {BoxOf([a \in 1..Dims |-> IF a = 1 THEN s ELSE <<MinOf(Coords), MaxOf(Coords)>>]) :
                s \in SemiIntervals}
Kinds == FiniteKinds \cup (IF WithInf THEN {InfBox} ELSE {}) \cup (IF WithNull THEN {NullBox} ELSE {})
         \cup (IF WithSemi THEN SemiKinds ELSE {})
Configs == UNION {[1..m -> Kinds] : m \in 1..MaxBoxes}

PointCoords == (MinOf(Coords) - 1)..(MaxOf(Coords) + 1)
PointSet == {[a \in Axes |-> IF a <= Dims THEN f[a] ELSE 1] : f \in [1..Dims -> PointCoords]}

NoTree == [nodes |-> <<>>, inf |-> <<>>]

Init ==
  /\ phase = "pick" /\ boxes = <<>> /\ bs = [nodes |-> <<>>, work |-> <<>>] /\ tree = NoTree
  /\ pt = <<0, 0, 0>> /\ acc = {} /\ ts = FindStart /\ steps = 0

\* BIHBuilder::operator(): separate infinite / null boxes, start the recursion
Pick ==
  /\ phase = "pick"
  /\ \E c \in Configs : boxes' = c /\ bs' = BuildStart(c)
  /\ phase' = "build"
  /\ UNCHANGED <<tree, pt, acc, ts, steps>>

\* construct_tree with a partition
Split ==
  /\ phase = "build" /\ bs.work # <<>>
  /\ \E sp \in Splits(boxes, Head(bs.work).idx) : bs' = BuildSplit(boxes, bs, sp, Planes)
  /\ UNCHANGED <<phase, boxes, tree, pt, acc, ts, steps>>

\* construct_tree without a partition (all centres equal)
Leaf ==
  /\ phase = "build" /\ bs.work # <<>>
  /\ Splits(boxes, Head(bs.work).idx) = {}
  /\ bs' = BuildLeaf(bs)
  /\ UNCHANGED <<phase, boxes, tree, pt, acc, ts, steps>>

\* arrange_nodes + inf_volids
Finish ==
  /\ phase = "build" /\ bs.work = <<>>
  /\ tree' = Arrange(boxes, bs.nodes)
  /\ phase' = "ready"
  /\ UNCHANGED <<boxes, bs, pt, acc, ts, steps>>

\* BIHTraverser::operator()(point, predicate)
Begin ==
  /\ phase = "ready"
  /\ \E p \in PointSet, A \in SUBSET Vols(boxes) : pt' = p /\ acc' = A
  /\ ts' = FindStart /\ steps' = 0
  /\ phase' = "walk"
  /\ UNCHANGED <<boxes, bs, tree>>

Iter ==
  /\ phase = "walk" /\ ~ts.done /\ ts.cur # None
  /\ ts' = FindIter(boxes, tree, ts, pt, acc, Edge)
  /\ steps' = steps + 1
  /\ UNCHANGED <<phase, boxes, bs, tree, pt, acc>>

Inf ==
  /\ phase = "walk" /\ ~ts.done /\ ts.cur = None
  /\ ts' = FindInf(tree, ts, acc)
  /\ UNCHANGED <<phase, boxes, bs, tree, pt, acc, steps>>

Return ==
  /\ phase = "walk" /\ ts.done
  /\ phase' = "done"
  /\ UNCHANGED <<boxes, bs, tree, pt, acc, ts, steps>>

Terminated == phase = "done" /\ UNCHANGED vars

Next == Pick \/ Split \/ Leaf \/ Finish \/ Begin \/ Iter \/ Inf \/ Return \/ Terminated
Spec == Init /\ [][Next]_vars

-----------------------------------------------------------------------------
StructOK ==
  phase = "ready" => /\ StructViolations(boxes, tree) = {}
                     /\ StructDrift(boxes, tree) = {}

FindOK ==
  phase = "done" => FindViolations(boxes, tree, pt, acc, ts.calls, ts.res) = {}

FindOKModuloOnPlane ==
  phase = "done" => \/ FindViolations(boxes, tree, pt, acc, ts.calls, ts.res) = {}
                    \/ OnPlaneSkipped(boxes, tree, pt, acc, ts.calls, ts.res)

\* the head-line statement, independent of the call sequence
BruteForce ==
  phase = "done" => /\ ts.res # None <=> Cand(boxes, pt) \cap acc # {}
                    /\ ts.res # None => ts.res \in Cand(boxes, pt) \cap acc

\* ... which the strict edge tests only meet off the bounding planes
BruteForceOffPlanes ==
  (phase = "done" /\ ~OnSomePlane(tree, pt)) =>
      /\ ts.res # None <=> Cand(boxes, pt) \cap acc # {}
      /\ ts.res # None => ts.res \in Cand(boxes, pt) \cap acc

\* the as-coded call sequence operator describes the as-coded traverser exactly
CodedCallsExact ==
  (phase = "done" /\ Edge = "coded") => ts.calls = CodedCalls(boxes, tree, pt, acc)

BuilderBounded ==
  phase = "build" =>
     /\ Len(bs.nodes) + Len(bs.work) <= (IF TreeVols(boxes) = {} THEN 0
                                         ELSE 2 * Cardinality(TreeVols(boxes)) - 1)
     /\ \A x \in DOMAIN bs.work : bs.work[x].idx # <<>>
WalkBounded == phase = "walk" => steps <= 3 * Len(tree.nodes) + 1

-----------------------------------------------------------------------------
(* generation of the replay input: one header record with the points, then every configuration *)
PointSeq == SetToSortSeq(PointSet, LAMBDA p, q : \/ p[1] < q[1]
                                                  \/ (p[1] = q[1] /\ p[2] < q[2])
                                                  \/ (p[1] = q[1] /\ p[2] = q[2] /\ p[3] <= q[3]))
\* (constant-level definitions: TLC evaluates them once)
GenConfigSeq == SetToSeq(Configs)
GenRecords == <<[pts |-> PointSeq]>> \o [i \in DOMAIN GenConfigSeq |-> [boxes |-> GenConfigSeq[i]]]
GenInit ==
  /\ ndJsonSerialize(IOEnv.OUT, GenRecords)
  /\ PrintT(<<"GENERATED", Len(GenConfigSeq), Len(PointSeq)>>)
  /\ Init
GenSpec == GenInit /\ [][UNCHANGED vars]_vars
=============================================================================
