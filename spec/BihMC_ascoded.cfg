SPECIFICATION Spec
CONSTANTS
  Coords = {0, 2, 4}
  Dims = 1
  MaxBoxes = 3
  WithInf = TRUE
  WithNull = TRUE
  WithSemi = FALSE
  Edge = "coded"
  Planes = "bbox"
INVARIANT StructOK
INVARIANT BuilderBounded
INVARIANT WalkBounded
INVARIANT FindOKModuloOnPlane
INVARIANT BruteForceOffPlanes
INVARIANT CodedCallsExact
CHECK_DEADLOCK TRUE
