SPECIFICATION Spec
CONSTANTS
  Coords = {0, 2, 4}
  Dims = 1
  MaxBoxes = 3
  WithThin = TRUE
  WithInf = TRUE
  WithNull = TRUE
  WithSemi = FALSE
  Edge = "coded"
  Planes = "bbox"
INVARIANT StructOK
INVARIANT BuilderBounded
INVARIANT WalkBounded
INVARIANT FindOKModuloOnPlane
INVARIANT BruteForceOffPlanes
INVARIANT CodedCallsExact
CHECK_DEADLOCK TRUE
