SPECIFICATION Spec
CONSTANTS
  Coords = {0, 2, 4}
  Dims = 1
  MaxBoxes = 3
  WithThin = TRUE
  WithInf = TRUE
  WithNull = TRUE
  WithSemi = FALSE
  Edge = "coded"
  Planes = "bbox"
INVARIANT FindOK
CHECK_DEADLOCK TRUE
