SPECIFICATION Spec
CONSTANTS
  Coords = {0, 2, 4}
  Dims = 1
  MaxBoxes = 3
  WithInf = TRUE
  WithNull = TRUE
  WithSemi = FALSE
  Edge = "coded"
  Planes = "bbox"
INVARIANT FindOK
CHECK_DEADLOCK TRUE
