SPECIFICATION GenSpec
CONSTANTS
  Coords = {0, 2, 4}
  Dims = 1
  MaxBoxes = 3
  WithThin = TRUE
  WithInf = TRUE
  WithNull = TRUE
  WithSemi = TRUE
  Edge = "coded"
  Planes = "bbox"
CHECK_DEADLOCK FALSE
