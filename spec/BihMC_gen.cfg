SPECIFICATION GenSpec
CONSTANTS
  Coords = {0, 2, 4}
  Dims = 1
  MaxBoxes = 3
  WithInf = TRUE
  WithNull = TRUE
  WithSemi = TRUE
  Edge = "coded"
  Planes = "bbox"
CHECK_DEADLOCK FALSE
