SPECIFICATION Spec
CONSTANTS
  Coords = {0, 2, 4}
  Dims = 1
  MaxBoxes = 3
  WithThin = TRUE
  WithInf = TRUE
  WithNull = TRUE
  WithSemi = FALSE
  Edge = "inclusive"
  Planes = "centre"
INVARIANT StructOK
INVARIANT FindOK
INVARIANT BruteForce
CHECK_DEADLOCK TRUE
