SPECIFICATION Spec
CONSTANTS
  Coords = {0, 2, 4}
  Dims = 1
  MaxBoxes = 3
  WithThin = TRUE
  WithInf = TRUE
  WithNull = TRUE
  WithSemi = FALSE
  Edge = "leftonly"
  Planes = "bbox"
INVARIANT FindOKModuloOnPlane
CHECK_DEADLOCK TRUE
