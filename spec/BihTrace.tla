------------------------------ MODULE BihTrace ------------------------------
(* Trace validation for extension X03: every record logged by harness/vbih.cc (the REAL
   BIHBuilder / BIHPartitioner / BIHTraverser and SimpleUnitTracker::initialize) must be
   explained by spec/Bih.tla.  One record = one step:

     Config   start of a run (mode replay | rand | unit); runs may be concatenated
     Build    BIHBuilder::operator()(bboxes): the argument (in), the boxes as stored by the tree
              (must be the argument: BoxesStored), the tree as stored (inner nodes, leaves,
              inf_volids)                                   -> structural clauses
     Find     BIHTraverser::operator()(point, predicate) for one point of the last Build and a
              list of predicates "id in m": result r and the predicate's calls  -> lookup clauses
     Unit     a real ORANGE unit made of the boxes: SimpleUnitTracker::initialize at every point
     Close    end of the run (count of configurations)

   The spec follows the log and ACCUMULATES the names of violated clauses (first record, count);
   DRIFT clauses (documented tree shape, not needed by the contract) are reported separately and
   are not violations.  The named deviation OnPlaneSkipped (finding F-BIH-1) is a separate,
   exactly scoped explanation that is COUNTED, never hidden.  Records out of protocol order, an
   Abort record (crash of the code under test) or a missing Close reject the trace. *)
EXTENDS Bih, TLC, Json, IOUtils

TraceLog == ndJsonDeserialize(IOEnv.TRACE)
N == Len(TraceLog)

VARIABLES l,      \* next record
          pc,     \* "config" | "run" | "closed"
          B, T,   \* boxes and tree of the last Build
          sane,   \* the last Build is usable for the tree-dependent lookup clauses
          ord,    \* VisitOrder(T) of the last Build (when sane)
          cur,    \* index k of the last Build (-1 before the first)
          run,    \* configurations of the current run: [builds, units]
          viol,   \* set of [clause, k (first record), n (records)]
          drift,  \* same shape, informational
          dev,    \* same shape, named deviations
          stat
vars == <<l, pc, B, T, sane, ord, cur, run, viol, drift, dev, stat>>

Rec == TraceLog[l]

Bump(S, names) ==
  {d \in S : d.clause \notin names}
  \cup {[clause |-> c,
         n |-> (IF \E d \in S : d.clause = c THEN (CHOOSE d \in S : d.clause = c).n ELSE 0) + 1,
         k |-> (IF \E d \in S : d.clause = c THEN (CHOOSE d \in S : d.clause = c).k ELSE l)]
        : c \in names}

Init ==
  /\ l = 1 /\ pc = "config" /\ B = <<>> /\ T = [nodes |-> <<>>, inf |-> <<>>] /\ sane = FALSE /\ ord = <<>>
  /\ cur = -1 /\ run = [builds |-> 0, units |-> 0] /\ viol = {} /\ drift = {} /\ dev = {}
  /\ stat = [builds |-> 0, finds |-> 0, queries |-> 0, found |-> 0, calls |-> 0, onplane |-> 0,
             inner |-> 0, multileaf |-> 0, units |-> 0, inits |-> 0, initfound |-> 0,
             initnone |-> 0, initbg |-> 0, uniterr |-> 0, unitskip |-> 0]

TConfig ==
  /\ pc \in {"config", "closed"} /\ Rec.e = "Config"
  /\ pc' = "run"
  /\ run' = [builds |-> 0, units |-> 0] /\ cur' = -1 /\ sane' = FALSE
  /\ UNCHANGED <<B, T, ord, viol, drift, dev, stat>>

TreeOf(r) == [nodes |-> r.nodes, inf |-> r.inf]

\* the record itself must be usable: exact half-unit coordinates, valid tree object, one stored
\* box per volume, and the inner nodes are the first r.ninner nodes
RecordSane(r) ==
  /\ r.exact /\ r.valid
  /\ r.nboxes_stored = Len(r.boxes)
  /\ r.ninner = Cardinality({i \in DOMAIN r.nodes : r.nodes[i].k = "i"})

TBuild ==
  /\ pc = "run" /\ Rec.e = "Build"
  /\ Rec.k = run.builds
  /\ run' = [run EXCEPT !.builds = @ + 1]
  /\ LET t == TreeOf(Rec)
         V == Named(RecordSane(Rec), "Bih.TreeRecordSane")
              \cup Named(Rec.boxes = Rec.in, "Bih.BoxesStored")
              \cup StructViolations(Rec.in, t)
         D == IF V = {} THEN StructDrift(Rec.in, t) ELSE {} IN
     /\ viol' = Bump(viol, V)
     /\ drift' = Bump(drift, D)
     /\ sane' = (V = {})
     /\ ord' = IF V = {} THEN VisitOrder(t) ELSE <<>>
     /\ B' = Rec.in /\ T' = t /\ cur' = Rec.k
     /\ stat' = [stat EXCEPT !.builds = @ + 1,
                             !.inner = @ + Rec.ninner,
                             !.multileaf = @ + Cardinality({i \in DOMAIN Rec.nodes :
                                                 Rec.nodes[i].k = "l" /\ Len(Rec.nodes[i].vols) > 1})]
  /\ UNCHANGED <<pc, dev>>

\* violated clauses of one query; "OnPlaneSkipped" replaces them when the deviation explains them
QueryOutcome(p, cand, co, q) ==
  LET A == ToSet(q.m)
      V == FindViolationsC(B, cand, co, sane, A, q.calls, q.r) IN
  IF V = {} THEN [v |-> {}, d |-> {}]
  ELSE IF sane /\ OnPlaneSkippedC(T, co, p, A, q.calls, V) THEN [v |-> {}, d |-> {"OnPlaneSkipped"}]
  ELSE [v |-> V, d |-> {}]

TFind ==
  /\ pc = "run" /\ Rec.e = "Find"
  /\ Rec.k = cur
  /\ LET cand == Cand(B, Rec.p)
         co == IF sane THEN CandOrder(B, ord, Rec.p) ELSE <<>>
         out == [i \in DOMAIN Rec.q |-> QueryOutcome(Rec.p, cand, co, Rec.q[i])]
         V == UNION {out[i].v : i \in DOMAIN out}
         D == UNION {out[i].d : i \in DOMAIN out} IN
     /\ viol' = Bump(viol, V)
     /\ dev' = Bump(dev, D)
     /\ stat' = [stat EXCEPT
                   !.finds = @ + 1,
                   !.queries = @ + Len(Rec.q),
                   !.found = @ + Cardinality({i \in DOMAIN Rec.q : Rec.q[i].r # None}),
                   !.calls = @ + FoldLeft(LAMBDA a, i : a + Len(Rec.q[i].calls), 0,
                                          [i \in DOMAIN Rec.q |-> i]),
                   !.onplane = @ + Cardinality({i \in DOMAIN out : out[i].d # {}})]
  /\ UNCHANGED <<pc, B, T, sane, ord, cur, run, drift>>

(* ---- SimpleUnitTracker::initialize on a unit whose volume v is the open box B[v+1] bounded by
   axis-aligned planes, plus a background volume bg.  Strictly(b, p): inside and on no face.
     InitNeverWrong    the result is none, the background, or a volume strictly containing p;
                       the background only when no volume strictly contains p
     InitFindsInterior when p is strictly inside some volume and on no face of any volume whose
                       (closed) box contains p, a volume is found
     InitBackground    when no closed box contains p the result is the background
   (a point on a face of a candidate volume may legitimately fail to initialise)            ---- *)
Strictly(b, p) == \A a \in Axes : b.lo[a] < p[a] /\ p[a] < b.hi[a]
InitViolations(bx, bg, it) ==
  LET p == it.p
      strict == {v \in Vols(bx) : Strictly(Box(bx, v), p)}
      touch == {v \in Cand(bx, p) : ~Strictly(Box(bx, v), p)} IN
  Named(it.vol \in {None} \cup strict \cup (IF strict = {} THEN {bg} ELSE {}), "Bih.InitNeverWrong")
  \cup Named((strict # {} /\ touch = {}) => it.vol \in strict, "Bih.InitFindsInterior")
  \cup Named(Cand(bx, p) = {} => it.vol = bg, "Bih.InitBackground")
  \cup Named(~it.surf, "Bih.InitNotOnSurface")

TUnit ==
  /\ pc = "run" /\ Rec.e = "Unit"
  /\ Rec.k = run.units
  /\ run' = [run EXCEPT !.units = @ + 1]
  /\ IF "skip" \in DOMAIN Rec
     THEN /\ stat' = [stat EXCEPT !.units = @ + 1, !.unitskip = @ + 1]
          /\ UNCHANGED viol
     ELSE IF "error" \in DOMAIN Rec
     THEN /\ viol' = Bump(viol, {"Bih.UnitConstructs"})
          /\ stat' = [stat EXCEPT !.units = @ + 1, !.uniterr = @ + 1]
     ELSE LET V == UNION {InitViolations(Rec.boxes, Rec.bg, Rec.init[i]) : i \in DOMAIN Rec.init} IN
          /\ viol' = Bump(viol, V)
          /\ stat' = [stat EXCEPT
                        !.units = @ + 1, !.inits = @ + Len(Rec.init),
                        !.initnone = @ + Cardinality({i \in DOMAIN Rec.init : Rec.init[i].vol = None}),
                        !.initbg = @ + Cardinality({i \in DOMAIN Rec.init : Rec.init[i].vol = Rec.bg}),
                        !.initfound = @ + Cardinality({i \in DOMAIN Rec.init :
                                                         Rec.init[i].vol \notin {None, Rec.bg}})]
  /\ UNCHANGED <<pc, B, T, sane, ord, cur, drift, dev>>

TClose ==
  /\ pc = "run" /\ Rec.e = "Close"
  /\ Rec.n = run.builds + run.units
  /\ pc' = "closed"
  /\ UNCHANGED <<B, T, sane, ord, cur, run, viol, drift, dev, stat>>

Next ==
  /\ l <= N /\ l' = l + 1
  /\ \/ TConfig \/ TBuild \/ TFind \/ TUnit \/ TClose
Spec == Init /\ [][Next]_vars

Accepted ==
  LET d == TLCGet("stats").diameter IN
  IF d - 1 = N /\ TraceLog[N].e = "Close" THEN TRUE
  ELSE /\ PrintT(<<"REJECTED", d, TraceLog[IF d <= N THEN d ELSE N]>>)
       /\ FALSE
Report == (l = N + 1) =>
   PrintT(<<"SUMMARY", ToJson([viol |-> viol, drift |-> drift, dev |-> dev, stat |-> stat])>>)
=============================================================================
