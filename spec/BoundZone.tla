------------------------------ MODULE BoundZone ------------------------------
(* Extension X06: bounding boxes and bounding zones used while an ORANGE unit is constructed
   (src/geocel/BoundingBox.hh, src/orange/BoundingBoxUtils.hh, src/orange/surf/SurfaceClipper,
   src/orange/orangeinp/detail/{BoundingZone, NegatedSurfaceClipper, IntersectSurfaceState,
   VolumeBuilder, CsgUnitBuilder}; UnitProto hands get_exterior_bbox(zone) of every volume to the
   BIH as THE box inside which the volume is searched for).

   WORLD.  Space is a finite set U of lattice points (integer triples, in HALF lattice units:
   integer and half-integer faces are both lattice coordinates).  A REGION is any subset of U
   -- exactly, no approximation.  A BOX is [lo |-> <<x,y,z>>, hi |-> <<x,y,z>>] with faces on
   lattice coordinates or at -INF / +INF; its meaning is the set of lattice points p with
   lo <= p <= hi on every axis (faces included, as is_inside defines it).  A box with some
   lo > hi is NULL and means the empty set (the default box <<INF..>, <-INF..>> is the canonical
   null box; intersections produce other, "non-canonical" null boxes).

   A ZONE is [int |-> box, ext |-> box, neg |-> BOOLEAN].  It REPRESENTS a region R iff
        known-inside(zone) \subseteq R    and    R  disjoint from  known-outside(zone)
   where (BoundingZone.hh, class documentation)
        neg = FALSE :  known inside = int          known outside = U \ ext
        neg = TRUE  :  known inside = U \ ext      known outside = int
   i.e.  int \subseteq R' \subseteq ext  with R' = R (neg = FALSE) or R' = U \ R (neg = TRUE).

   CONTRACT (soundness; every clause is a NAME that the trace spec accumulates when violated):
     every operation on zones maps zones representing Ra, Rb to a zone representing the
     corresponding region:   negate -> U \ Ra,  calc_intersection -> Ra \cap Rb,
     calc_union -> Ra \cup Rb;  get_exterior_bbox(zone) contains every region the zone
     represents;  a surface clipper turns a zone representing R into one representing
     R \cap inside(surface).   Quantified over ALL regions this reduces (monotonicity, proved
     by TLC on a small lattice: SoundDefEquivalent in BoundZoneMC) to the table of
     BoundingZone.hh:
        A & B :  KI(r) \subseteq KI(A) \cap KI(B)      KO(r) \subseteq KO(A) \cup KO(B)
        A | B :  KI(r) \subseteq KI(A) \cup KI(B)      KO(r) \subseteq KO(A) \cap KO(B)
   plus what the documentation pins beyond soundness (flags, the boxes of the same-sign cases,
   "the larger of the two interiors", identities with the null / infinite box).

   The module has four parts: (1) boxes, reference semantics of the BoundingBoxUtils functions;
   (2) zones, Represents, the soundness clauses as sets of VIOLATED clause names; (3) the zone
   algebra AS CODED (calc_difference / calc_union(shrink|grow) / calc_intersection / calc_union
   transcribed case by case), parameterised by `alg` so that the repaired algebra and plausible
   wrong variants can be model-checked side by side; the three named deviations; (4) surfaces on
   the lattice and the clippers.  BoundZoneMC.tla turns (2)+(3) into a state machine with one
   action per public call. *)
EXTENDS Integers, Sequences, FiniteSets, SequencesExt

INF == 1000000      \* image of +infinity (faces, extents, volumes)
NAN == 2000000      \* image of a NaN (0 * inf, inf - inf)
Axes == 1..3

Named(ok, name) == IF ok THEN {} ELSE {name}

-----------------------------------------------------------------------------
(* ---- (1) boxes ---- *)
NullBox == [lo |-> <<INF, INF, INF>>, hi |-> <<-INF, -INF, -INF>>]
InfBox == [lo |-> <<-INF, -INF, -INF>>, hi |-> <<INF, INF, INF>>]

NonNull(b) == \A a \in Axes : b.lo[a] <= b.hi[a]           \* BoundingBox::operator bool
In(b, p) == \A a \in Axes : b.lo[a] <= p[a] /\ p[a] <= b.hi[a]   \* is_inside
Pts(b, U) == {p \in U : In(b, p)}                           \* the meaning of a box

IsInfinite(b) == \A a \in Axes : b.lo[a] = -INF /\ b.hi[a] = INF
\* the next four have the precondition NonNull(b) in the code
IsFinite(b) == \A a \in Axes : b.lo[a] # -INF /\ b.lo[a] # INF /\ b.hi[a] # -INF /\ b.hi[a] # INF
IsDegenerate(b) == \E a \in Axes : b.lo[a] = b.hi[a]
\* twice the centre / twice the half width, IEEE semantics at the infinities
Centre2(b, a) == IF b.lo[a] = -INF /\ b.hi[a] = INF THEN NAN
                 ELSE IF b.lo[a] = -INF THEN -INF
                 ELSE IF b.hi[a] = INF THEN INF ELSE b.lo[a] + b.hi[a]
Extent(b, a) == IF b.lo[a] = -INF \/ b.hi[a] = INF THEN INF ELSE b.hi[a] - b.lo[a]

\* products and sums of non-negative extended numbers
XMul(x, y) == IF x = NAN \/ y = NAN THEN NAN
              ELSE IF x = INF \/ y = INF THEN (IF x = 0 \/ y = 0 THEN NAN ELSE INF)
              ELSE x * y
XAdd(x, y) == IF x = NAN \/ y = NAN THEN NAN ELSE IF x = INF \/ y = INF THEN INF ELSE x + y
Volume(b) == XMul(XMul(Extent(b, 1), Extent(b, 2)), Extent(b, 3))
\* half the surface area (xy + xz + yz)
HalfArea(b) == XAdd(XAdd(XMul(Extent(b, 1), Extent(b, 2)), XMul(Extent(b, 1), Extent(b, 3))),
                    XMul(Extent(b, 2), Extent(b, 3)))
\* IEEE '>' : false when either side is a NaN
XGreater(x, y) == x # NAN /\ y # NAN /\ x > y

Min2(x, y) == IF y < x THEN y ELSE x
Max2(x, y) == IF x < y THEN y ELSE x
\* calc_union(BBox, BBox): component-wise hull
BoxUnion(a, b) == [lo |-> [x \in Axes |-> Min2(a.lo[x], b.lo[x])],
                   hi |-> [x \in Axes |-> Max2(a.hi[x], b.hi[x])]]
\* calc_intersection(BBox, BBox)
BoxIntersect(a, b) == [lo |-> [x \in Axes |-> Max2(a.lo[x], b.lo[x])],
                       hi |-> [x \in Axes |-> Min2(a.hi[x], b.hi[x])]]
\* encloses(big, small) as the inclusion of two non-empty closed boxes
Encloses(big, small) == \A x \in Axes : big.lo[x] <= small.lo[x] /\ big.hi[x] >= small.hi[x]

\* BoundingBox::shrink / grow (bnd = "lo" | "hi", axis 1..3)
Shrunk(b, bnd, ax, pos) ==
  IF bnd = "lo" THEN [b EXCEPT !.lo[ax] = Max2(@, pos)] ELSE [b EXCEPT !.hi[ax] = Min2(@, pos)]
Grown(b, bnd, ax, pos) ==
  IF bnd = "lo" THEN [b EXCEPT !.lo[ax] = Min2(@, pos)] ELSE [b EXCEPT !.hi[ax] = Max2(@, pos)]

(* clauses of one unary box record rr (fields as logged by the harness, see BoundZoneTrace) *)
BoxFactViolations(b, rr, U) ==
  Named(rr.bool = NonNull(b), "X06.BoolIsNonNull")
  \cup Named(rr.pts = Pts(b, U), "X06.InsideIsClosedBox")
  \cup Named(rr.inf = IsInfinite(b), "X06.InfiniteFlag")
  \cup (IF NonNull(b) /\ rr.bool
        THEN Named(rr.fin = IsFinite(b), "X06.FiniteFlag")
             \cup Named(rr.deg = IsDegenerate(b), "X06.DegenerateFlag")
             \cup Named(/\ rr.c2 = [a \in Axes |-> Centre2(b, a)]
                        /\ rr.w2 = [a \in Axes |-> Extent(b, a)], "X06.CentreHalfWidth")
             \cup Named(rr.vol = Volume(b), "X06.Volume")
             \cup Named(rr.harea = HalfArea(b), "X06.SurfaceArea")
        ELSE {})

(* clauses of the binary box functions; r = result box (or boolean) of the real function *)
BoxIntersectViolations(a, b, r, U) ==
  Named(Pts(r, U) = Pts(a, U) \cap Pts(b, U), "X06.IntersectionExact")
  \cup Named(NonNull(r) <=> (NonNull(a) /\ NonNull(b) /\ \A x \in Axes : Max2(a.lo[x], b.lo[x]) <= Min2(a.hi[x], b.hi[x])),
             "X06.IntersectionNullIffDisjoint")
  \cup Named(r = BoxIntersect(a, b), "X06.IntersectionFaces")
BoxUnionViolations(a, b, r, U) ==
  Named(Pts(a, U) \cup Pts(b, U) \subseteq Pts(r, U), "X06.UnionEncloses")
  \cup Named(/\ (NonNull(a) /\ NonNull(b)) => r = BoxUnion(a, b)
             /\ a = NullBox => r = b
             /\ b = NullBox => r = a, "X06.UnionIsHull")
\* informational (DRIFT): a non-canonical null operand makes the "hull" larger than the other box
BoxUnionDrift(a, b, r) ==
  Named(/\ (~NonNull(a) /\ NonNull(b)) => r = b
        /\ (~NonNull(b) /\ NonNull(a)) => r = a, "X06.UnionWithNullIsIdentity")
EnclosesViolations(big, small, res) ==
  Named((NonNull(big) /\ NonNull(small)) => (res = Encloses(big, small)), "X06.EnclosesIsInclusion")
  \cup Named((small = NullBox /\ NonNull(big)) => res, "X06.EveryBoxEnclosesNull")
  \cup Named((~NonNull(big) /\ NonNull(small)) => ~res, "X06.NullEnclosesNothing")
EnclosesDrift(big, small, res) ==
  Named((~NonNull(small) /\ NonNull(big)) => res, "X06.EveryBoxEnclosesAnyNull")

-----------------------------------------------------------------------------
(* ---- (2) zones ---- *)
Zone(i, x, n) == [int |-> i, ext |-> x, neg |-> n]
DefaultZone == Zone(NullBox, NullBox, FALSE)          \* BoundingZone{}: the empty set
InfiniteZone == Zone(InfBox, InfBox, FALSE)           \* BoundingZone::from_infinite(): everything

KnownIn(z, U) == IF z.neg THEN U \ Pts(z.ext, U) ELSE Pts(z.int, U)
KnownOut(z, U) == IF z.neg THEN Pts(z.int, U) ELSE U \ Pts(z.ext, U)
Represents(z, R, U) == KnownIn(z, U) \subseteq R /\ R \cap KnownOut(z, U) = {}
\* some region is represented <=> the interior lies in the exterior
Consistent(z, U) == Pts(z.int, U) \subseteq Pts(z.ext, U)
\* the extreme regions a consistent zone represents
LoRegion(z, U) == KnownIn(z, U)
HiRegion(z, U) == U \ KnownOut(z, U)

Negated(z) == [z EXCEPT !.neg = ~@]                    \* BoundingZone::negate
ExteriorBBox(z) == IF z.neg THEN InfBox ELSE z.ext     \* get_exterior_bbox

(* soundness by definition: quantified over every pair of represented regions *)
SoundByDefinition(op, za, zb, zr, U) ==
  \A Ra \in {S \in SUBSET U : Represents(za, S, U)}, Rb \in {S \in SUBSET U : Represents(zb, S, U)} :
        Represents(zr, IF op = "and" THEN Ra \cap Rb ELSE Ra \cup Rb, U)

(* a zone together with the point sets of its boxes (computed once per zone) *)
\* (TLC re-evaluates a LET definition on every use; a variable bound over a singleton is a value)
One(S) == CHOOSE x \in S : TRUE
View(z, U) == One({[z |-> z, pi |-> pi, px |-> px,
                    ki |-> IF z.neg THEN U \ px ELSE pi,
                    ko |-> IF z.neg THEN pi ELSE U \ px] : pi \in {Pts(z.int, U)}, px \in {Pts(z.ext, U)}})

(* soundness, reduced: the table of BoundingZone.hh; as sets of violated clause names *)
SoundnessViolationsV(op, a, b, r) ==
  IF op = "and"
  THEN Named(r.ki \subseteq a.ki \cap b.ki, "X06.IntersectInteriorSound")
       \cup Named(r.ko \subseteq a.ko \cup b.ko, "X06.IntersectExteriorSound")
  ELSE Named(r.ki \subseteq a.ki \cup b.ki, "X06.UnionInteriorSound")
       \cup Named(r.ko \subseteq a.ko \cap b.ko, "X06.UnionExteriorSound")
SoundnessViolations(op, za, zb, zr, U) == SoundnessViolationsV(op, View(za, U), View(zb, U), View(zr, U))

(* what the documentation pins beyond soundness *)
DocumentedViolationsV(op, a, b, r) ==
  LET za == a.z
      zb == b.z
      zr == r.z IN
  \* flag: tables of calc_intersection / calc_union
  Named(zr.neg = (IF op = "and" THEN za.neg /\ zb.neg ELSE za.neg \/ zb.neg), "X06.ResultFlag")
  \* "the exterior box always encloses (or is identical to) interior"
  \cup Named(r.pi \subseteq r.px, "X06.ResultConsistent")
  \* same-sign cases: A & B = (Ai & Bi, Ax & Bx);  ~A | ~B = ~(A & B) likewise
  \cup (IF (op = "and" /\ ~za.neg /\ ~zb.neg) \/ (op = "or" /\ za.neg /\ zb.neg)
        THEN Named(r.pi = a.pi \cap b.pi /\ r.px = a.px \cap b.px, "X06.IntersectionOfBoxes")
        ELSE {})
  \* A | B = ~(~A & ~B): exterior = hull, interior = one of the two, the larger
  \cup (IF (op = "or" /\ ~za.neg /\ ~zb.neg) \/ (op = "and" /\ za.neg /\ zb.neg)
        THEN Named(/\ a.px \cup b.px \subseteq r.px
                   /\ (NonNull(za.ext) /\ NonNull(zb.ext)) => zr.ext = BoxUnion(za.ext, zb.ext),
                   "X06.HullOfExteriors")
             \cup Named(r.pi \in {a.pi, b.pi}, "X06.InteriorIsOneOperand")
             \cup Named((NonNull(za.int) /\ NonNull(zb.int) /\ IsFinite(za.int) /\ IsFinite(zb.int))
                           => (NonNull(zr.int) /\ Volume(zr.int) = Max2(Volume(za.int), Volume(zb.int))),
                        "X06.KeepsLargerInterior")
        ELSE {})
  \* intersection with the complement of nothing: A - nothing = A
  \cup (IF op = "and" /\ za.neg # zb.neg
        THEN LET m == IF zb.neg THEN za ELSE zb       \* the minuend
                 s == IF zb.neg THEN zb ELSE za IN
             IF ~NonNull(s.ext) /\ ~NonNull(s.int)
             THEN Named(zr.int = m.int /\ zr.ext = m.ext, "X06.DifferenceWithNothing")
             ELSE {}
        ELSE {})

ZoneOpViolationsV(op, a, b, r) == SoundnessViolationsV(op, a, b, r) \cup DocumentedViolationsV(op, a, b, r)
ZoneOpViolations(op, za, zb, zr, U) == ZoneOpViolationsV(op, View(za, U), View(zb, U), View(zr, U))

NegateViolations(z, r, U) ==
  Named(KnownIn(r, U) = KnownOut(z, U) /\ KnownOut(r, U) = KnownIn(z, U), "X06.NegateSwapsRoles")
  \cup Named(r.int = z.int /\ r.ext = z.ext, "X06.NegateKeepsBoxes")
ExteriorBBoxViolations(z, r, U) ==
  Named(HiRegion(z, U) \subseteq Pts(r, U), "X06.BBoxCoversZone")
  \cup Named(~z.neg => r = z.ext, "X06.BBoxIsExterior")

-----------------------------------------------------------------------------
(* ---- (3) the algebra as coded (BoundingZone.cc), parameterised ----
   alg = "coded"     the source as it is
         "fixed"     both repairs below
         "fixdiff"   calc_difference(a, b, shrink) returns the null box when a encloses b
         "fixswap"   calc_union's mixed cases subtract the un-negated operand FROM the negated one
                     (as the function's own table says)
         "mut_*"     plausible wrong variants (vacuity guards of the design check)            *)
FixDiff(alg) == alg \in {"fixed", "fixdiff"}
FixSwap(alg) == alg \in {"fixed", "fixswap"}

\* anonymous-namespace calc_difference(a, b, op): op = "shrink" | "grow"
CodedDifference(a, b, op, alg) ==
  IF ~NonNull(b) THEN a
  ELSE IF Encloses(a, b)
       THEN (IF op = "shrink"
             THEN (IF FixDiff(alg) THEN NullBox ELSE b)
             ELSE (IF alg = "mut_growhole" THEN b ELSE a))
  ELSE IF Encloses(b, a) /\ alg # "mut_nocover" THEN NullBox
  ELSE IF op = "shrink" THEN (IF alg = "mut_shrinkkeeps" THEN a ELSE NullBox) ELSE InfBox

\* anonymous-namespace calc_union(a, b, op)
CodedUnionBox(a, b, op, alg) ==
  IF op = "grow" THEN BoxUnion(a, b)
  ELSE IF alg = "mut_hullinterior" THEN BoxUnion(a, b)
  ELSE IF ~NonNull(a) THEN b
  ELSE IF ~NonNull(b) THEN a
  ELSE IF alg = "mut_smaller"
       THEN (IF XGreater(Volume(b), Volume(a)) THEN a ELSE b)
       ELSE (IF XGreater(Volume(a), Volume(b)) THEN a ELSE b)

\* calc_intersection(BoundingZone, BoundingZone)
CodedIntersection(a, b, alg) ==
  IF ~a.neg /\ ~b.neg
  THEN Zone(BoxIntersect(a.int, b.int), BoxIntersect(a.ext, b.ext), FALSE)
  ELSE IF ~a.neg /\ b.neg
  THEN Zone(CodedDifference(a.int, b.ext, "shrink", alg), CodedDifference(a.ext, b.int, "grow", alg), FALSE)
  ELSE IF a.neg /\ ~b.neg
  THEN Zone(CodedDifference(b.int, a.ext, "shrink", alg), CodedDifference(b.ext, a.int, "grow", alg), FALSE)
  ELSE Zone(CodedUnionBox(a.int, b.int, "shrink", alg), CodedUnionBox(a.ext, b.ext, "grow", alg),
            alg # "mut_andflag")

\* calc_union(BoundingZone, BoundingZone)
CodedUnion(a, b, alg) ==
  IF ~a.neg /\ ~b.neg
  THEN Zone(CodedUnionBox(a.int, b.int, "shrink", alg), CodedUnionBox(a.ext, b.ext, "grow", alg), FALSE)
  ELSE IF ~a.neg /\ b.neg
  THEN (IF FixSwap(alg)
        THEN Zone(CodedDifference(b.int, a.ext, "shrink", alg), CodedDifference(b.ext, a.int, "grow", alg), TRUE)
        ELSE Zone(CodedDifference(a.int, b.ext, "shrink", alg), CodedDifference(a.ext, b.int, "grow", alg), TRUE))
  ELSE IF a.neg /\ ~b.neg
  THEN (IF FixSwap(alg)
        THEN Zone(CodedDifference(a.int, b.ext, "shrink", alg), CodedDifference(a.ext, b.int, "grow", alg), TRUE)
        ELSE Zone(CodedDifference(b.int, a.ext, "shrink", alg), CodedDifference(b.ext, a.int, "grow", alg), TRUE))
  ELSE Zone(BoxIntersect(a.int, b.int), BoxIntersect(a.ext, b.ext), alg # "mut_orflag")

CodedOp(op, a, b, alg) == IF op = "and" THEN CodedIntersection(a, b, alg) ELSE CodedUnion(a, b, alg)

(* ---- the named deviations of the zone algebra (findings F-BZ-1, F-BZ-2): exactly scoped ----
   V = the violated clauses of the call (op, a, b) -> r.

   DifferenceShrinkKeepsHole: an intersection of an un-negated minuend M with a negated
     subtrahend S whose (non-null) exterior box lies inside M's interior box: the "known inside"
     of M - S is reported as S's exterior box -- the hole itself -- instead of a box inside
     M.int minus S.ext; the result is exactly what the source computes and nothing but the
     interior (and with it the int-in-ext consistency) is wrong.

   UnionMixedRolesSwapped: a union with exactly one negated operand; the source subtracts the
     NEGATED operand's boxes from the un-negated one's (the rows of its own table are swapped);
     the result is exactly what the source computes.                                        *)
DifferenceShrinkKeepsHole(op, a, b, r, V) ==
  /\ op = "and" /\ a.neg # b.neg
  /\ LET m == IF b.neg THEN a ELSE b
         s == IF b.neg THEN b ELSE a IN
     /\ NonNull(s.ext) /\ Encloses(m.int, s.ext) /\ r.int = s.ext
  /\ r = CodedIntersection(a, b, "coded")
  /\ V # {} /\ V \subseteq {"X06.IntersectInteriorSound", "X06.ResultConsistent"}

UnionMixedRolesSwapped(op, a, b, r, V) ==
  /\ op = "or" /\ a.neg # b.neg
  /\ r = CodedUnion(a, b, "coded")
  /\ V # {} /\ V \subseteq {"X06.UnionInteriorSound", "X06.UnionExteriorSound", "X06.ResultConsistent"}

ZoneOpDeviation(op, a, b, r, V) ==
  IF DifferenceShrinkKeepsHole(op, a, b, r, V) THEN {"DifferenceShrinkKeepsHole"}
  ELSE IF UnionMixedRolesSwapped(op, a, b, r, V) THEN {"UnionMixedRolesSwapped"}
  ELSE {}

-----------------------------------------------------------------------------
(* ---- (4) surfaces on the lattice and the clippers ----
   A surface is a record; inside(surface) is its NEGATIVE side, boundary included:
     [t |-> "p", ax, pos]            PlaneAligned: p[ax] <= pos
     [t |-> "s", c |-> <<..>>, r]    Sphere: |p - c|^2 <= r^2
     [t |-> "c", ax, c, r]           CylAligned along ax: distance^2 from the axis <= r^2
     [t |-> "o"]                     anything else (general plane, cone, quadric): unknown shape
   c and pos are lattice coordinates, r a lattice length.                                   *)
Sq(x) == x * x
SurfInside(s, p) ==
  IF s.t = "p" THEN p[s.ax] <= s.pos
  ELSE IF s.t = "s" THEN Sq(p[1] - s.c[1]) + Sq(p[2] - s.c[2]) + Sq(p[3] - s.c[3]) <= Sq(s.r)
  ELSE IF s.t = "c" THEN FoldLeft(LAMBDA acc, a : acc + (IF a = s.ax THEN 0 ELSE Sq(p[a] - s.c[a])), 0,
                                  <<1, 2, 3>>) <= Sq(s.r)
  ELSE TRUE
SurfRegion(s, U) == {p \in U : SurfInside(s, p)}
\* the POSITIVE side, boundary included for a plane (the two closed half spaces share the plane:
\* "the behavior of boundaries shouldn't matter"); unknown for an unknown surface
SurfOutRegion(s, U) == IF s.t = "p" THEN {p \in U : p[s.ax] >= s.pos}
                       ELSE IF s.t = "o" THEN U ELSE U \ SurfRegion(s, U)
\* the axis-aligned bounding box of the inside, as a set of lattice points
SurfBoxPts(s, U) ==
  IF s.t = "p" THEN {p \in U : p[s.ax] <= s.pos}
  ELSE IF s.t = "s" THEN {p \in U : \A a \in Axes : Sq(p[a] - s.c[a]) <= Sq(s.r)}
  ELSE IF s.t = "c" THEN {p \in U : \A a \in Axes \ {s.ax} : Sq(p[a] - s.c[a]) <= Sq(s.r)}
  ELSE U
\* the inscribed box (half width r / sqrt(3) resp. r / sqrt(2): integer tests, never a tie)
SurfInscribedPts(s, U, k) ==     \* k * d^2 <= r^2 on every bounded axis
  IF s.t = "s" THEN {p \in U : \A a \in Axes : k * Sq(p[a] - s.c[a]) <= Sq(s.r)}
  ELSE IF s.t = "c" THEN {p \in U : \A a \in Axes \ {s.ax} : k * Sq(p[a] - s.c[a]) <= Sq(s.r)}
  ELSE {}
\* what SurfaceClipper.cc computes for a sphere: half width (sqrt(3)/2) r, i.e. 4 d^2 <= 3 r^2
SphereCodedPts(s, U) == {p \in U : \A a \in Axes : 4 * Sq(p[a] - s.c[a]) <= 3 * Sq(s.r)}

(* SurfaceClipper{&int, &ext}(surface): Ii, Xi the point sets of the boxes before, Io, Xo after *)
ClipViolations(s, Ii, Xi, Io, Xo, U) ==
  Named(Io \subseteq Ii /\ Xo \subseteq Xi, "X06.ClipOnlyShrinks")
  \cup Named(Io \subseteq SurfRegion(s, U), "X06.ClipInteriorInside")
  \cup Named(Xi \cap SurfRegion(s, U) \subseteq Xo, "X06.ClipExteriorEncloses")
  \cup Named(Xo = Xi \cap SurfBoxPts(s, U), "X06.ClipExteriorIsSurfaceBox")
  \cup (IF s.t = "p" THEN Named(Io = Ii \cap SurfBoxPts(s, U), "X06.ClipPlaneExact")
        ELSE IF s.t = "o" THEN Named(Io = {}, "X06.ClipUnknownResetsInterior")
        ELSE {})
\* informational: the interior is the inscribed box (sphere 3 d^2 <= r^2, cylinder 2 d^2 <= r^2)
ClipDrift(s, Ii, Io, U) ==
  IF s.t = "s" THEN Named(Io = Ii \cap SurfInscribedPts(s, U, 3), "X06.ClipInteriorInscribed")
  ELSE IF s.t = "c" THEN Named(Io = Ii \cap SurfInscribedPts(s, U, 2), "X06.ClipInteriorInscribed")
  ELSE {}
(* named deviation (finding F-BZ-3): a sphere, the interior after clipping is exactly the box of
   half width (sqrt(3)/2) r that the source computes (sqrt_third = sqrt_three / 2), some lattice
   point of it lies outside the sphere, and nothing else is wrong *)
SphereInteriorNotInscribed(s, Ii, Io, V, U) ==
  /\ s.t = "s"
  /\ Io = Ii \cap SphereCodedPts(s, U)
  /\ V = {"X06.ClipInteriorInside"}

(* NegatedSurfaceClipper{&zone}(surface): the region lies on the POSITIVE side (p[ax] >= pos) *)
NegClipViolations(s, Ii, Xi, Io, Xo, U) ==
  LET out == SurfOutRegion(s, U) IN
  Named(Io \subseteq Ii /\ Xo \subseteq Xi, "X06.ClipOnlyShrinks")
  \cup Named(Io \subseteq out, "X06.NegClipInteriorInside")
  \cup Named(Xi \cap out \subseteq Xo, "X06.NegClipExteriorEncloses")
  \cup (IF s.t = "p" THEN Named(Io = Ii \cap out /\ Xo = Xi \cap out, "X06.NegClipPlaneExact")
        ELSE Named(Io = {} /\ Xo = Xi, "X06.ClipUnknownResetsInterior"))
=============================================================================
