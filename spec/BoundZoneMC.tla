----------------------------- MODULE BoundZoneMC -----------------------------
(* Design check for spec/BoundZone.tla (extension X06) -- no code involved -- and generator of the
   replay inputs for harness/vboundzone.cc.

   The module is a state machine with ONE ACTION PER PUBLIC CALL of the subject, over the lattice
   Coords^Dims (the other axes carry the fixed interval Pad), run in one of four modes:

   Mode = "chain"  VolumeBuilder's folds: Start (BoundingZone::from_infinite() or BoundingZone{}),
                   then up to MaxDepth of Intersect(operand) / Union(operand) / Negate, then
                   Finish = get_exterior_bbox.  An operand is a LEAF (a zone together with the
                   exact region it stands for, both extreme regions of every interior/exterior
                   pair) or a negated leaf.  The exact region R is carried along by set algebra.
                   Invariants: RegionEnclosed (the zone represents R), BBoxCoversRegion (the box
                   handed to the BIH contains R), StepsSound (every call meets every clause of
                   BoundZone.tla or is one of the named deviations), NoDeviation.
   Mode = "pair"   PickPair: EVERY pair of consistent zones over EVERY box of the lattice (null,
                   non-canonical null, semi-infinite, infinite, degenerate) through both
                   operations; invariants PairSound / PairSoundModuloDeviations / NoDeviation.
   Mode = "def"    as "pair" on a lattice small enough to quantify over ALL regions: the reduced
                   soundness clauses are equivalent to soundness by definition (SoundDefEquivalent).
   Mode = "clip"   Clip(sense, surface) from the infinite zone: SurfaceClipper /
                   NegatedSurfaceClipper for planes, spheres, cylinders, "other" surfaces with the
                   boxes kept as point sets; invariant ClipRegionEnclosed (+ modulo deviation).

   Alg selects the algebra (BoundZone.tla part 3).  Configurations:
     BoundZoneMC            chain, Alg = "fixed": every invariant holds
     BoundZoneMC_pair       pair,  Alg = "fixed"
     BoundZoneMC_def        def,   Alg = "coded" (sound and unsound results both occur)
     BoundZoneMC_clip       clip,  Alg = "fixed"
     BoundZoneMC_ascoded    chain, Alg = "coded": holds MODULO the named deviations ...
     BoundZoneMC_pair_ascoded, BoundZoneMC_clip_ascoded   likewise
     BoundZoneMC_f1         ... and RegionEnclosed itself is REFUTED for the source as it is
     BoundZoneMC_f2         ... and so is BBoxCoversRegion: a volume whose points lie outside its box
     BoundZoneMC_f3         clip, "coded": ClipRegionEnclosed refuted (sphere interior)
     BoundZoneMC_fixdiff / _fixswap   each repair alone still leaves RegionEnclosed refuted
     BoundZoneMC_mut_*      vacuity guards: plausible wrong variants, StepsSound MUST be refuted
     BoundZoneMC_gen        writes the replay inputs (GenSpec) to IOEnv.OUT                       *)
EXTENDS BoundZone, TLC, Json, IOUtils, FiniteSetsExt

CONSTANTS Coords,     \* lattice coordinates of finite faces (half units)
          Dims,       \* number of varying axes (1..3)
          PadLo, PadHi, \* interval of the other axes (a lattice point sits at PadPoint)
          Mode, Alg, MaxDepth,
          LeafKind,   \* "solid": interior = exterior, no zero thickness;  "boxes": interior = exterior;
                      \* "blobs": every interior (or none) inside the exterior
          ZoneNulls,  \* pair modes: non-canonical null boxes may be parts of a zone
          WithSemi,   \* leaves / clip starts may be semi-infinite
          Radii,      \* clip mode: radii of spheres and cylinders
          Margin,     \* lattice points reach Margin beyond the extreme coordinates
          ProbeOdd    \* TRUE: lattice points only at odd coordinates (faces at even ones: no point on a face)

VARIABLES phase,      \* "init" | "chain" | "done" | "pair" | "clip"
          z, R,       \* chain: current zone and the exact region it must represent
          depth,
          bbox,       \* chain, done: get_exterior_bbox
          pa, pb,     \* pair: the operands
          ci, cx,     \* clip: point sets of the interior / exterior box
          taint,      \* a named deviation happened on the way
          bad         \* a clause was violated that no named deviation explains
vars == <<phase, z, R, depth, bbox, pa, pb, ci, cx, taint, bad>>

MinOf(S) == CHOOSE x \in S : \A y \in S : x <= y
MaxOf(S) == CHOOSE x \in S : \A y \in S : x >= y

-----------------------------------------------------------------------------
(* the lattice *)
Pad == <<PadLo, PadHi>>
PadPoint == IF Pad[1] = -INF THEN 0 ELSE Pad[1] + 1
PointCoords == {c \in (MinOf(Coords) - Margin)..(MaxOf(Coords) + Margin) : ~ProbeOdd \/ c % 2 = 1}
U == {[a \in Axes |-> IF a <= Dims THEN f[a] ELSE PadPoint] : f \in [1..Dims -> PointCoords]}

\* every interval with a lower face in Coords or -INF and an upper face in Coords or +INF,
\* the empty ones (lo > hi) included
AllIntervals == (Coords \cup {-INF}) \X (Coords \cup {INF})
BoxOf(f) == [lo |-> [a \in Axes |-> IF a <= Dims THEN f[a][1] ELSE Pad[1]],
             hi |-> [a \in Axes |-> IF a <= Dims THEN f[a][2] ELSE Pad[2]]]
AllBoxes == {BoxOf(f) : f \in [1..Dims -> AllIntervals]} \cup {NullBox}
ZoneBoxes == IF ZoneNulls THEN AllBoxes ELSE {b \in AllBoxes : NonNull(b) \/ b = NullBox}
AllZones == {zz \in [int : ZoneBoxes, ext : ZoneBoxes, neg : BOOLEAN] : Consistent(zz, U)}

(* leaves: solids as the shapes' builders describe them *)
LeafIntervals == {iv \in AllIntervals : iv[1] <= iv[2] /\ (WithSemi \/ (iv[1] # -INF /\ iv[2] # INF))}
LeafBoxes == {b \in {BoxOf(f) : f \in [1..Dims -> LeafIntervals]} : LeafKind = "solid" => ~IsDegenerate(b)}
Leaves ==
  {[z |-> Zone(i, x, FALSE), reg |-> Pts(r, U)] :
      <<i, x, r>> \in {t \in (LeafBoxes \cup {NullBox}) \X LeafBoxes \X (LeafBoxes \cup {NullBox}) :
                         /\ t[3] \in {t[1], t[2]}
                         /\ IF LeafKind \in {"boxes", "solid"} THEN t[1] = t[2]
                            ELSE t[1] = NullBox \/ Encloses(t[2], t[1])}}
Moves == [leaf : Leaves, neg : BOOLEAN]
OperandZone(m) == IF m.neg THEN Negated(m.leaf.z) ELSE m.leaf.z
OperandRegion(m) == IF m.neg THEN U \ m.leaf.reg ELSE m.leaf.reg

(* surfaces of the clip mode *)
Centres == {[a \in Axes |-> IF a <= Dims THEN f[a] ELSE PadPoint] : f \in [1..Dims -> Coords]}
Surfaces ==
  {[t |-> "p", ax |-> a, pos |-> q] : a \in 1..Dims, q \in Coords}
  \cup {[t |-> "s", c |-> c, r |-> r] : c \in Centres, r \in Radii}
  \cup {[t |-> "c", ax |-> 3, c |-> c, r |-> r] : c \in Centres, r \in Radii}
  \cup {[t |-> "o"]}

-----------------------------------------------------------------------------
NoBox == NullBox
Init ==
  /\ phase = "init" /\ z = DefaultZone /\ R = {} /\ depth = 0 /\ bbox = NoBox
  /\ pa = DefaultZone /\ pb = DefaultZone /\ ci = {} /\ cx = {} /\ taint = FALSE /\ bad = FALSE

\* BoundingZone::from_infinite() -- the start of VolumeBuilder's op_and fold
StartInfinite ==
  /\ Mode = "chain" /\ phase = "init"
  /\ phase' = "chain" /\ z' = InfiniteZone /\ R' = U
  /\ UNCHANGED <<depth, bbox, pa, pb, ci, cx, taint, bad>>

\* BoundingZone{} -- the start of the op_or fold
StartNull ==
  /\ Mode = "chain" /\ phase = "init"
  /\ phase' = "chain" /\ z' = DefaultZone /\ R' = {}
  /\ UNCHANGED <<depth, bbox, pa, pb, ci, cx, taint, bad>>

\* one call of calc_intersection / calc_union(accumulated zone, operand)
Apply(op, m) ==
  \* (bound over singletons: evaluated once)
  \E o \in {OperandZone(m)} : \E r \in {CodedOp(op, z, o, Alg)} :
  \E V \in {ZoneOpViolations(op, z, o, r, U)} : \E D \in {ZoneOpDeviation(op, z, o, r, V)} :
  /\ z' = r
  /\ R' = (IF op = "and" THEN R \cap OperandRegion(m) ELSE R \cup OperandRegion(m))
  /\ taint' = (taint \/ D # {})
  /\ bad' = (bad \/ (V # {} /\ D = {}))

\* calc_intersection(zone, bounds(d)) in VolumeBuilder::insert_region(Joined{op_and})
Intersect ==
  /\ Mode = "chain" /\ phase = "chain" /\ depth < MaxDepth
  /\ \E m \in Moves : Apply("and", m)
  /\ depth' = depth + 1
  /\ UNCHANGED <<phase, bbox, pa, pb, ci, cx>>

\* calc_union(zone, bounds(d)) in VolumeBuilder::insert_region(Joined{op_or})
Union ==
  /\ Mode = "chain" /\ phase = "chain" /\ depth < MaxDepth
  /\ \E m \in Moves : Apply("or", m)
  /\ depth' = depth + 1
  /\ UNCHANGED <<phase, bbox, pa, pb, ci, cx>>

\* BoundingZone::negate (VolumeBuilder::insert_region(Negated))
Negate ==
  /\ Mode = "chain" /\ phase = "chain" /\ depth < MaxDepth
  /\ z' = Negated(z) /\ R' = U \ R
  /\ bad' = (bad \/ NegateViolations(z, Negated(z), U) # {})
  /\ depth' = depth + 1
  /\ UNCHANGED <<phase, bbox, pa, pb, ci, cx, taint>>

\* get_exterior_bbox: what UnitProto stores as the volume's bbox
Finish ==
  /\ Mode = "chain" /\ phase = "chain"
  /\ bbox' = ExteriorBBox(z)
  /\ bad' = (bad \/ ExteriorBBoxViolations(z, ExteriorBBox(z), U) # {})
  /\ phase' = "done"
  /\ UNCHANGED <<z, R, depth, pa, pb, ci, cx, taint>>

\* both operations on one pair of zones
PickPair ==
  /\ Mode \in {"pair", "def"} /\ phase = "init"
  /\ \E a \in AllZones, b \in AllZones :
       \E out \in {[op \in {"and", "or"} |->
                     One({One({[v |-> V, d |-> ZoneOpDeviation(op, a, b, r, V)]
                               : V \in {ZoneOpViolations(op, a, b, r, U)}})
                          : r \in {CodedOp(op, a, b, Alg)}})]} :
       /\ pa' = a /\ pb' = b
       /\ taint' = \E op \in {"and", "or"} : out[op].d # {}
       /\ bad' = \E op \in {"and", "or"} : out[op].v # {} /\ out[op].d = {}
  /\ phase' = "pair"
  /\ UNCHANGED <<z, R, depth, bbox, ci, cx>>

\* clip mode: IntersectSurfaceState starts from the infinite zone
StartClip ==
  /\ Mode = "clip" /\ phase = "init"
  /\ phase' = "clip" /\ ci' = U /\ cx' = U /\ R' = U
  /\ UNCHANGED <<z, depth, bbox, pa, pb, taint, bad>>

ClippedInterior(s, I) ==
  IF s.t = "p" THEN I \cap SurfBoxPts(s, U)
  ELSE IF s.t = "s" THEN (IF Alg = "coded" THEN I \cap SphereCodedPts(s, U) ELSE I \cap SurfInscribedPts(s, U, 3))
  ELSE IF s.t = "c" THEN I \cap SurfInscribedPts(s, U, 2)
  ELSE {}

\* SurfaceClipper{&interior, &exterior}(surface): the region is inside the surface
ClipInside ==
  /\ Mode = "clip" /\ phase = "clip" /\ depth < MaxDepth
  /\ \E s \in Surfaces :
       \E io \in {ClippedInterior(s, ci)}, xo \in {cx \cap SurfBoxPts(s, U)} :
       \E V \in {ClipViolations(s, ci, cx, io, xo, U)} :
       \E dv \in {SphereInteriorNotInscribed(s, ci, io, V, U)} :
       /\ ci' = io /\ cx' = xo /\ R' = R \cap SurfRegion(s, U)
       /\ taint' = (taint \/ (V # {} /\ dv))
       /\ bad' = (bad \/ (V # {} /\ ~dv))
  /\ depth' = depth + 1
  /\ UNCHANGED <<phase, z, bbox, pa, pb>>

\* NegatedSurfaceClipper{&zone}(surface): the region is outside the surface
ClipOutside ==
  /\ Mode = "clip" /\ phase = "clip" /\ depth < MaxDepth
  /\ \E s \in Surfaces :
       \E out \in {SurfOutRegion(s, U)} :
       \E io \in {IF s.t = "p" THEN ci \cap out ELSE {}}, xo \in {IF s.t = "p" THEN cx \cap out ELSE cx} :
       /\ ci' = io /\ cx' = xo /\ R' = R \cap out
       /\ bad' = (bad \/ NegClipViolations(s, ci, cx, io, xo, U) # {})
  /\ depth' = depth + 1
  /\ UNCHANGED <<phase, z, bbox, pa, pb, taint>>

Terminated == phase \in {"done", "pair"} /\ UNCHANGED vars

Next == StartInfinite \/ StartNull \/ Intersect \/ Union \/ Negate \/ Finish \/ PickPair
        \/ StartClip \/ ClipInside \/ ClipOutside \/ Terminated
Spec == Init /\ [][Next]_vars

-----------------------------------------------------------------------------
(* invariants *)
InChain == phase \in {"chain", "done"}
RegionEnclosed == InChain => Represents(z, R, U)
RegionEnclosedModuloDeviations == (InChain /\ ~Represents(z, R, U)) => taint
ZoneConsistent == (InChain /\ ~taint) => Consistent(z, U)
BBoxCoversRegion == phase = "done" => R \subseteq Pts(bbox, U)
BBoxCoversRegionModuloDeviations == (phase = "done" /\ ~(R \subseteq Pts(bbox, U))) => taint
StepsSound == ~bad
NoDeviation == ~taint

PairSound == phase = "pair" => \A op \in {"and", "or"} :
                 SoundnessViolations(op, pa, pb, CodedOp(op, pa, pb, Alg), U) = {}
SoundDefEquivalent ==
  phase = "pair" => \A op \in {"and", "or"} :
     LET r == CodedOp(op, pa, pb, Alg) IN
     SoundByDefinition(op, pa, pb, r, U) <=> (SoundnessViolations(op, pa, pb, r, U) = {})

ClipRegionEnclosed == phase = "clip" => (ci \subseteq R /\ R \subseteq cx)
ClipRegionEnclosedModuloDeviations == (phase = "clip" /\ ~(ci \subseteq R /\ R \subseteq cx)) => taint

-----------------------------------------------------------------------------
(* generation of the replay inputs (ndjson): points, every box, every consistent zone; or the
   leaves and EVERY chain of exactly MaxDepth moves; or every clip scenario *)
PointLE(p, q) == \/ p[1] < q[1]
                 \/ (p[1] = q[1] /\ p[2] < q[2])
                 \/ (p[1] = q[1] /\ p[2] = q[2] /\ p[3] <= q[3])
PointSeq == SetToSortSeq(U, PointLE)
RegIdx(S) == SetToSortSeq({i \in DOMAIN PointSeq : PointSeq[i] \in S}, LAMBDA i, j : i <= j)

GenBoxSeq == SetToSeq(AllBoxes)
GenZoneSeq == SetToSeq(AllZones)
GenLeafSeq == SetToSeq(Leaves)
LeafIndex(lf) == CHOOSE i \in DOMAIN GenLeafSeq : GenLeafSeq[i] = lf
GenMoves == [op : {"and", "or", "not"}, leaf : DOMAIN GenLeafSeq, neg : BOOLEAN]
\* "not" ignores its operand: keep one representative
GenMoveSet == {m \in GenMoves : m.op = "not" => (m.leaf = 1 /\ ~m.neg)}
GenChainSeq == SetToSeq([start : {"inf", "null"}, moves : [1..MaxDepth -> GenMoveSet]])
GenClipMoves == [sense : {"in", "out"}, s : Surfaces]
GenClipSeq == SetToSeq(UNION {[1..n -> GenClipMoves] : n \in 1..MaxDepth})

(* unit mode: object trees over box solids, built for real through UnitProto / InputBuilder *)
\* (one record shape for every node: TLC cannot compare records with different fields)
UnitLeaves == {[k |-> "box", lo |-> b.lo, hi |-> b.hi, c |-> <<>>] : b \in {bb \in LeafBoxes : ~IsDegenerate(bb)}}
TNot(t) == [k |-> "not", lo |-> <<>>, hi |-> <<>>, c |-> <<t>>]
TJoin(op, t1, t2) == [k |-> op, lo |-> <<>>, hi |-> <<>>, c |-> <<t1, t2>>]
Ops == {"and", "or"}
\* literals: a solid or its complement
Lits == UnitLeaves \cup {TNot(t) : t \in UnitLeaves}
\* every join of two literals, every join of a literal with such a join (either order), and the
\* same with the inner join negated: the shapes in which an unsound intermediate zone can reach
\* the exterior box of the volume (MaxDepth >= 2; MaxDepth = 1 keeps the two-literal joins)
Joins1 == {TJoin(op, a, b) : op \in Ops, a \in Lits, b \in Lits}
Inner == Joins1 \cup {TNot(t) : t \in Joins1}
UnitTrees ==
  Lits \cup Inner
  \cup (IF MaxDepth >= 2
        THEN {TJoin(op, a, t) : op \in Ops, a \in Lits, t \in Inner}
             \cup {TJoin(op, t, a) : op \in Ops, a \in Lits, t \in Inner}
        ELSE {})
GenUnitSeq == SetToSeq(UnitTrees)
UnitBoundary ==
  [k |-> "box", c |-> <<>>,
   lo |-> [a \in Axes |-> IF a <= Dims THEN MinOf(Coords) - 2 ELSE PadLo - 2],
   hi |-> [a \in Axes |-> IF a <= Dims THEN MaxOf(Coords) + 2 ELSE PadHi + 2]]

GenRecords ==
  IF Mode = "gen_units"
  THEN <<[kind |-> "units", pts |-> PointSeq, boundary |-> UnitBoundary]>>
       \o [i \in DOMAIN GenUnitSeq |-> [vols |-> <<GenUnitSeq[i]>>]]
  ELSE IF Mode = "gen_pairs"
  THEN <<[kind |-> "pairs", pts |-> PointSeq, boxes |-> GenBoxSeq, zones |-> GenZoneSeq, dims |-> Dims,
          mutpos |-> SetToSortSeq(PointCoords, LAMBDA i, j : i <= j)]>>
  ELSE IF Mode = "gen_chains"
  THEN <<[kind |-> "chains", pts |-> PointSeq,
          leaves |-> [i \in DOMAIN GenLeafSeq |-> [z |-> GenLeafSeq[i].z, reg |-> RegIdx(GenLeafSeq[i].reg)]]]>>
       \o [i \in DOMAIN GenChainSeq |-> GenChainSeq[i]]
  ELSE <<[kind |-> "clips", pts |-> PointSeq]>>
       \o [i \in DOMAIN GenClipSeq |-> [clips |-> GenClipSeq[i]]]
GenCount == IF Mode = "gen_units" THEN Len(GenUnitSeq)
            ELSE IF Mode = "gen_pairs" THEN Len(GenZoneSeq)
            ELSE IF Mode = "gen_chains" THEN Len(GenChainSeq) ELSE Len(GenClipSeq)
GenInit ==
  /\ ndJsonSerialize(IOEnv.OUT, GenRecords)
  /\ PrintT(<<"GENERATED", GenCount, Len(PointSeq)>>)
  /\ Init
GenSpec == GenInit /\ [][UNCHANGED vars]_vars
=============================================================================
