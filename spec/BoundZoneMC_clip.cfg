SPECIFICATION Spec
CONSTANTS
  Coords = {0, 2}
  Dims = 2
  PadLo = 0
  PadHi = 2
  Mode = "clip"
  Alg = "fixed"
  MaxDepth = 2
  LeafKind = "blobs"
  WithSemi = FALSE
  ZoneNulls = TRUE
  Radii = {4}
  Margin = 5
  ProbeOdd = FALSE
INVARIANT ClipRegionEnclosed
INVARIANT StepsSound
INVARIANT NoDeviation
CHECK_DEADLOCK FALSE
