SPECIFICATION Spec
CONSTANTS
  Coords = {0, 2}
  Dims = 2
  PadLo = 0
  PadHi = 2
  Mode = "clip"
  Alg = "coded"
  MaxDepth = 2
  LeafKind = "blobs"
  WithSemi = FALSE
  ZoneNulls = TRUE
  Radii = {4}
  Margin = 5
  ProbeOdd = FALSE
INVARIANT ClipRegionEnclosed
CHECK_DEADLOCK FALSE
