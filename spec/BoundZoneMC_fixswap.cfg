SPECIFICATION Spec
CONSTANTS
  Coords = {0, 1, 2}
  Dims = 1
  PadLo = 0
  PadHi = 2
  Mode = "chain"
  Alg = "fixswap"
  MaxDepth = 3
  LeafKind = "blobs"
  WithSemi = FALSE
  ZoneNulls = TRUE
  Radii = {2}
  Margin = 1
  ProbeOdd = FALSE
INVARIANT RegionEnclosed
CHECK_DEADLOCK FALSE
