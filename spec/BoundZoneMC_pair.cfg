SPECIFICATION Spec
CONSTANTS
  Coords = {0, 1}
  Dims = 1
  PadLo = 0
  PadHi = 2
  Mode = "pair"
  Alg = "fixed"
  MaxDepth = 3
  LeafKind = "blobs"
  WithSemi = FALSE
  ZoneNulls = TRUE
  Radii = {2}
  Margin = 1
  ProbeOdd = FALSE
INVARIANT PairSound
INVARIANT StepsSound
INVARIANT NoDeviation
CHECK_DEADLOCK FALSE
