--------------------------- MODULE BoundZoneTrace ---------------------------
(* Trace validation for extension X06: every record logged by harness/vboundzone.cc (the REAL
   BoundingBox / BoundingBoxUtils / BoundingZone / SurfaceClipper / NegatedSurfaceClipper code and,
   in unit mode, the real construction path UnitProto -> InputBuilder -> OrangeParams) must be
   explained by spec/BoundZone.tla.  One record = one step:

     Config   start of a run: mode (pairs | chains | clips | rand | unit), the lattice points and the
              boxes / zones / leaves TLC generated (echoed by the harness: glue check by tools/checks/x06.py)
     Box      one box: bool, is_inside at every lattice point, is_infinite / is_finite /
              is_degenerate, centre, half widths, volume, surface area, BoundingBoxBumper<double|float>
     BoxRow   box k against EVERY box: calc_union, calc_intersection, encloses, ==
     Mut      box k: shrink / grow at every lattice coordinate
     Special  BoundingZone::from_infinite(), BoundingZone{}, BBox{}, BBox::from_infinite()
     Zone     zone k: negate (twice), get_exterior_bbox
     ZoneRow  zone k against EVERY zone: calc_intersection, calc_union
     Pair     one seeded pair of zones on a 3-D lattice: both operations
     Chain    one fold of VolumeBuilder: start, moves, the zone after every call, get_exterior_bbox
     Clip     one sequence of SurfaceClipper / NegatedSurfaceClipper calls from the infinite zone
     Unit     one real unit with a single material volume given as an object tree: the bbox stored for
              the volume, real point location at every lattice point
     Close    end of the run (count of records)

   The spec follows the log and ACCUMULATES the names of violated clauses (first record, number of
   records); DRIFT clauses (the result differs from the transcription of the source although every
   contract clause holds; documented niceties with non-canonical null boxes) are reported apart and
   are not violations.  The named deviations (findings F-BZ-1 DifferenceShrinkKeepsHole, F-BZ-2
   UnionMixedRolesSwapped, F-BZ-3 SphereInteriorNotInscribed, and their consequence at unit level
   VolumeBBoxFromUnsoundZone) are separate, exactly scoped explanations that are COUNTED, never hidden.
   Records out of protocol order, an Abort record (crash of the code under test) or a missing Close
   reject the trace. *)
EXTENDS BoundZone, TLC, Json, IOUtils, FiniteSetsExt

TraceLog == ndJsonDeserialize(IOEnv.TRACE)
N == Len(TraceLog)

VARIABLES l,       \* next record
          pc,      \* "config" | "run" | "closed"
          mode,
          P,       \* lattice points (sequence) and
          UU,      \* ... as a set
          BX, ZN,  \* boxes / zones of a pairs run
          ZV,      \* View of every zone
          LV,      \* leaves of a chains run: [z, reg]
          bnd,     \* boundary box of a unit run
          nxt,     \* expected k of the next record per kind
          cnt,     \* records of the run
          viol, drift, dev, stat
vars == <<l, pc, mode, P, UU, BX, ZN, ZV, LV, bnd, nxt, cnt, viol, drift, dev, stat>>

Rec == TraceLog[l]

Bump(S, names) ==
  {d \in S : d.clause \notin names}
  \cup {[clause |-> c,
         n |-> (IF \E d \in S : d.clause = c THEN (CHOOSE d \in S : d.clause = c).n ELSE 0) + 1,
         k |-> (IF \E d \in S : d.clause = c THEN (CHOOSE d \in S : d.clause = c).k ELSE l)]
        : c \in names}

Stat0 == [boxes |-> 0, boxpairs |-> 0, muts |-> 0, zones |-> 0, zonepairs |-> 0, zonecalls |-> 0,
          chains |-> 0, chaincalls |-> 0, chaintainted |-> 0, chainbroken |-> 0, chainbboxmiss |-> 0,
          clips |-> 0, clipcalls |-> 0, pairs |-> 0, units |-> 0, unitskip |-> 0, unitmiss |-> 0,
          unitlost |-> 0, locs |-> 0, devhole |-> 0, devswap |-> 0, devsphere |-> 0, devunit |-> 0]
Nxt0 == [box |-> 1, row |-> 1, mut |-> 1, zone |-> 1, zrow |-> 1, other |-> 1]

Init ==
  /\ l = 1 /\ pc = "config" /\ mode = "" /\ P = <<>> /\ UU = {} /\ BX = <<>> /\ ZN = <<>> /\ ZV = <<>> /\ LV = <<>>
  /\ bnd = NullBox /\ nxt = Nxt0 /\ cnt = 0 /\ viol = {} /\ drift = {} /\ dev = {} /\ stat = Stat0

PtSet(idx) == {P[i] : i \in ToSet(idx)}
Exact(r) == Named(r.exact, "X06.LatticeExact")

TConfig ==
  /\ pc \in {"config", "closed"} /\ Rec.e = "Config"
  /\ pc' = "run" /\ mode' = Rec.mode
  /\ P' = Rec.pts /\ UU' = ToSet(Rec.pts)
  /\ BX' = (IF Rec.mode = "pairs" THEN Rec.boxes ELSE <<>>)
  /\ ZN' = (IF Rec.mode = "pairs" THEN Rec.zones ELSE <<>>)
  /\ ZV' = (IF Rec.mode = "pairs" THEN [j \in DOMAIN Rec.zones |-> View(Rec.zones[j], ToSet(Rec.pts))] ELSE <<>>)
  /\ LV' = (IF Rec.mode = "chains" THEN Rec.leaves ELSE <<>>)
  /\ bnd' = (IF Rec.mode = "unit" THEN [lo |-> Rec.boundary.lo, hi |-> Rec.boundary.hi] ELSE NullBox)
  /\ nxt' = [Nxt0 EXCEPT !.zrow = Rec.first + 1]
  /\ cnt' = 0
  /\ UNCHANGED <<viol, drift, dev, stat>>

-----------------------------------------------------------------------------
(* BoundingBoxBumper: every finite face moves strictly outwards, infinite faces stay, no lattice
   point is gained (the tolerance is far below the lattice step), a null box stays null *)
BumpViolations(b, br, isdouble) ==
  IF NonNull(b)
  THEN Named(\A a \in Axes : /\ br.lo_cmp[a] = (IF b.lo[a] = -INF THEN 0 ELSE -1)
                             /\ br.hi_cmp[a] = (IF b.hi[a] = INF THEN 0 ELSE 1), "X06.BumpMovesFacesOutwards")
       \cup Named(br.bool /\ PtSet(br.pts) = Pts(b, UU), "X06.BumpKeepsLatticePoints")
       \cup (IF isdouble THEN Named(br.enc, "X06.BumpedEnclosesOriginal") ELSE {})
  ELSE Named(~br.bool /\ br.pts = <<>>, "X06.BumpKeepsNull")

TBox ==
  /\ pc = "run" /\ mode = "pairs" /\ Rec.e = "Box" /\ Rec.k = nxt.box
  /\ LET b == BX[Rec.k]
         rr == [Rec EXCEPT !.pts = PtSet(Rec.pts)]
         V == BoxFactViolations(b, rr, UU)
              \cup Named(Rec.eqnull = (b = NullBox) /\ Rec.eqinf = (b = InfBox), "X06.EqualityIsFaceEquality")
              \cup BumpViolations(b, Rec.bumpd, TRUE) \cup BumpViolations(b, Rec.bumpf, FALSE)
              \cup Exact(Rec) IN
     \E VV \in {V} : viol' = Bump(viol, VV)
  /\ nxt' = [nxt EXCEPT !.box = @ + 1]
  /\ stat' = [stat EXCEPT !.boxes = @ + 1]
  /\ cnt' = cnt + 1
  /\ UNCHANGED <<pc, mode, P, UU, BX, ZN, ZV, LV, bnd, drift, dev>>

TBoxRow ==
  /\ pc = "run" /\ mode = "pairs" /\ Rec.e = "BoxRow" /\ Rec.k = nxt.row
  /\ Len(Rec.un) = Len(BX) /\ Len(Rec.is) = Len(BX) /\ Len(Rec.enc) = Len(BX) /\ Len(Rec.eq) = Len(BX)
  /\ LET a == BX[Rec.k]
         out == [j \in DOMAIN BX |->
                   LET b == BX[j] IN
                   [v |-> BoxUnionViolations(a, b, Rec.un[j], UU)
                          \cup BoxIntersectViolations(a, b, Rec.is[j], UU)
                          \cup (IF Rec.enc[j] = 2
                                THEN Named(~NonNull(a) /\ ~NonNull(b), "X06.EnclosesAsked")
                                ELSE EnclosesViolations(a, b, Rec.enc[j] = 1))
                          \cup Named(Rec.eq[j] = (a = b), "X06.EqualityIsFaceEquality"),
                    d |-> BoxUnionDrift(a, b, Rec.un[j])
                          \cup (IF Rec.enc[j] = 2 THEN {} ELSE EnclosesDrift(a, b, Rec.enc[j] = 1))]] IN
     \E o \in {out} :
     /\ viol' = Bump(viol, UNION {o[j].v : j \in DOMAIN o} \cup Exact(Rec))
     /\ drift' = Bump(drift, UNION {o[j].d : j \in DOMAIN o})
  /\ nxt' = [nxt EXCEPT !.row = @ + 1]
  /\ stat' = [stat EXCEPT !.boxpairs = @ + Len(BX)]
  /\ cnt' = cnt + 1
  /\ UNCHANGED <<pc, mode, P, UU, BX, ZN, ZV, LV, bnd, dev>>

MutViolations(b, o) ==
  LET h == IF o.bnd = "lo" THEN {p \in UU : p[o.ax] >= o.pos} ELSE {p \in UU : p[o.ax] <= o.pos} IN
  IF o.f = "shrink"
  THEN Named(o.r = Shrunk(b, o.bnd, o.ax, o.pos), "X06.ShrinkClipsOneFace")
       \cup Named(Pts(o.r, UU) = Pts(b, UU) \cap h, "X06.ShrinkIsHalfSpaceCut")
  ELSE IF o.f = "grow"
  THEN Named(o.r = Grown(b, o.bnd, o.ax, o.pos), "X06.GrowMovesOneFace")
       \cup Named(Pts(b, UU) \subseteq Pts(o.r, UU), "X06.GrowOnlyGrows")
  ELSE Named(o.r = Grown(Grown(b, "lo", o.ax, o.pos), "hi", o.ax, o.pos), "X06.GrowMovesOneFace")
       \cup Named(Pts(b, UU) \subseteq Pts(o.r, UU), "X06.GrowOnlyGrows")

TMut ==
  /\ pc = "run" /\ mode = "pairs" /\ Rec.e = "Mut" /\ Rec.k = nxt.mut
  /\ viol' = Bump(viol, UNION {MutViolations(BX[Rec.k], Rec.ops[i]) : i \in DOMAIN Rec.ops} \cup Exact(Rec))
  /\ nxt' = [nxt EXCEPT !.mut = @ + 1]
  /\ stat' = [stat EXCEPT !.muts = @ + Len(Rec.ops)]
  /\ cnt' = cnt + 1
  /\ UNCHANGED <<pc, mode, P, UU, BX, ZN, ZV, LV, bnd, drift, dev>>

TSpecial ==
  /\ pc = "run" /\ mode = "pairs" /\ Rec.e = "Special"
  /\ viol' = Bump(viol,
        Named(Rec.from_infinite = InfiniteZone /\ Represents(Rec.from_infinite, UU, UU), "X06.FromInfiniteIsEverything")
        \cup Named(Rec.default = DefaultZone /\ Represents(Rec.default, {}, UU), "X06.DefaultZoneIsNothing")
        \cup Named(Rec.nullbox = NullBox /\ Rec.infbox = InfBox, "X06.NullAndInfiniteBoxes"))
  /\ cnt' = cnt + 1
  /\ UNCHANGED <<pc, mode, P, UU, BX, ZN, ZV, LV, bnd, nxt, drift, dev, stat>>

TZone ==
  /\ pc = "run" /\ mode = "pairs" /\ Rec.e = "Zone" /\ Rec.k = nxt.zone
  /\ LET zz == ZN[Rec.k] IN
     viol' = Bump(viol, NegateViolations(zz, Rec.neg, UU)
                        \cup Named(Rec.negneg = zz, "X06.NegateIsInvolution")
                        \cup ExteriorBBoxViolations(zz, Rec.bbox, UU) \cup Exact(Rec))
  /\ nxt' = [nxt EXCEPT !.zone = @ + 1]
  /\ stat' = [stat EXCEPT !.zones = @ + 1]
  /\ cnt' = cnt + 1
  /\ UNCHANGED <<pc, mode, P, UU, BX, ZN, ZV, LV, bnd, drift, dev>>

\* one call of calc_intersection / calc_union: violated clauses, named deviation, drift
CallOutcomeV(op, va, vb, r) ==
  One({One({[v |-> IF D = {} THEN V ELSE {},
             d |-> D,
             f |-> IF V = {} /\ r # CodedOp(op, va.z, vb.z, "coded") THEN {"X06.AsTranscribed"} ELSE {}]
            : D \in {IF V = {} THEN {} ELSE ZoneOpDeviation(op, va.z, vb.z, r, V)}})
       : V \in {ZoneOpViolationsV(op, va, vb, View(r, UU))}})
CallOutcome(op, a, b, r) == CallOutcomeV(op, View(a, UU), View(b, UU), r)

CountDev(outs, name) == Cardinality({i \in DOMAIN outs : name \in outs[i].d})

TZoneRow ==
  /\ pc = "run" /\ mode = "pairs" /\ Rec.e = "ZoneRow" /\ Rec.k = nxt.zrow
  /\ Len(Rec.and) = Len(ZN) /\ Len(Rec.or) = Len(ZN)
  /\ \E oa \in {[j \in DOMAIN ZN |-> CallOutcomeV("and", ZV[Rec.k], ZV[j], Rec.and[j])]} :
     \E oo \in {[j \in DOMAIN ZN |-> CallOutcomeV("or", ZV[Rec.k], ZV[j], Rec.or[j])]} :
     /\ viol' = Bump(viol, UNION {oa[j].v \cup oo[j].v : j \in DOMAIN ZN} \cup Exact(Rec))
     /\ dev' = Bump(dev, UNION {oa[j].d \cup oo[j].d : j \in DOMAIN ZN})
     /\ drift' = Bump(drift, UNION {oa[j].f \cup oo[j].f : j \in DOMAIN ZN})
     /\ stat' = [stat EXCEPT !.zonepairs = @ + Len(ZN), !.zonecalls = @ + 2 * Len(ZN),
                             !.devhole = @ + CountDev(oa, "DifferenceShrinkKeepsHole"),
                             !.devswap = @ + CountDev(oo, "UnionMixedRolesSwapped")]
  /\ nxt' = [nxt EXCEPT !.zrow = @ + 1]
  /\ cnt' = cnt + 1
  /\ UNCHANGED <<pc, mode, P, UU, BX, ZN, ZV, LV, bnd>>

TPair ==
  /\ pc = "run" /\ mode = "rand" /\ Rec.e = "Pair" /\ Rec.k = nxt.other
  /\ \E ok \in {Consistent(Rec.a, UU) /\ Consistent(Rec.b, UU)} :
     \E oa \in {CallOutcome("and", Rec.a, Rec.b, Rec.and)} :
     \E oo \in {CallOutcome("or", Rec.a, Rec.b, Rec.or)} :
     /\ viol' = Bump(viol, (IF ok THEN oa.v \cup oo.v ELSE {"X06.PairInputConsistent"}) \cup Exact(Rec))
     /\ dev' = Bump(dev, IF ok THEN oa.d \cup oo.d ELSE {})
     /\ drift' = Bump(drift, IF ok THEN oa.f \cup oo.f ELSE {})
     /\ stat' = [stat EXCEPT !.pairs = @ + 1, !.zonecalls = @ + 2,
                             !.devhole = @ + (IF ok /\ oa.d # {} THEN 1 ELSE 0),
                             !.devswap = @ + (IF ok /\ oo.d # {} THEN 1 ELSE 0)]
  /\ nxt' = [nxt EXCEPT !.other = @ + 1]
  /\ cnt' = cnt + 1
  /\ UNCHANGED <<pc, mode, P, UU, BX, ZN, ZV, LV, bnd>>

-----------------------------------------------------------------------------
(* Chain: the fold.  acc = [R (exact region), taint (a named deviation so far), v, d, f (names),
   broken (the zone stopped representing R), calls] *)
ChainStep(acc, i) ==
  LET m == Rec.moves[i]
      prev == Rec.zs[i]
      cur == Rec.zs[i + 1] IN
  IF m.op = "not"
  THEN LET V == NegateViolations(prev, cur, UU)
           R2 == UU \ acc.R IN
       [acc EXCEPT !.R = R2, !.v = @ \cup V,
                   !.broken = @ \/ ~Represents(cur, R2, UU)]
  ELSE LET lf == LV[m.leaf]
           o == IF m.neg THEN Negated(lf.z) ELSE lf.z
           Ro == IF m.neg THEN UU \ PtSet(lf.reg) ELSE PtSet(lf.reg) IN
       One({[R |-> R2, taint |-> acc.taint \/ out.d # {}, v |-> acc.v \cup out.v, d |-> acc.d \cup out.d,
        f |-> acc.f \cup out.f, broken |-> acc.broken \/ ~Represents(cur, R2, UU), calls |-> acc.calls + 1]
            : out \in {CallOutcome(m.op, prev, o, cur)},
              R2 \in {IF m.op = "and" THEN acc.R \cap Ro ELSE acc.R \cup Ro}})

TChain ==
  /\ pc = "run" /\ mode = "chains" /\ Rec.e = "Chain" /\ Rec.k = nxt.other
  /\ Len(Rec.zs) = Len(Rec.moves) + 1
  /\ LET z0 == IF Rec.start = "inf" THEN InfiniteZone ELSE DefaultZone
         R0 == IF Rec.start = "inf" THEN UU ELSE {}
         acc0 == [R |-> R0, taint |-> FALSE,
                  v |-> Named(Rec.zs[1] = z0, "X06.FoldStartsFromDocumentedZone"), d |-> {}, f |-> {},
                  broken |-> FALSE, calls |-> 0]
         zl == Rec.zs[Len(Rec.zs)] IN
     \* (a bound variable over a singleton is evaluated once; a LET definition on every use)
     \E acc \in {FoldLeft(ChainStep, acc0, [i \in DOMAIN Rec.moves |-> i])} :
     \E miss \in {~(acc.R \subseteq Pts(Rec.bbox, UU))} :
     /\ viol' = Bump(viol, acc.v \cup ExteriorBBoxViolations(zl, Rec.bbox, UU) \cup Exact(Rec)
              \* the head-line statements; unexplained only when no named deviation precedes
              \cup Named(acc.taint \/ ~acc.broken, "X06.RegionEnclosed")
              \cup Named(acc.taint \/ ~miss, "X06.BBoxCoversRegion"))
     /\ dev' = Bump(dev, acc.d)
     /\ drift' = Bump(drift, acc.f)
     /\ stat' = [stat EXCEPT !.chains = @ + 1, !.chaincalls = @ + acc.calls,
                             !.chaintainted = @ + (IF acc.taint THEN 1 ELSE 0),
                             !.chainbroken = @ + (IF acc.broken THEN 1 ELSE 0),
                             !.chainbboxmiss = @ + (IF miss THEN 1 ELSE 0),
                             !.devhole = @ + (IF "DifferenceShrinkKeepsHole" \in acc.d THEN 1 ELSE 0),
                             !.devswap = @ + (IF "UnionMixedRolesSwapped" \in acc.d THEN 1 ELSE 0)]
  /\ nxt' = [nxt EXCEPT !.other = @ + 1]
  /\ cnt' = cnt + 1
  /\ UNCHANGED <<pc, mode, P, UU, BX, ZN, ZV, LV, bnd>>

-----------------------------------------------------------------------------
(* Clip: acc = [I, X (point sets of the boxes), R, taint, v, d, f] *)
ClipStep2(acc, m, st, Io, Xo) ==
  IF m.sense = "in"
  THEN One({One({[I |-> Io, X |-> Xo, R |-> R2, taint |-> acc.taint \/ isdev,
                  v |-> acc.v \cup (IF isdev THEN {} ELSE V),
                  d |-> acc.d \cup (IF isdev THEN {"SphereInteriorNotInscribed"} ELSE {}),
                  f |-> acc.f \cup (IF V = {} THEN ClipDrift(m.s, acc.I, Io, UU) ELSE {}),
                  broken |-> acc.broken \/ ~(Io \subseteq R2 /\ R2 \subseteq Xo)]
                 : isdev \in {V # {} /\ SphereInteriorNotInscribed(m.s, acc.I, Io, V, UU)}})
            : V \in {ClipViolations(m.s, acc.I, acc.X, Io, Xo, UU) \cup Named(~st.neg, "X06.ClipKeepsFlag")},
              R2 \in {acc.R \cap SurfRegion(m.s, UU)}})
  ELSE One({[acc EXCEPT !.I = Io, !.X = Xo, !.R = R2, !.v = @ \cup V,
                        !.broken = @ \/ ~(Io \subseteq R2 /\ R2 \subseteq Xo)]
            : V \in {NegClipViolations(m.s, acc.I, acc.X, Io, Xo, UU) \cup Named(~st.neg, "X06.ClipKeepsFlag")},
              R2 \in {acc.R \cap SurfOutRegion(m.s, UU)}})

ClipStep(acc, i) ==
  One({ClipStep2(acc, Rec.clips[i], Rec.steps[i], a, b) : a \in {PtSet(Rec.steps[i].i)}, b \in {PtSet(Rec.steps[i].x)}})

TClip ==
  /\ pc = "run" /\ mode = "clips" /\ Rec.e = "Clip" /\ Rec.k = nxt.other
  /\ Len(Rec.steps) = Len(Rec.clips)
  /\ LET acc0 == [I |-> UU, X |-> UU, R |-> UU, taint |-> FALSE, v |-> {}, d |-> {}, f |-> {}, broken |-> FALSE]
     IN
     \E acc \in {FoldLeft(ClipStep, acc0, [i \in DOMAIN Rec.clips |-> i])} :
     /\ viol' = Bump(viol, acc.v \cup Named(acc.taint \/ ~acc.broken, "X06.ClipRegionEnclosed"))
     /\ dev' = Bump(dev, acc.d)
     /\ drift' = Bump(drift, acc.f)
     /\ stat' = [stat EXCEPT !.clips = @ + 1, !.clipcalls = @ + Len(Rec.clips),
                             !.devsphere = @ + (IF acc.d # {} THEN 1 ELSE 0)]
  /\ nxt' = [nxt EXCEPT !.other = @ + 1]
  /\ cnt' = cnt + 1
  /\ UNCHANGED <<pc, mode, P, UU, BX, ZN, ZV, LV, bnd>>

-----------------------------------------------------------------------------
(* Unit: one material volume v0 given as an object tree
     [k |-> "box", lo, hi] | [k |-> "not", c |-> <<t>>] | [k |-> "and" | "or", c |-> <<t1, ...>>]
   inside a boundary box, plus a background.  Lattice points sit strictly off every face. *)
RECURSIVE TreeRegion(_), TreeZone(_, _)
TreeRegion(t) ==
  IF t.k = "box" THEN Pts([lo |-> t.lo, hi |-> t.hi], UU)
  ELSE IF t.k = "not" THEN UU \ TreeRegion(t.c[1])
  ELSE IF t.k = "and" THEN FoldLeft(LAMBDA acc, c : acc \cap TreeRegion(c), UU, t.c)
  ELSE FoldLeft(LAMBDA acc, c : acc \cup TreeRegion(c), {}, t.c)
\* the zone VolumeBuilder accumulates for the tree with the algebra alg
TreeZone(t, alg) ==
  IF t.k = "box" THEN Zone([lo |-> t.lo, hi |-> t.hi], [lo |-> t.lo, hi |-> t.hi], FALSE)
  ELSE IF t.k = "not" THEN Negated(TreeZone(t.c[1], alg))
  ELSE IF t.k = "and" THEN FoldLeft(LAMBDA acc, c : CodedIntersection(acc, TreeZone(c, alg), alg), InfiniteZone, t.c)
  ELSE FoldLeft(LAMBDA acc, c : CodedUnion(acc, TreeZone(c, alg), alg), DefaultZone, t.c)

TUnit ==
  /\ pc = "run" /\ mode = "unit" /\ Rec.e = "Unit" /\ Rec.k = nxt.other
  /\ IF "error" \in DOMAIN Rec
     THEN /\ stat' = [stat EXCEPT !.units = @ + 1, !.unitskip = @ + 1]
          /\ UNCHANGED <<viol, dev, drift>>
     ELSE \E t \in {Rec.vols[1]}, inb \in {Pts(bnd, UU)} :
          \E R \in {TreeRegion(t) \cap inb}, box \in {PtSet(Rec.built[1].bbox_pts)},
             located \in {{P[i] : i \in {j \in DOMAIN P : Rec.loc[j] = "v0"}}} :
          \* a null box is replaced by an infinite one when the unit is inserted (UnitInserter): only a
          \* non-null box that misses part of the volume hides it from the BIH
          \E miss \in {Rec.built[1].bbox_bool /\ ~(R \subseteq box)}, lost \in {R \ located},
             wrong \in {(located \cap inb) \ R} :
          \* the consequence of the algebra's named deviations, exactly: the stored box is the one the
          \* transcription of the source yields for this tree, the repaired algebra's box covers the
          \* volume, and the points that cannot be located are those outside the box
          \E isdev \in {/\ miss
                        /\ box = Pts(ExteriorBBox(TreeZone(t, "coded")), UU)
                        /\ R \subseteq Pts(ExteriorBBox(TreeZone(t, "fixed")), UU)
                        /\ lost = R \ box} :
          \E V \in {Named(Rec.built[1].found, "X06.UnitVolumeBuilt")
                     \cup Named(~miss, "X06.UnitBBoxCoversVolume")
                     \cup Named(lost = {}, "X06.UnitPointLocatable")
                     \cup Named(wrong = {}, "X06.UnitPointNotMislocated")} :
          /\ viol' = Bump(viol, IF isdev THEN V \ {"X06.UnitBBoxCoversVolume", "X06.UnitPointLocatable"} ELSE V)
          /\ dev' = Bump(dev, IF isdev THEN {"VolumeBBoxFromUnsoundZone"} ELSE {})
          /\ drift' = Bump(drift, Named(Rec.built[1].bbox_bool \/ R = {}, "X06.UnitBBoxNullForNonEmptyVolume"))
          /\ stat' = [stat EXCEPT !.units = @ + 1, !.locs = @ + Len(P),
                                  !.unitmiss = @ + (IF miss THEN 1 ELSE 0),
                                  !.unitlost = @ + Cardinality(lost),
                                  !.devunit = @ + (IF isdev THEN 1 ELSE 0)]
  /\ nxt' = [nxt EXCEPT !.other = @ + 1]
  /\ cnt' = cnt + 1
  /\ UNCHANGED <<pc, mode, P, UU, BX, ZN, ZV, LV, bnd>>

TClose ==
  /\ pc = "run" /\ Rec.e = "Close"
  /\ Rec.n = cnt
  /\ (mode = "pairs" /\ Rec.n > 0) =>
        (nxt.box \in {1, Len(BX) + 1} /\ nxt.row = nxt.box /\ nxt.mut = nxt.box /\ nxt.zone \in {1, Len(ZN) + 1})
  /\ pc' = "closed"
  /\ UNCHANGED <<mode, P, UU, BX, ZN, ZV, LV, bnd, nxt, cnt, viol, drift, dev, stat>>

Next ==
  /\ l <= N /\ l' = l + 1
  /\ \/ TConfig \/ TBox \/ TBoxRow \/ TMut \/ TSpecial \/ TZone \/ TZoneRow \/ TPair \/ TChain \/ TClip
     \/ TUnit \/ TClose
Spec == Init /\ [][Next]_vars

Accepted ==
  LET d == TLCGet("stats").diameter IN
  IF d - 1 = N /\ TraceLog[N].e = "Close" THEN TRUE
  ELSE /\ PrintT(<<"REJECTED", d, IF d <= N THEN [e |-> TraceLog[d].e, k |-> IF "k" \in DOMAIN TraceLog[d] THEN TraceLog[d].k ELSE 0]
                                  ELSE [e |-> "missing Close", k |-> 0]>>)
       /\ FALSE
Report == (l = N + 1) =>
   PrintT(<<"SUMMARY", ToJson([viol |-> viol, drift |-> drift, dev |-> dev, stat |-> stat])>>)
=============================================================================
