------------------------------ MODULE CoreLoop ------------------------------
(* Property-level (Abs) specification of the Celeritas stepping loop.

   One action per kernel group of the ActionSequence, in the order the code runs them:
     Insert -> Gen (ExtendFromPrimaries) -> Start (InitializeTracks) -> Pre (pre-step)
            -> Post (along-step, discrete select, interactions, boundary, tracking cut)
            -> Deliver* (StepGather callbacks) -> End (ExtendFromSecondaries) -> Result
   plus Reseed, Error/Reset (capacity fault), EventsDone, Hang.

   The abstract state is the set of tracks in slots, the set of queued initializers, the
   ghost sets born/finished and the per-event energy ledgers.  Choices the property does
   not constrain (which vacancy receives which initializer, which fresh id) are left
   open: every action is a *predicate over (state, arguments, state')* split into named
   clauses.  Clause names carry the property id they decide (C01 C02 C05 C16 C17).

   Clauses(...) operators return the SET OF VIOLATED CLAUSE NAMES; an action is allowed iff
   that set is empty.  The model-checking module (CoreLoopMC) only takes allowed steps; the
   trace module (CoreLoopTrace) follows the implementation's logged step, accumulates the
   violated clauses and keeps validating the rest of the trace.

   Energies: Eq = fixed-point quanta (additive ledgers, tolerance = proven rounding bound),
   Et = bit-exact token (equality only).  Times, lengths, energies that are only compared
   are dense ranks (fields rE_x, rT_x, rL_x).  pos, tt = bit-exact tokens. *)
EXTENDS Integers, Sequences, FiniteSets, SequencesExt

Abs(x) == IF x < 0 THEN -x ELSE x
Sum(s) == FoldLeft(LAMBDA a, b : a + b, 0, s)
SeqBag(s) == [x \in ToSet(s) |-> Cardinality({i \in DOMAIN s : s[i] = x})]
SetMin(a, b) == IF a < b THEN a ELSE b

Inactive(i) == [slot |-> i, st |-> "inactive"]
IsActive(r) == r.st # "inactive"
Key(r) == <<r.ev, r.tid>>

\* identity of a queued/started track, as far as the properties care
Ident(r) == [ev |-> r.ev, tid |-> r.tid, par |-> r.par, pt |-> r.pt, Et |-> r.Et,
             Eq |-> r.Eq, tt |-> r.tt, pos |-> r.pos]
\* what a primary / an emitted secondary determines of the track it must become
Origin(r) == [ev |-> r.ev, par |-> r.par, pt |-> r.pt, Et |-> r.Et, tt |-> r.tt, pos |-> r.pos]

\* W = T + 2mc^2 [particle is a positron], in quanta (twom[pt] = 0 for non-antiparticles)
W(twom, pt, Eq) == Eq + twom[pt]

ActiveSlots(slot) == {i \in DOMAIN slot : IsActive(slot[i])}
LiveKeys(slot) == {Key(slot[i]) : i \in ActiveSlots(slot)}
QueuedKeys(inits) == {Key(r) : r \in inits}

-----------------------------------------------------------------------------
(* Gen: ExtendFromPrimaries.  prims: sequence of Origin records (par = -1);
   added: sequence of Ident records the code appended to the initializer buffer. *)
GenClauses(slot, inits, born, prims, added, removed, ctrInits, initcap) ==
  LET addedKeys == {Key(added[k]) : k \in DOMAIN added} IN
  (IF SeqBag([k \in DOMAIN added |-> Origin(added[k])]) = SeqBag(prims)
      THEN {} ELSE {"C02.PrimariesBecomeInits"})
  \cup (IF /\ Cardinality(addedKeys) = Len(added)
           /\ addedKeys \cap born = {}
        THEN {} ELSE {"C02.UniqueIds"})
  \cup (IF removed = <<>> THEN {} ELSE {"C02.InitsOnlyGrow@Gen"})
  \cup (IF ctrInits = Cardinality(inits) + Len(added) THEN {} ELSE {"C02.Counters@Gen"})
  \cup (IF Cardinality(inits) + Len(added) <= initcap THEN {} ELSE {"C16.CapacityBeforeWrite@Gen"})

(* Start: InitializeTracks.  changed: sequence of slot records that differ from before;
   removed: sequence of [ev,tid] taken from the initializer buffer. *)
StartClauses(slot, inits, changed, removed, added, ctr, nslots) ==
  LET taken == {r \in inits : \E k \in DOMAIN removed : Key(r) = <<removed[k].ev, removed[k].tid>>}
      nvacBefore == nslots - Cardinality(ActiveSlots(slot))
      n == Len(changed)
  IN
  (IF /\ \A k \in DOMAIN changed :
            /\ ~IsActive(slot[changed[k].slot])          \* only vacant slots are filled
            /\ changed[k].st = "initializing"
            /\ changed[k].ns = 0
            /\ Ident(changed[k]) \in taken               \* with a queued initializer, unmodified
      /\ Cardinality({changed[k].slot : k \in DOMAIN changed}) = n
      /\ Cardinality({Key(changed[k]) : k \in DOMAIN changed}) = n
      /\ Cardinality(taken) = n /\ Len(removed) = n     \* nothing else leaves the queue
      /\ added = <<>>
    THEN {} ELSE {"C02.StartFromInits"})
  \cup (IF n <= SetMin(nvacBefore, Cardinality(inits)) THEN {} ELSE {"C02.StartCount"})
  \cup (IF n = SetMin(nvacBefore, Cardinality(inits)) THEN {} ELSE {"DRIFT.StartsFewerThanPossible"})
  \cup (IF /\ ctr.inits = Cardinality(inits) - n
           /\ ctr.vac = nvacBefore - n
           /\ ctr.active = nslots - (nvacBefore - n)
        THEN {} ELSE {"C02.Counters@Start"})

(* Pre: state of every active slot after the pre-step kernels.  rec = logged record,
   old = slot state before. *)
PreSlotClauses(old, rec, zeroL) ==
  (IF /\ IsActive(old)
      /\ Ident(rec) = Ident(old) /\ rec.ns = old.ns         \* nothing moved between steps
      /\ ("vol" \in DOMAIN old => rec.vol = old.vol)
    THEN {} ELSE {"C05.Continuity"})
  \* (a track marked errored by kill_active / a failed initialisation stays errored: it is only
  \*  there to be killed, with its energy deposited, by the tracking-cut action of this step)
  \cup (IF \/ (rec.st = "alive" /\ old.st \in {"initializing", "alive"})
           \/ (rec.st = "errored" /\ old.st = "errored")
        THEN {} ELSE {"C05.StatusForward@Pre"})
  \cup (IF rec.volo = -1 \/ rec.vol = rec.volo THEN {} ELSE {"C05.VolumeMatchesPosition@Pre"})
  \cup (IF rec.rL_lim >= zeroL THEN {} ELSE {"C05.LimitNonNegative"})

(* Post: one record per active slot after user_post.  pre = the Pre record of the slot. *)
PostSlotClauses(pre, rec, twom, zero, mscfield) ==
  LET errored == pre.st = "errored"      \* not a step: the pseudo-step that kills an errored track
      failure == rec.act = "physics-failure" \/ errored
      w0 == W(twom, pre.pt, pre.Eq)
      w1 == IF rec.st = "alive" THEN W(twom, rec.pt, rec.Eq)
            ELSE IF rec.out THEN W(twom, rec.pt, rec.Eq)          \* left the world: carried away
            ELSE 0                                                 \* ended inside: nothing may remain
      wsec == Sum([k \in DOMAIN rec.secs |-> W(twom, rec.secs[k].pt, rec.secs[k].Eq)])
      nterms == 3 + Len(rec.secs)
      stopped == pre.rE_E0 = zero.E
  IN
  (IF 2 * Abs(w0 - (w1 + rec.depq + wsec)) <= nterms + 2 THEN {} ELSE {"C01.LedgerTrack"})
  \cup (IF rec.depq >= 0 /\ rec.rE_dep >= zero.E THEN {} ELSE {"C01.DepositNonNegative"})
  \cup (IF Key(rec) = Key(pre) /\ rec.par = pre.par /\ rec.pt = pre.pt THEN {} ELSE {"C02.SameTrack"})
  \cup (IF (~errored /\ rec.ns = pre.ns + 1) \/ (errored /\ rec.ns = pre.ns) THEN {} ELSE {"C02.StepsConsecutive"})
  \cup (IF errored => (rec.st = "killed" /\ rec.act = "tracking-cut" /\ rec.secs = <<>> /\ rec.pos = pre.pos)
        THEN {} ELSE {"C02.ErroredTrackIsKilledInPlace"})
  \cup (IF rec.st \in {"alive", "killed", "errored"} THEN {} ELSE {"C05.StatusForward@Post"})
  \cup (IF rec.rT_t1 >= pre.rT_t0 THEN {} ELSE {"C05.TimeMonotone"})
  \cup (IF rec.rE_E1 <= pre.rE_E0 THEN {} ELSE {"C05.EnergyMonotone"})
  \cup (IF failure \/ rec.rL_step > zero.L \/ (stopped /\ rec.rL_step = zero.L) THEN {} ELSE {"C05.StepPositive"})
  \cup (IF failure \/ rec.rL_step <= pre.rL_lim THEN {} ELSE {"C05.StepWithinLimit"})
  \* named deviation F-MSC-1: with Urban MSC *and* a magnetic field the lateral displacement is added
  \* to the end of the curved path and the straight-line displacement may exceed the reported true
  \* path length; scoped to runs with both switched on and chord <= sqrt(2) * step (chord <= g + d with
  \* g^2 + d^2 <= step^2: the bound that follows from the mechanism)
  \cup (IF failure \/ rec.rL_chordlo <= rec.rL_step THEN {}
        ELSE IF mscfield /\ rec.rL_chordlo2 <= rec.rL_step THEN {"C05.KNOWN.MscFieldDisplacementExceedsStep"}
        ELSE {"C05.StepNotShorterThanChord"})
  \cup (IF rec.volo = -1 \/ rec.vol = rec.volo THEN {} ELSE {"C05.VolumeMatchesPosition@Post"})
  \cup (IF rec.vol = pre.vol \/ rec.act = "geo-boundary" THEN {} ELSE {"C05.VolumeChangeOnlyAtBoundary"})
  \cup (IF rec.out => (rec.st = "killed" /\ rec.act = "geo-boundary") THEN {} ELSE {"C05.OutsideIsKilledAtBoundary"})
  \* a failed interaction (secondary storage exhausted): the track stays alive where the
  \* along-step put it, nothing is emitted (energy: LedgerTrack with no secondaries)
  \cup (IF rec.act = "physics-failure" => /\ rec.st = "alive" /\ rec.secs = <<>> /\ rec.nfalse = 0
        THEN {} ELSE {"C16.FailureIsClean"})
  \cup (IF \A k \in DOMAIN rec.secs : rec.secs[k].rE_E > zero.E THEN {} ELSE {"C04.SecondaryEnergyPositive"})

(* the emitted secondaries of a Post record as Origin records of the tracks they must become *)
Emitted(rec) == [k \in DOMAIN rec.secs |->
                   [ev |-> rec.ev, par |-> rec.tid, pt |-> rec.secs[k].pt, Et |-> rec.secs[k].Et,
                    tt |-> rec.tt, pos |-> rec.pos]]

(* End: ExtendFromSecondaries.  posts = function slot -> Post record (active slots);
   changed = slot records that differ from their Post projection; added = new initializers. *)
EndClauses(slot, inits, born, posts, changed, added, removed, ctr, vac, nslots, initcap) ==
  LET chg(i) == CHOOSE c \in ToSet(changed) : c.slot = i
      isChanged(i) == \E c \in ToSet(changed) : c.slot = i
      after(i) == IF isChanged(i) THEN chg(i) ELSE slot[i]
      dead == {i \in DOMAIN posts : posts[i].st # "alive"}
      inplace == {i \in dead : IsActive(after(i))}
      newTracks == [k \in DOMAIN added |-> Ident(added[k])]
                     \o SetToSeq({Ident(after(i)) : i \in inplace})
      newKeys == {Key(newTracks[k]) : k \in DOMAIN newTracks}
      emitted == FoldLeft(LAMBDA acc, i : acc \o Emitted(posts[i]), <<>>, SetToSeq(DOMAIN posts))
      nvac == Cardinality({i \in 1..nslots : ~IsActive(after(i))})
  IN
  (IF SeqBag([k \in DOMAIN newTracks |-> Origin(newTracks[k])]) = SeqBag(emitted)
      THEN {} ELSE {"C02.SecondariesBecomeTracks"})
  \cup (IF /\ Cardinality(newKeys) = Len(newTracks)
           /\ newKeys \cap born = {}
        THEN {} ELSE {"C02.UniqueIds"})
  \cup (IF /\ \A i \in DOMAIN posts \ dead : ~isChanged(i)              \* survivors untouched
           /\ \A i \in dead : \/ ~IsActive(after(i))
                              \/ (after(i).st = "initializing" /\ after(i).ns = 0)
           /\ \A c \in ToSet(changed) : c.slot \in dead
        THEN {} ELSE {"C02.KilledRemoved"})
  \cup (IF removed = <<>> THEN {} ELSE {"C02.InitsOnlyGrow@End"})
  \cup (IF /\ ctr.inits = Cardinality(inits) + Len(added)
           /\ ctr.vac = nvac /\ ctr.alive = nslots - nvac
           /\ ctr.secs = Len(added)
           /\ ToSet(vac) = {i \in 1..nslots : ~IsActive(after(i))} /\ Len(vac) = nvac
        THEN {} ELSE {"C02.Counters@End"})
  \cup (IF Cardinality(inits) + Len(added) <= initcap THEN {} ELSE {"C16.CapacityBeforeWrite@End"})

(* Deliver: what one callback received.  filt = combined filter of the collector. *)
Passes(filt, pre, post) ==
  \/ filt.dets = {}
  \/ /\ pre.vol \in filt.dets
     /\ (filt.nonzero => ~post.depz)
Has(r, f) == f \in DOMAIN r
FieldOK(d, f, v) == Has(d, f) => d[f] = v
DeliverClauses(filt, detmap, pres, posts, steps) ==
  LET expected == {i \in DOMAIN posts : Passes(filt, pres[i], posts[i])}
      got == {steps[k].slot : k \in DOMAIN steps}
  IN
  (IF got = expected /\ Cardinality(got) = Len(steps) THEN {} ELSE {"C17.DeliveredExactlyOnce"})
  \cup (IF \A k \in DOMAIN steps :
             LET d == steps[k] IN
             d.slot \in DOMAIN posts =>
               LET p == pres[d.slot]  q == posts[d.slot] IN
               /\ d.tid = q.tid /\ FieldOK(d, "ev", q.ev) /\ FieldOK(d, "par", q.par)
               /\ FieldOK(d, "ns", q.ns) /\ FieldOK(d, "act", q.act) /\ FieldOK(d, "pt", q.pt)
               /\ FieldOK(d, "dept", q.dept) /\ FieldOK(d, "stept", q.stept)
               /\ FieldOK(d, "dir0", p.dir) /\ FieldOK(d, "dir1", q.dir)
               /\ FieldOK(d, "Et0", p.Et) /\ FieldOK(d, "pos0", p.pos) /\ FieldOK(d, "tt0", p.tt)
               /\ FieldOK(d, "vol0", p.vol)
               /\ FieldOK(d, "Et1", q.Et) /\ FieldOK(d, "pos1", q.pos) /\ FieldOK(d, "tt1", q.tt)
               /\ (Has(d, "vol1") => (d.vol1 = q.vol \/ q.out))
               /\ (Has(d, "det") => (p.vol \in DOMAIN detmap /\ d.det = detmap[p.vol]))
        THEN {} ELSE {"C17.FieldsEqual"})

\* copy_steps (DetectorSteps.cc): the compacted in-detector output a hit processor consumes equals the
\* delivered steps, entry by entry in slot order, on every field both carry
DsoOnly == {"slot", "act", "vol0", "vol1"}
DsoClauses(rec) ==
  IF ~Has(rec, "dso") THEN {}
  ELSE IF /\ Len(rec.dso) = Len(rec.steps)
          /\ \A k \in DOMAIN rec.dso :
                /\ DOMAIN rec.dso[k] = (DOMAIN rec.steps[k]) \ DsoOnly
                /\ \A f \in DOMAIN rec.dso[k] : rec.dso[k][f] = rec.steps[k][f]
       THEN {} ELSE {"C17.DetectorStepsCopy"}
=============================================================================
