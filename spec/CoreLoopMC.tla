----------------------------- MODULE CoreLoopMC -----------------------------
(* Design check for the stepping loop: an implementation-shaped model (CoreLoopImpl in
   DESIGN.md) of the track-initialisation index arithmetic, transcribed from
     ExtendFromPrimariesAction / ProcessPrimariesExecutor,
     InitializeTracksAction / InitTracksExecutor / TrackInitAlgorithms (partition_initializers),
     ExtendFromSecondariesAction / LocateAliveExecutor / exclusive_scan / ProcessSecondariesExecutor,
   driven by an environment that chooses, per step and per track, survive / die inside /
   leave the world, the energies and up to MaxSec secondaries (neutral or charged, possibly a
   positron), with the per-step energy ledger holding by construction (PostSlotClauses = {}).

   TLC checks, on every reachable state within the constants:
     * REFINEMENT  Impl => Abs : every Gen/Start/End step of the arithmetic satisfies the
       property-level clauses of CoreLoop (GenClauses/StartClauses/EndClauses = {});
     * UniqueIds, ExactlyOnce (born = finished + live + queued), NoBlank (every reserved
       initializer was written), GeoCopyValid (geometry copied from a parent slot is the
       geometry of the birth position), CountersExact;
     * LedgerEvent: when nothing is queued or alive, W(primaries) = deposits + W(escaped);
     * finiteness by construction (MaxTracks, MaxIter) so Terminates is checked as
       "every maximal behaviour ends with queued = alive = 0" (no state constraint).
   Both TrackOrder::none and TrackOrder::init_charge (Charge = TRUE) are configurations. *)
EXTENDS CoreLoop, TLC, Json

CONSTANTS NSlots, InitCap, MaxTracks, MaxSec, MaxIter, Charge, MaxPrim, MaxE, TwoM, PTypes, PrimE,
          AllowOut,   \* tracks may leave the world (FALSE for the scripted replay, where nothing escapes)
          MinAliveE   \* least energy of a surviving track (1 for the scripted replay: no stopped particles)
Slots == 1..NSlots
\* particle types (subset of): 0 gamma (neutral), 1 electron (charged), 2 positron (charged,
\* antiparticle).  Secondaries are born with one energy unit; primaries with PrimE units.
IsCharged(pt) == pt # 0
Twom == [p \in {0, 1, 2} |-> IF p = 2 THEN TwoM ELSE 0]
Zero == [E |-> 0, T |-> 0, L |-> 0]

VARIABLES slot,     \* [Slots -> slot record] ; active records carry gpos/bpos ghosts
          inits,    \* SEQUENCE of initializer records (order matters in the implementation)
          parents,  \* [Slots -> slot id or 0]
          tcount,   \* per-event track counter (single event 0)
          nsec,     \* counters.num_secondaries of the last ExtendFromSecondaries
          pc, iter, inserted, posts, npos, err,
          born, finished, win, dep, esc,   \* ghosts / ledgers
          hist,                            \* ghost: the environment script of this behaviour (replay)
          geo,                             \* ghost: position id whose geometry state each slot holds
                                           \* (persists while the slot is inactive, as in the code)
          ref                              \* violated Abs clauses (must stay empty)
vars == <<slot, inits, parents, tcount, nsec, pc, iter, inserted, posts, npos, err, born, finished, win, dep, esc, geo, ref, hist>>
View == <<slot, inits, parents, tcount, nsec, pc, iter, inserted, posts, npos, err, born, finished, win, dep, esc, geo, ref>>

Blank == [ev |-> 0, tid |-> -1, par |-> -1, pt |-> 0, Et |-> -1, Eq |-> -1, tt |-> 0, pos |-> -1]
Init == /\ slot = [i \in Slots |-> Inactive(i)] /\ inits = <<>> /\ parents = [i \in Slots |-> 0]
        /\ tcount = 0 /\ nsec = 0 /\ pc = "gen" /\ iter = 0 /\ inserted = 0
        /\ posts = <<>> /\ npos = 0 /\ err = FALSE
        /\ born = {} /\ finished = {} /\ win = 0 /\ dep = 0 /\ esc = 0 /\ ref = {}
        /\ geo = [i \in Slots |-> -2] /\ hist = <<>>

Vac == {i \in Slots : ~IsActive(slot[i])}
SortedSeq(S) == SetToSortSeq(S, LAMBDA a, b : a < b)
InitSet == {Ident(inits[k]) : k \in DOMAIN inits}

\* ---- generate: ExtendFromPrimaries ------------------------------------------------------
Gen ==
  /\ pc = "gen" /\ ~err
  /\ \E k \in 0..MaxPrim : \E pts \in [1..k -> PTypes], es \in [1..k -> PrimE] :
       /\ (k > 0 => inserted < 2 /\ tcount + k <= MaxTracks)
       /\ IF Len(inits) + k > InitCap
          THEN \* CELER_VALIDATE in ExtendFromPrimariesAction::insert: error, state untouched
               /\ err' = TRUE
               /\ hist' = Append(hist, [k |-> "gen", prims |-> [j \in 1..k |-> [pt |-> pts[j], E |-> es[j]]], err |-> TRUE])
               /\ UNCHANGED <<inits, tcount, inserted, parents, born, win, ref>>
          ELSE LET new == [j \in 1..k |-> [ev |-> 0, tid |-> tcount + j - 1, par |-> -1, pt |-> pts[j],
                                           Et |-> es[j], Eq |-> es[j], tt |-> 0, pos |-> 0]]
                   prims == [j \in 1..k |-> Origin(new[j])]
               IN /\ inits' = inits \o new
                  /\ tcount' = tcount + k
                  /\ inserted' = IF k > 0 THEN inserted + 1 ELSE inserted
                  \* ExtendFromPrimariesAction::step_impl runs in every iteration (also with no
                  \* pending primaries) and ends with fill(TrackSlotId{}, parents)
                  /\ parents' = [i \in Slots |-> 0]
                  /\ born' = born \cup {<<0, new[j].tid>> : j \in 1..k}
                  /\ win' = win + Sum([j \in 1..k |-> W(Twom, pts[j], es[j])])
                  /\ ref' = ref \cup GenClauses(slot, InitSet, born, prims, new, <<>>, Len(inits) + k, InitCap)
                  /\ err' = FALSE
                  /\ hist' = Append(hist, [k |-> "gen", prims |-> [j \in 1..k |-> [pt |-> pts[j], E |-> es[j]]], err |-> FALSE])
  /\ pc' = "start" /\ UNCHANGED <<slot, nsec, iter, posts, npos, finished, dep, esc, geo>>

\* ---- start: InitializeTracksAction ------------------------------------------------------
Start ==
  /\ pc = "start" /\ ~err
  /\ LET vac == SortedSeq(Vac)
         nV == Len(vac)  nI == Len(inits)
         n  == IF nV < nI THEN nV ELSE nI
         \* partition_initializers: indices 0..n-1 of the last n initializers, neutral first (stable)
         idxs == IF Charge
                 THEN SelectSeq([j \in 1..n |-> j - 1], LAMBDA j : ~IsCharged(inits[nI - n + j + 1].pt))
                      \o SelectSeq([j \in 1..n |-> j - 1], LAMBDA j : IsCharged(inits[nI - n + j + 1].pt))
                 ELSE <<>>
         \* get_idx(size): index_before(size, t) = size - t - 1, or through the sorted indices
         GetIdx(size, t) == IF Charge THEN idxs[(n - 1 - t) + 1] + size - n ELSE size - t - 1
         InitOf(t) == inits[GetIdx(nI, t) + 1]
         \* index_partitioned(n, nV, is_neutral, t): neutrals from the front, charged from the back
         VacOf(t) == IF Charge
                     THEN (IF ~IsCharged(InitOf(t).pt) THEN vac[(n - 1 - t) + 1] ELSE vac[(nV - t - 1) + 1])
                     ELSE vac[(nV - t - 1) + 1]
         ParOf(t) == IF t < nsec THEN parents[GetIdx(NSlots, t) + 1] ELSE 0
         T == 0..(n - 1)
         tOf(i) == CHOOSE t \in T : VacOf(t) = i
         newslot == [i \in Slots |->
              IF \E t \in T : VacOf(t) = i
              THEN LET t == tOf(i) IN
                   [slot |-> i, st |-> "initializing", ev |-> 0, tid |-> InitOf(t).tid, par |-> InitOf(t).par,
                    ns |-> 0, pt |-> InitOf(t).pt, Et |-> InitOf(t).Et, Eq |-> InitOf(t).Eq, tt |-> 0,
                    pos |-> InitOf(t).pos]
              ELSE slot[i]]
         \* geometry: copied from the recorded parent slot, else initialised from the position
         newgeo == [i \in Slots |->
              IF \E t \in T : VacOf(t) = i
              THEN LET t == tOf(i) IN IF ParOf(t) # 0 THEN geo[ParOf(t)] ELSE InitOf(t).pos
              ELSE geo[i]]
         changed == [k \in 1..n |-> newslot[VacOf(k - 1)]]
         removed == [k \in 1..n |-> [ev |-> 0, tid |-> InitOf(k - 1).tid]]
     IN /\ slot' = newslot /\ geo' = newgeo
        /\ inits' = SubSeq(inits, 1, nI - n)
        \* InitializeTracksAction clears parents under init_charge after use
        /\ parents' = IF Charge /\ n > 0 THEN [i \in Slots |-> 0] ELSE parents
        /\ ref' = ref \cup StartClauses(slot, InitSet, changed, removed, <<>>,
                                        [inits |-> nI - n, vac |-> nV - n, active |-> NSlots - (nV - n)], NSlots)
                      \cup (IF Cardinality({VacOf(t) : t \in T}) = n THEN {} ELSE {"IMPL.DistinctVacancies"})
        /\ hist' = Append(hist, [k |-> "start", tids |-> [i \in Slots |-> IF IsActive(newslot[i]) THEN newslot[i].tid ELSE -1]])
  /\ pc' = "phys" /\ UNCHANGED <<tcount, nsec, iter, inserted, posts, npos, err, born, finished, win, dep, esc>>

\* ---- physics: one step of every active track, chosen by the environment -----------------
\* outcome of a track with kinetic energy E, type pt: [st, out, E1, secs]
SecSeqs(E) == UNION {{s \in [1..k -> PTypes \X {1}] :
                        Sum([j \in 1..k |-> W(Twom, s[j][1], s[j][2])]) <= E + TwoM} : k \in 0..MaxSec}
Outcomes(pt, E) ==
  {o \in [st : {"alive", "killed"}, out : BOOLEAN, E1 : 0..E, secs : SecSeqs(E)] :
     LET w0 == W(Twom, pt, E)
         w1 == IF o.st = "alive" \/ o.out THEN W(Twom, pt, o.E1) ELSE 0
         ws == Sum([j \in DOMAIN o.secs |-> W(Twom, o.secs[j][1], o.secs[j][2])])
     IN /\ (o.out => AllowOut /\ o.st = "killed" /\ o.secs = <<>>)      \* leaves the world at a boundary
        /\ (o.st = "alive" => o.E1 >= MinAliveE)
        /\ (o.st = "killed" /\ ~o.out => o.E1 = 0)
        /\ w0 - w1 - ws >= 0}                                \* deposit = what is left over
\* all assignments of one outcome to every active slot (dependent product)
RECURSIVE Prod(_)
Prod(S) == IF S = {} THEN {<<>>}
           ELSE LET i == CHOOSE x \in S : \A y \in S : x <= y
                    rest == Prod(S \ {i})
                IN {[x \in S |-> IF x = i THEN oc ELSE f[x]] : oc \in Outcomes(slot[i].pt, slot[i].Eq), f \in rest}
Phys ==
  /\ pc = "phys" /\ iter < MaxIter
  /\ \E o \in Prod(ActiveSlots(slot)) :
       \* finiteness: at the last iteration everything ends without secondaries
       /\ (iter = MaxIter - 1 => \A i \in ActiveSlots(slot) : o[i].st = "killed" /\ o[i].secs = <<>>)
       /\ tcount + Sum([k \in 1..NSlots |-> IF IsActive(slot[k]) THEN Len(o[k].secs) ELSE 0]) <= MaxTracks
       /\ LET post(i) ==
                LET w0 == W(Twom, slot[i].pt, slot[i].Eq)
                    w1 == IF o[i].st = "alive" \/ o[i].out THEN W(Twom, slot[i].pt, o[i].E1) ELSE 0
                    ws == Sum([j \in DOMAIN o[i].secs |-> W(Twom, o[i].secs[j][1], o[i].secs[j][2])])
                IN [slot |-> i, st |-> o[i].st, ev |-> 0, tid |-> slot[i].tid, par |-> slot[i].par,
                    ns |-> slot[i].ns + 1, pt |-> slot[i].pt, Et |-> o[i].E1, Eq |-> o[i].E1, tt |-> 0,
                    pos |-> npos + i, out |-> o[i].out, depq |-> w0 - w1 - ws,
                    secs |-> [j \in DOMAIN o[i].secs |-> [pt |-> o[i].secs[j][1], Et |-> o[i].secs[j][2],
                                                          Eq |-> o[i].secs[j][2]]]]
          IN /\ posts' = [i \in ActiveSlots(slot) |-> post(i)]
             /\ slot' = [i \in Slots |-> IF IsActive(slot[i])
                                         THEN [f \in DOMAIN post(i) \ {"out", "depq", "secs"} |-> post(i)[f]]
                                         ELSE slot[i]]
             /\ geo' = [i \in Slots |-> IF IsActive(slot[i]) THEN npos + i ELSE geo[i]]
             /\ dep' = dep + Sum([k \in 1..NSlots |-> IF IsActive(slot[k]) THEN post(k).depq ELSE 0])
             /\ esc' = esc + Sum([k \in 1..NSlots |-> IF IsActive(slot[k]) /\ o[k].out
                                                      THEN W(Twom, slot[k].pt, o[k].E1) ELSE 0])
             /\ hist' = Append(hist, [k |-> "phys", outs |-> [i \in ActiveSlots(slot) |->
                                  [tid |-> slot[i].tid, alive |-> o[i].st = "alive", E1 |-> o[i].E1, dep |-> post(i).depq,
                                   secs |-> [j \in DOMAIN o[i].secs |-> <<o[i].secs[j][1], o[i].secs[j][2]>>]]]])
  /\ npos' = npos + NSlots
  /\ pc' = "end" /\ iter' = iter + 1
  /\ UNCHANGED <<inits, parents, tcount, nsec, inserted, err, born, finished, win, ref>>

\* ---- end: ExtendFromSecondariesAction ---------------------------------------------------
End ==
  /\ pc = "end"
  /\ LET act == DOMAIN posts
         nS(i) == IF i \in act THEN Len(posts[i].secs) ELSE 0
         \* LocateAlive: a dying parent keeps its slot for its first secondary (not under init_charge)
         cnt == [i \in Slots |->
                   IF i \notin act THEN 0
                   ELSE IF posts[i].st # "alive" /\ nS(i) > 0 /\ ~Charge THEN nS(i) - 1 ELSE nS(i)]
         scan == [i \in Slots |-> Sum([j \in 1..(i - 1) |-> cnt[j]])]          \* exclusive scan
         total == scan[NSlots] + cnt[NSlots]
         nI == Len(inits) + total
     IN IF nI > InitCap
        THEN \* CELER_VALIDATE before process_secondaries: nothing is written
             /\ err' = TRUE /\ UNCHANGED <<slot, inits, parents, tcount, nsec, born, finished, ref>>
             /\ hist' = Append(hist, [k |-> "end", err |-> TRUE])
        ELSE
        \* ProcessSecondaries over slots in increasing order; ids by sequential fetch_add
        LET RECURSIVE P(_, _, _, _, _)
            P(i, s, q, par, tc) ==
              IF i > NSlots THEN <<s, q, par, tc>>
              ELSE IF i \notin act THEN P(i + 1, s, q, par, tc)
              ELSE
                LET k == nS(i)
                    inplace == k > 0 /\ posts[i].st # "alive" /\ ~Charge
                    offset0 == total - scan[i]      \* counters.num_secondaries - secondary_counts[tid]
                    mk(j) == [ev |-> 0, tid |-> tc + j - 1, par |-> posts[i].tid, pt |-> posts[i].secs[j].pt,
                              Et |-> posts[i].secs[j].Et, Eq |-> posts[i].secs[j].Eq, tt |-> 0,
                              pos |-> posts[i].pos]
                    RECURSIVE Wr(_, _, _, _, _)
                    Wr(j, qq, pp, off, first) ==
                      IF j > k THEN <<qq, pp>>
                      ELSE IF first
                           THEN Wr(j + 1, qq, pp, off, FALSE)           \* first secondary taken in place
                           ELSE Wr(j + 1,
                                   [qq EXCEPT ![nI - off + 1] = mk(j)],
                                   IF off <= NSlots /\ (~Charge \/ posts[i].st = "alive")
                                   THEN [pp EXCEPT ![NSlots - off + 1] = i] ELSE pp,
                                   off - 1, FALSE)
                    r == Wr(1, q, par, offset0, inplace)
                    s2 == IF inplace
                          THEN [s EXCEPT ![i] = [slot |-> i, st |-> "initializing", ev |-> 0, tid |-> tc,
                                                 par |-> posts[i].tid, ns |-> 0, pt |-> posts[i].secs[1].pt,
                                                 Et |-> posts[i].secs[1].Et, Eq |-> posts[i].secs[1].Eq,
                                                 tt |-> 0, pos |-> posts[i].pos]]
                          ELSE IF posts[i].st # "alive" THEN [s EXCEPT ![i] = Inactive(i)] ELSE s
                IN P(i + 1, s2, r[1], r[2], tc + k)
            q0 == inits \o [j \in 1..total |-> Blank]
            res == P(1, slot, q0, parents, tcount)
            newslot == res[1]
            newinits == res[2]
            added == SubSeq(newinits, Len(inits) + 1, nI)
            chgSlots == {i \in Slots : newslot[i] # slot[i]}
            changed == [k \in 1..Cardinality(chgSlots) |-> newslot[SortedSeq(chgSlots)[k]]]
            nvac == Cardinality({i \in Slots : ~IsActive(newslot[i])})
            dead == {i \in act : posts[i].st # "alive"}
            inpl == {i \in dead : IsActive(newslot[i])}
        IN /\ slot' = newslot /\ inits' = newinits /\ parents' = res[3] /\ tcount' = res[4]
           /\ nsec' = total /\ err' = FALSE
           /\ hist' = Append(hist, [k |-> "end", err |-> FALSE,
                                    tids |-> [i \in Slots |-> IF IsActive(newslot[i]) THEN newslot[i].tid ELSE -1],
                                    queue |-> [k2 \in DOMAIN newinits |-> newinits[k2].tid]])
           /\ born' = born \cup {<<0, added[k].tid>> : k \in DOMAIN added} \cup {Key(newslot[i]) : i \in inpl}
           /\ finished' = finished \cup {Key(posts[i]) : i \in dead}
           /\ ref' = ref \cup EndClauses(slot, InitSet, born, posts, changed,
                                         [k \in DOMAIN added |-> Ident(added[k])], <<>>,
                                         [inits |-> nI, vac |-> nvac, alive |-> NSlots - nvac, secs |-> total],
                                         SortedSeq({i \in Slots : ~IsActive(newslot[i])}), NSlots, InitCap)
  /\ posts' = <<>>
  /\ pc' = "gen" /\ UNCHANGED <<iter, inserted, npos, win, dep, esc, geo>>

\* after a capacity error the driver resets the state (CoreState::reset) and may start again
Reset ==
  /\ err /\ pc \in {"start", "gen"}
  /\ slot' = [i \in Slots |-> Inactive(i)] /\ inits' = <<>> /\ parents' = [i \in Slots |-> 0]
  /\ tcount' = 0 /\ nsec' = 0 /\ pc' = "done" /\ posts' = <<>> /\ err' = FALSE
  /\ born' = {} /\ finished' = {} /\ win' = 0 /\ dep' = 0 /\ esc' = 0
  /\ UNCHANGED <<iter, inserted, npos, ref, geo, hist>>

Next == Gen \/ Start \/ Phys \/ End \/ Reset
Spec == Init /\ [][Next]_vars
FairSpec == Spec /\ WF_vars(Next)

\* ---- properties --------------------------------------------------------------------------
Live == LiveKeys(slot)
Queued == {<<0, inits[k].tid>> : k \in DOMAIN inits}
Refines == ref = {}
UniqueIds == /\ Cardinality(Live) = Cardinality(ActiveSlots(slot))
             /\ Cardinality(Queued) = Len(inits)
             /\ Live \cap Queued = {}
NoBlank == \A k \in DOMAIN inits : inits[k].tid >= 0
ExactlyOnce == (pc \in {"gen", "start"} /\ ~err) => born = finished \cup Live \cup Queued
NoResurrection == finished \cap (Live \cup Queued) = {}
GeoCopyValid == \A i \in Slots : slot[i].st = "initializing" => geo[i] = slot[i].pos
CountersExact == (pc = "gen" /\ ~err) => tcount = Cardinality(born)
LedgerEvent == (pc = "gen" /\ ~err /\ Live = {} /\ Queued = {}) => win = dep + esc
WithinCapacity == Len(inits) <= InitCap
\* every behaviour ends: queued = alive = 0 (or an explicit capacity error) -- liveness
Terminates == <>(pc = "done" \/ (pc = "gen" /\ Live = {} /\ Queued = {} /\ iter > 0) \/ iter = MaxIter)
\* replay: print the environment script of every behaviour that has run to its end
Ended == (pc = "gen" /\ ~err /\ Live = {} /\ Queued = {} /\ iter > 0 /\ inserted >= 1) \/ (err /\ pc \in {"start", "gen"})
EmitScript == Ended => PrintT(<<"SCRIPT", ToJson(hist)>>)
\* hide ledgers from the fingerprint? No: they are part of what is checked (kept small by MaxE)
=============================================================================
