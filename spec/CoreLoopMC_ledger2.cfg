SPECIFICATION Spec
CONSTANTS
  NSlots = 2
  InitCap = 4
  MaxTracks = 4
  MaxSec = 2
  MaxIter = 3
  Charge = FALSE
  MaxPrim = 1
  MaxE = 2
  TwoM = 1
  PTypes = {0, 2}
  AllowOut = TRUE
  MinAliveE = 0
  PrimE = {1, 2}
INVARIANT Refines
INVARIANT UniqueIds
INVARIANT NoBlank
INVARIANT ExactlyOnce
INVARIANT NoResurrection
INVARIANT GeoCopyValid
INVARIANT CountersExact
INVARIANT LedgerEvent
INVARIANT WithinCapacity
VIEW View
CHECK_DEADLOCK FALSE
