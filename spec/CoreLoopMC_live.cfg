SPECIFICATION FairSpec
CONSTANTS
  NSlots = 2
  InitCap = 3
  MaxTracks = 4
  MaxSec = 2
  MaxIter = 3
  Charge = FALSE
  MaxPrim = 1
  MaxE = 2
  TwoM = 1
  PTypes = {0, 1}
  AllowOut = TRUE
  MinAliveE = 0
  PrimE = {2}
PROPERTY Terminates
CHECK_DEADLOCK FALSE
