SPECIFICATION Spec
CONSTANTS
  NSlots = 2
  InitCap = 3
  MaxTracks = 4
  MaxSec = 2
  MaxIter = 3
  Charge = FALSE
  MaxPrim = 2
  MaxE = 2
  TwoM = 1
  PTypes = {0, 1}
  AllowOut = TRUE
  MinAliveE = 0
  PrimE = {2}
INVARIANT Refines
INVARIANT UniqueIds
INVARIANT NoBlank
INVARIANT ExactlyOnce
INVARIANT NoResurrection
INVARIANT GeoCopyValid
INVARIANT CountersExact
INVARIANT LedgerEvent
INVARIANT WithinCapacity
VIEW View
CHECK_DEADLOCK FALSE
