SPECIFICATION Spec
CONSTANTS
  NSlots = 3
  InitCap = 4
  MaxTracks = 9
  MaxSec = 2
  MaxIter = 6
  Charge = TRUE
  MaxPrim = 2
  MaxE = 3
  TwoM = 1
  PTypes = {0, 1, 2}
  PrimE = {2, 3}
  AllowOut = FALSE
  MinAliveE = 1
INVARIANT Refines
INVARIANT UniqueIds
INVARIANT NoBlank
INVARIANT ExactlyOnce
INVARIANT NoResurrection
INVARIANT GeoCopyValid
INVARIANT CountersExact
INVARIANT LedgerEvent
INVARIANT WithinCapacity
INVARIANT EmitScript
CHECK_DEADLOCK FALSE
