--------------------------- MODULE CoreLoopTrace ---------------------------
(* Trace validation of the real stepping loop (harness/vsim.cc) against CoreLoop.
   The state follows the implementation's log; every step is checked against the clauses
   of the corresponding CoreLoop action and the violated clause names are accumulated in
   `viol` (with the record number of first occurrence), so that the whole trace is always
   examined and each violation is attributed to a property.  Structural problems (records
   out of protocol order, Abort) reject the trace outright. *)
EXTENDS CoreLoop, TLC, Json, IOUtils

TraceLog == ndJsonDeserialize(IOEnv.TRACE)
N == Len(TraceLog)

VARIABLES l, pc, cfg, zero, slot, inits, born, finished, prims, pres, posts, led, viol, stat,
          lastgen, hang, tal
vars == <<l, pc, cfg, zero, slot, inits, born, finished, prims, pres, posts, led, viol, stat,
          lastgen, hang, tal>>

Rec == TraceLog[l]
NSlots == cfg.nslots
Twom == [p \in {cfg.parts[k].id : k \in DOMAIN cfg.parts} |->
           (CHOOSE q \in ToSet(cfg.parts) : q.id = p).twom]
\* combined filter of the single collector: union of detector maps, nonzero iff all ask
Filt == [dets |-> UNION {ToSet(cfg.cbs[k].dets) : k \in DOMAIN cfg.cbs},
         nonzero |-> \A k \in DOMAIN cfg.cbs : cfg.cbs[k].nonzero]
DetMap == LET pairs == UNION {ToSet(cfg.cbs[k].detmap) : k \in DOMAIN cfg.cbs}
          IN [v \in {p[1] : p \in pairs} |-> (CHOOSE p \in pairs : p[1] = v)[2]]

\* first occurrence of each clause per run: <<clause, record number, run number>>
Note(names) == {<<n, l, stat.runs>> : n \in {m \in names : ~\E v \in viol : v[1] = m /\ v[3] = stat.runs}}
Mark(names) == viol' = viol \cup Note(names)
Bump(key, k) == stat' = [stat EXCEPT ![key] = @ + k]

Proj(r) == [f \in (DOMAIN r) \cap {"slot", "st", "ev", "tid", "par", "ns", "pt", "Et", "Eq", "tt", "pos", "vol"}
              |-> r[f]]
LedZero == [win |-> 0, dep |-> 0, esc |-> 0, n |-> 0]
LedOf(L, e) == IF e \in DOMAIN L THEN L[e] ELSE LedZero
LedAdd(L, e, field, v) == [x \in (DOMAIN L) \cup {e} |->
                             IF x = e THEN [LedOf(L, e) EXCEPT ![field] = @ + v, !.n = @ + 1]
                             ELSE L[x]]

\* expected tallies, accumulated from the observed steps (ghost)
TalZero == [act |-> <<>>, steps |-> <<>>, calo |-> <<>>]
Inc(f, k, v) == [x \in (DOMAIN f) \cup {k} |-> IF x = k THEN (IF k \in DOMAIN f THEN f[k] ELSE 0) + v ELSE f[x]]
IncQ(f, k, q) == [x \in (DOMAIN f) \cup {k} |->
                    IF x = k THEN (IF k \in DOMAIN f THEN [q |-> f[k].q + q, n |-> f[k].n + 1] ELSE [q |-> q, n |-> 1])
                    ELSE f[x]]

Init ==
  /\ l = 1 /\ pc = "config" /\ cfg = <<>> /\ zero = <<>>
  /\ slot = <<>> /\ inits = {} /\ born = {} /\ finished = {}
  /\ prims = <<>> /\ pres = <<>> /\ posts = <<>> /\ led = <<>> /\ viol = {}
  /\ stat = [steps |-> 0, iters |-> 0, delivered |-> 0, tracks |-> 0, errors |-> 0, events |-> 0,
             failures |-> 0, inplace |-> 0, runs |-> 0, tallies |-> 0, kills |-> 0]
  /\ lastgen = 0 /\ hang = FALSE /\ tal = TalZero

\* per-state sanity that must hold whatever the log says
StateInv ==
     /\ Cardinality(LiveKeys(slot)) = Cardinality(ActiveSlots(slot))
     /\ LiveKeys(slot) \cap QueuedKeys(inits) = {}
     /\ finished \cap (LiveKeys(slot) \cup QueuedKeys(inits)) = {}
     /\ born = finished \cup LiveKeys(slot) \cup QueuedKeys(inits)


\* a Config record starts a run; several runs may be concatenated in one trace file (a new
\* Config is accepted whenever the previous run is between Stepper calls or has hung)
TConfig ==
  /\ pc \in {"config", "idle"} /\ Rec.e = "Config"
  /\ cfg' = Rec /\ pc' = "ranks"
  /\ slot' = [i \in 1..Rec.nslots |-> Inactive(i)]
  /\ inits' = {} /\ born' = {} /\ finished' = {} /\ prims' = <<>> /\ pres' = <<>> /\ posts' = <<>>
  /\ led' = <<>> /\ lastgen' = 0 /\ hang' = FALSE /\ tal' = TalZero
  /\ Bump("runs", 1)
  /\ UNCHANGED <<zero, viol>>
TRanks ==
  /\ pc = "ranks" /\ Rec.e = "Ranks"
  /\ zero' = [E |-> Rec.zeroE, T |-> Rec.zeroT, L |-> Rec.zeroL] /\ pc' = "idle"
  /\ UNCHANGED <<cfg, slot, inits, born, finished, prims, pres, posts, led, viol, stat, lastgen, hang, tal>>
TReseed ==
  /\ pc = "idle" /\ Rec.e = "Reseed"
  /\ UNCHANGED <<pc, cfg, zero, slot, inits, born, finished, prims, pres, posts, led, viol, stat, lastgen, hang, tal>>

TInsert ==
  /\ pc = "idle" /\ Rec.e = "Insert"
  /\ prims' = [k \in DOMAIN Rec.prims |-> Origin(Rec.prims[k])] /\ pc' = "gen"
  /\ Mark(IF StateInv THEN {} ELSE {"C02.ExactlyOnce@State"})
  /\ UNCHANGED <<cfg, zero, slot, inits, born, finished, pres, posts, led, stat, lastgen, hang, tal>>

TGen ==
  /\ pc = "gen" /\ Rec.e = "Gen"
  /\ LET added == [k \in DOMAIN Rec.added |-> Ident(Rec.added[k])] IN
     /\ Mark(GenClauses(slot, inits, born, prims, added, Rec.removed, Rec.ctr.inits, cfg.initcap)
             \cup (IF Rec.ctr.gen = Len(prims) THEN {} ELSE {"C02.Counters@Gen"}))
     /\ inits' = inits \cup ToSet(added)
     /\ born' = born \cup {Key(added[k]) : k \in DOMAIN added}
     /\ led' = FoldLeft(LAMBDA L, k : LedAdd(L, Rec.added[k].ev, "win",
                                              W(Twom, Rec.added[k].pt, Rec.added[k].Eq)),
                        led, [k \in DOMAIN Rec.added |-> k])
     /\ Bump("tracks", Len(added))
  /\ lastgen' = Len(prims) /\ pc' = "start"
  /\ UNCHANGED <<cfg, zero, slot, finished, prims, pres, posts, hang, tal>>

TStart ==
  /\ pc = "start" /\ Rec.e = "Start"
  /\ Mark(StartClauses(slot, inits, Rec.changed, Rec.removed, Rec.added, Rec.ctr, NSlots))
  /\ slot' = [i \in DOMAIN slot |->
                IF \E k \in DOMAIN Rec.changed : Rec.changed[k].slot = i
                THEN Proj((CHOOSE c \in ToSet(Rec.changed) : c.slot = i)) ELSE slot[i]]
  /\ inits' = {r \in inits : ~\E k \in DOMAIN Rec.removed :
                               Key(r) = <<Rec.removed[k].ev, Rec.removed[k].tid>>}
  /\ pc' = "pre"
  /\ UNCHANGED <<cfg, zero, born, finished, prims, pres, posts, led, stat, lastgen, hang, tal>>

TPre ==
  /\ pc = "pre" /\ Rec.e = "Pre"
  /\ LET recs == Rec.slots
         got == {recs[k].slot : k \in DOMAIN recs}
         bySlot(i) == CHOOSE r \in ToSet(recs) : r.slot = i
     IN
     /\ Mark((IF got = ActiveSlots(slot) /\ Cardinality(got) = Len(recs) THEN {} ELSE {"C02.ActiveComplete@Pre"})
             \cup UNION {PreSlotClauses(slot[i], bySlot(i), zero.L) : i \in got \cap ActiveSlots(slot)})
     /\ pres' = [i \in got |-> bySlot(i)]
     /\ slot' = [i \in DOMAIN slot |-> IF i \in got THEN Proj(bySlot(i)) ELSE slot[i]]
  /\ pc' = "post"
  /\ UNCHANGED <<cfg, zero, inits, born, finished, prims, posts, led, stat, lastgen, hang, tal>>

TPost ==
  /\ pc = "post" /\ Rec.e = "Post"
  /\ LET recs == Rec.slots
         got == {recs[k].slot : k \in DOMAIN recs}
         bySlot(i) == CHOOSE r \in ToSet(recs) : r.slot = i
         nsec == Sum([k \in DOMAIN recs |-> Len(recs[k].secs) + recs[k].nfalse])
     IN
     /\ Mark((IF got = DOMAIN pres /\ Cardinality(got) = Len(recs) THEN {} ELSE {"C02.ActiveComplete@Post"})
             \cup UNION {PostSlotClauses(pres[i], bySlot(i), Twom, zero, cfg.msc /\ cfg.field) : i \in got \cap DOMAIN pres}
             \cup (IF Rec.stack.size <= Rec.stack.cap /\ nsec <= Rec.stack.size
                   THEN {} ELSE {"C16.StackWithinCapacity"}))
     /\ posts' = [i \in got |-> bySlot(i)]
     /\ slot' = [i \in DOMAIN slot |-> IF i \in got THEN Proj(bySlot(i)) ELSE slot[i]]
     /\ led' = FoldLeft(LAMBDA L, k :
                   LET r == recs[k]
                       L1 == LedAdd(L, r.ev, "dep", r.depq)
                   IN IF r.st # "alive" /\ r.out
                      THEN LedAdd(L1, r.ev, "esc", W(Twom, r.pt, r.Eq)) ELSE L1,
                 led, [k \in DOMAIN recs |-> k])
     /\ stat' = [stat EXCEPT !.steps = @ + Len(recs),
                             !.failures = @ + Cardinality({i \in got : bySlot(i).act = "physics-failure"})]
     /\ tal' = FoldLeft(LAMBDA T, k :
                   LET r == recs[k]
                       p == pres[r.slot]
                       T1 == [T EXCEPT !.act = Inc(@, <<r.pt, r.act>>, 1)]
                       T2 == IF r.st = "killed"
                             THEN [T1 EXCEPT !.steps = Inc(@, <<r.pt, SetMin(r.ns, cfg.stepbins - 1)>>, 1)]
                             ELSE T1
                   IN IF r.slot \in DOMAIN pres /\ Filt.dets # {} /\ Passes(Filt, p, r)
                      THEN [T2 EXCEPT !.calo = IncQ(@, DetMap[p.vol], r.depq)] ELSE T2,
                 tal, [k \in DOMAIN recs |-> k])
  /\ pc' = "deliver"
  /\ UNCHANGED <<cfg, zero, inits, born, finished, prims, pres, lastgen, hang>>

TDeliver ==
  /\ pc = "deliver" /\ Rec.e = "Deliver"
  /\ Mark(DeliverClauses(Filt, DetMap, pres, posts, Rec.steps) \cup DsoClauses(Rec))
  /\ Bump("delivered", Len(Rec.steps))
  /\ UNCHANGED <<pc, cfg, zero, slot, inits, born, finished, prims, pres, posts, led, lastgen, hang, tal>>

TEnd ==
  /\ pc = "deliver" /\ Rec.e = "End"
  /\ LET added == [k \in DOMAIN Rec.added |-> Ident(Rec.added[k])]
         dead == {i \in DOMAIN posts : posts[i].st # "alive"}
         chg(i) == CHOOSE c \in ToSet(Rec.changed) : c.slot = i
         isChanged(i) == \E c \in ToSet(Rec.changed) : c.slot = i
         newslot == [i \in DOMAIN slot |-> IF isChanged(i) THEN Proj(chg(i)) ELSE slot[i]]
         inplace == {i \in dead : IsActive(newslot[i])}
     IN
     /\ Mark(EndClauses(slot, inits, born, posts, Rec.changed, added, Rec.removed, Rec.ctr, Rec.vac,
                        NSlots, cfg.initcap))
     /\ slot' = newslot
     /\ inits' = inits \cup ToSet(added)
     /\ born' = born \cup {Key(added[k]) : k \in DOMAIN added} \cup {Key(newslot[i]) : i \in inplace}
     /\ finished' = finished \cup {Key(posts[i]) : i \in dead}
     /\ stat' = [stat EXCEPT !.tracks = @ + Len(added) + Cardinality(inplace),
                             !.inplace = @ + Cardinality(inplace), !.iters = @ + 1]
  /\ pc' = "result"
  /\ UNCHANGED <<cfg, zero, prims, pres, posts, led, lastgen, hang, tal>>

TResult ==
  /\ pc = "result" /\ Rec.e = "Result"
  /\ Mark(IF /\ Rec.generated = lastgen
             /\ Rec.queued = Cardinality(inits)
             /\ Rec.alive = Cardinality(ActiveSlots(slot))
             /\ Rec.active = Cardinality(DOMAIN posts)
          THEN {} ELSE {"C02.Result"})
  /\ pc' = "idle" /\ pres' = <<>> /\ posts' = <<>>
  /\ UNCHANGED <<cfg, zero, slot, inits, born, finished, prims, led, stat, lastgen, hang, tal>>

(* A capacity error may be raised by Gen (primaries) or End (secondaries); it must be
   justified by the configured capacity, and the reset that follows restores the start state. *)
TError ==
  /\ pc \in {"gen", "deliver"} /\ Rec.e = "Error"
  /\ Mark((IF Rec.kind = "capacity" THEN {} ELSE {"C16.UnexpectedError"})
          \cup (IF \/ (pc = "deliver" /\ Rec.ctr.inits > cfg.initcap)
                   \/ (pc = "gen" /\ Cardinality(inits) + Len(prims) > cfg.initcap)
                THEN {} ELSE {"C16.ErrorJustified"}))
  /\ Bump("errors", 1) /\ pc' = "reset"
  /\ UNCHANGED <<cfg, zero, slot, inits, born, finished, prims, pres, posts, led, lastgen, hang, tal>>
TReset ==
  /\ pc = "reset" /\ Rec.e = "Reset"
  /\ slot' = [i \in 1..NSlots |-> Inactive(i)] /\ inits' = {} /\ born' = {} /\ finished' = {}
  /\ led' = <<>> /\ pres' = <<>> /\ posts' = <<>> /\ pc' = "idle"
  /\ UNCHANGED <<cfg, zero, prims, viol, stat, lastgen, hang, tal>>

(* The driver declares "no queued, no alive": check ExactlyOnce and the event ledgers. *)
TEventsDone ==
  /\ pc = "idle" /\ Rec.e = "EventsDone"
  /\ Mark((IF ActiveSlots(slot) = {} /\ inits = {} THEN {} ELSE {"C02.DoneMeansDone"})
          \cup (IF born = finished THEN {} ELSE {"C02.ExactlyOnce"})
          \cup (IF \A e \in DOMAIN led :
                     2 * Abs(led[e].win - (led[e].dep + led[e].esc)) <= led[e].n + 2
                THEN {} ELSE {"C01.LedgerEvent"}))
  /\ Bump("events", 1)
  /\ UNCHANGED <<pc, cfg, zero, slot, inits, born, finished, prims, pres, posts, led, lastgen, hang, tal>>

(* end of a run: calorimeter totals = sums of the deposits of the steps that pass the filter;
   action / step diagnostics = counts of the steps that happened *)
TTally ==
  /\ pc = "idle" /\ Rec.e = "Tally"
  /\ Mark((IF "calo" \in DOMAIN Rec =>
                \A d \in 1..Len(Rec.calo) :
                   LET exp == IF (d - 1) \in DOMAIN tal.calo THEN tal.calo[d - 1] ELSE [q |-> 0, n |-> 0]
                   IN 2 * Abs(Rec.calo[d] - exp.q) <= exp.n + 2
            THEN {} ELSE {"C17.CaloIsSumOfDeposits"})
          \cup (IF "actions" \in DOMAIN Rec =>
                    /\ {<<Rec.actions[k].pt, Rec.actions[k].act>> : k \in DOMAIN Rec.actions} = DOMAIN tal.act
                    /\ \A k \in DOMAIN Rec.actions :
                          <<Rec.actions[k].pt, Rec.actions[k].act>> \in DOMAIN tal.act =>
                             Rec.actions[k].n = tal.act[<<Rec.actions[k].pt, Rec.actions[k].act>>]
                 THEN {} ELSE {"C17.ActionDiagnosticCounts"})
          \cup (IF "steps" \in DOMAIN Rec =>
                    /\ {<<Rec.steps[k].pt, Rec.steps[k].bin>> : k \in DOMAIN Rec.steps} = DOMAIN tal.steps
                    /\ \A k \in DOMAIN Rec.steps :
                          <<Rec.steps[k].pt, Rec.steps[k].bin>> \in DOMAIN tal.steps =>
                             Rec.steps[k].n = tal.steps[<<Rec.steps[k].pt, Rec.steps[k].bin>>]
                 THEN {} ELSE {"C17.StepDiagnosticCounts"}))
  /\ Bump("tallies", 1)
  /\ UNCHANGED <<pc, cfg, zero, slot, inits, born, finished, prims, pres, posts, led, lastgen, hang, tal>>

\* Stepper::kill_active(): every active track is marked errored (to be killed, with its energy
\* deposited, by the tracking cut of the next step); identities and energies are untouched
TKillActive ==
  /\ pc = "idle" /\ Rec.e = "KillActive"
  /\ Mark(IF /\ {Rec.changed[k].slot : k \in DOMAIN Rec.changed} = ActiveSlots(slot)
             /\ \A k \in DOMAIN Rec.changed :
                   LET c == Rec.changed[k] IN
                   /\ IsActive(slot[c.slot]) /\ c.st = "errored"
                   /\ Ident(c) = Ident(slot[c.slot]) /\ c.ns = slot[c.slot].ns
          THEN {} ELSE {"C02.KillActiveMarksErrored"})
  /\ slot' = [i \in DOMAIN slot |->
                IF \E k \in DOMAIN Rec.changed : Rec.changed[k].slot = i
                THEN [f \in DOMAIN slot[i] |-> IF f = "st" THEN "errored" ELSE slot[i][f]] ELSE slot[i]]
  /\ Bump("kills", 1)
  /\ UNCHANGED <<pc, cfg, zero, inits, born, finished, prims, pres, posts, led, lastgen, hang, tal>>

\* scripted replay only: the code asked for an interaction the script (the Impl model) did not foresee
TOffScript ==
  /\ pc = "idle" /\ Rec.e = "OffScript" /\ Mark({"DRIFT.OffScript"})
  /\ UNCHANGED <<pc, cfg, zero, slot, inits, born, finished, prims, pres, posts, led, stat, lastgen, hang, tal>>

\* every run ends with an explicit Close: a truncated trace (crash of the harness) is rejected
TClose ==
  /\ pc = "idle" /\ Rec.e = "Close"
  /\ UNCHANGED <<pc, cfg, zero, slot, inits, born, finished, prims, pres, posts, led, viol, stat, lastgen, hang, tal>>

THang ==
  /\ Rec.e = "Hang" /\ hang' = TRUE /\ pc' = "idle"
  /\ Mark({IF cfg.seccap < 2 THEN "C16.LivelockBelowOneReservation" ELSE "C02.Terminates"})
  /\ UNCHANGED <<cfg, zero, slot, inits, born, finished, prims, pres, posts, led, stat, lastgen, tal>>

Next ==
  /\ l <= N /\ l' = l + 1
  /\ \/ TConfig \/ TRanks \/ TReseed \/ TInsert \/ TGen \/ TStart \/ TPre \/ TPost \/ TDeliver
     \/ TEnd \/ TResult \/ TError \/ TReset \/ TEventsDone \/ THang \/ TTally \/ TClose \/ TOffScript \/ TKillActive
Spec == Init /\ [][Next]_vars

Accepted ==
  LET d == TLCGet("stats").diameter IN
  IF d - 1 = N /\ TraceLog[N].e = "Close" THEN TRUE
  ELSE /\ PrintT(<<"REJECTED", d, TraceLog[IF d <= N THEN d ELSE N]>>)
       /\ FALSE
\* printed once, at the end of the trace (the invariant itself is always TRUE)
Report == (l = N + 1) =>
   PrintT(<<"SUMMARY", ToJson([viol |-> viol, stat |-> stat, stateinv |-> StateInv])>>)
=============================================================================
